# C19, text layer: the extracted model of src/peripheral/broker/etrade.rs
# (coq/Model/EtradeText.v, auxiliary extraction group "etradetext") against
# parse_pdf_text of the real code (harness mode `parsetext`) on document texts:
# encoding / decoding of the model's integer interface, canonical form of the
# harness output, comparison, damage operators, and the encoding of layout
# records for the Gallina renderers (Spec/EtradeLayout.v).
import datetime
import re
from decimal import Decimal
from fractions import Fraction

import etrade as E

JD0 = 1721425          # Julian day number of ordinal 0 (0001-01-01 has ordinal 1)
ACTS = ["Buy", "Sell", "RoC", "SfLA", "Split"]


def enc_text(s):
    return [1] + [ord(c) for c in s]


class Rd:
    def __init__(self, ints):
        self.it = iter(ints)

    def z(self):
        return next(self.it)

    def text(self):
        return "".join(chr(self.z()) for _ in range(self.z()))

    def q(self):
        n = self.z()
        return Fraction(n, self.z())

    def optz(self):
        f, v = self.z(), self.z()
        return v if f else None

    def optq(self):
        f = self.z()
        v = self.q()
        return v if f else None

    def opttext(self):
        f = self.z()
        if f:
            return self.text()
        self.z()
        return None


def parse_model(ints):
    r = Rd(ints)
    st = r.z()
    if st == 0:
        kind = r.z()
        n = r.z()
        recs = []
        for _ in range(n):
            if kind == 0:
                recs.append(dict(sec=r.text(), date=r.z(), settle=r.z(), price=r.q(), shares=r.q(), stc_td=r.optz(), stc_sd=r.optz(),
                                 stc_price=r.optq(), stc_shares=r.optq(), stc_fee=r.optq(), note=r.text(), sell_note=r.opttext()))
            else:
                recs.append(dict(sec=r.text(), td=r.z(), sd=r.z(), td_text=r.text(), sd_text=r.text(), act=ACTS[r.z()], price=r.q(),
                                 shares=r.q(), comm=r.q(), row=r.z(), acct=r.text()))
        return dict(status="ok", kind="benefits" if kind == 0 else "trades", recs=recs)
    if st == 2:
        return dict(status="err", code=r.z())
    if st == 3:
        return dict(status="panic", panic=(r.z(), r.z()))
    return dict(status="malformed")


def fq(s):
    return None if s is None else Fraction(Decimal(s))


def oj(v):
    return None if v is None else v - JD0


def canon_impl(o, basename=None):
    """harness `parsetext` output -> the model's canonical form; constant fields are checked here"""
    if o.get("status") == "panic":
        return dict(status="panic", panic=o.get("panic"))
    if o["status"] == "err":
        return dict(status="err", error=o["error"])
    recs = []
    odd = []
    for r in o["recs"]:
        if o["kind"] == "benefits":
            recs.append(dict(sec=r["sec"], date=oj(r["date"]), settle=oj(r["settle"]), price=fq(r["price"]), shares=fq(r["shares"]),
                             stc_td=oj(r["stc_td"]), stc_sd=oj(r["stc_sd"]), stc_price=fq(r["stc_price"]), stc_shares=fq(r["stc_shares"]),
                             stc_fee=fq(r["stc_fee"]), note=r["note"], sell_note=r["sell_note"]))
        else:
            recs.append(dict(sec=r["sec"], td=oj(r["td"]), sd=oj(r["sd"]), td_text=r["td_text"], sd_text=r["sd_text"], act=r["act"],
                             price=fq(r["price"]), shares=fq(r["shares"]), comm=fq(r["comm"]), row=r["row"], acct=r["acct"]))
            if (r["currency"], r["memo"], r["has_rate"], r["affiliate"], r["acct_type"], r["broker"], r["tiebreak"]) != (
                    "USD", "", False, "Default", "", "E*TRADE", False):
                odd.append("constant fields of BrokerTx: %r" % (r,))
        if basename is not None and r["file"] != basename:
            odd.append("filename %r, expected %r" % (r["file"], basename))
    return dict(status="ok", kind=o["kind"], recs=recs, odd=odd)


def diff(model, impl):
    """None if outcome class and every field of every record agree"""
    if model["status"] != impl["status"]:
        return "outcome: model %s %s, implementation %s %s" % (model["status"], model.get("code") or model.get("panic") or "",
                                                               impl["status"], impl.get("error") or impl.get("panic") or "")
    if model["status"] != "ok":
        return None
    if model["kind"] != impl["kind"]:
        return "content: model %s, implementation %s" % (model["kind"], impl["kind"])
    if len(model["recs"]) != len(impl["recs"]):
        return "%d records in the model, %d in the implementation" % (len(model["recs"]), len(impl["recs"]))
    for i, (a, b) in enumerate(zip(model["recs"], impl["recs"])):
        for k in a:
            if a[k] != b[k]:
                return "record %d field %s: model %r, implementation %r" % (i, k, a[k], b[k])
    if impl.get("odd"):
        return impl["odd"][0]
    return None


# ------------------------------------------------------------------ expected records of a rendered document

def expected(f):
    """the records etrade.records() (the oracle-side reading of a generated file) predicts for ONE file,
    in the canonical form above (None when the generator's record is outside what it predicts)"""
    bens, trs = E.records([f])
    if f["kind"] in ("rsu", "espp", "eso"):
        return dict(status="ok", kind="benefits", recs=[
            dict(sec=b["sec"], date=b["date"], settle=b["settle"], price=b["price"], shares=b["shares"], stc_td=b["stc_td"], stc_sd=b["stc_sd"],
                 stc_price=b["stc_price"], stc_shares=b["stc_shares"], stc_fee=b["stc_fee"], note=b["note"], sell_note=b["sell_note"]) for b in bens])
    td_fmt = "slash2" if f["kind"] == "tc_pre" else "slash4"
    return dict(status="ok", kind="trades", recs=[
        dict(sec=t["sec"], td=t["td"], sd=t["sd"], td_text=E.dmy(t["td"], td_fmt), sd_text=E.dmy(t["sd"], td_fmt), act=t["act"],
             price=t["price"], shares=t["shares"], comm=t["comm"], row=t["row"], acct=t["acct"]) for t in trs])


# ------------------------------------------------------------------ layout records for the Gallina renderers

KIND_NO = {"rsu": 0, "espp": 1, "eso": 2, "tc_pre": 3, "tc_post": 4}


def et(s):
    return [len(s)] + [ord(c) for c in s]


def eopt(s):
    return [0] if s is None else [1] + et(s)


def edate(o, fmt):
    d = datetime.date.fromordinal(o)
    y = "%04d" % d.year if fmt != "slash2" else "%02d" % (d.year % 100)
    return et("%02d" % d.month) + et("%02d" % d.day) + et(y)


def enc_layout(f):
    """integer case `2 :: kind :: style :: record` for render_<kind>, or None when the Python record has no
    Gallina layout record (e.g. an award that is not R<digits>)"""
    r, k = f["rec"], f["kind"]
    out = [2, KIND_NO[k], f.get("style", 0)]
    if k == "rsu":
        if not re.fullmatch(r"R\d+", r["award"]):
            return None
        issued = "%.4f" % (Decimal(r["released"]) - Decimal(r["sold"]))
        out += et(r["sym"]) + edate(r["date"], "dash") + et(r["award"][1:]) + et(r["released"]) + et(r["sold"]) + et(issued)
        out += et(r["fmv"]) + et(r["sale"]) + et(r["fee"])
    elif k == "espp":
        out += et(r["sym"]) + edate(r["date"], "dash") + et(r["purchased"]) + et(r["fmv"])
        out += eopt(r.get("sold")) + eopt(r.get("sale")) + eopt(r.get("fee"))
    elif k == "eso":
        out += et(r["sym"]) + edate(r["date"], "slash4") + et(r["extype"]) + et(r["shares_sold"]) + [len(r["grants"])]
        for g in r["grants"]:
            out += et(g["num"]) + et(g["fmv"]) + et(g["shares"]) + et(g["sale"]) + et(g["fee"])
    elif k == "tc_pre":
        out += et(r["acct"]) + [len(r["trades"])]
        for t in r["trades"]:
            if t.get("commission") is None and t.get("fee") is None:
                return None
            out += edate(t["td"], "slash2") + edate(t["sd"], "slash2") + et(t["sym"]) + et(t["act"]) + et(str(t["qty"])) + et(t["price"])
            out += eopt(t.get("commission")) + eopt(t.get("fee"))
    else:
        out += et(r["acct"]) + edate(r["td"], "slash4") + edate(r["sd"], "slash4") + et(str(r["qty"])) + et(r["price"]) + et(r["ttype"])
        out += et(r["sym"]) + eopt(r.get("commission")) + eopt(r.get("fee"))
    return out


def dec_render(ints):
    if not ints or ints[0] != 0:
        return None
    return "".join(chr(c) for c in ints[2:2 + ints[1]])


# ------------------------------------------------------------------ damage

def damage_ops(kind):
    return ["drop_line", "dup_line", "swap_lines", "truncate", "repeat_section", "dollar", "comma", "blank_lines", "crlf",
            "second_paren", "drop_word", "join_lines", "digit_edit"]


def damage(rng, text, op):
    """one damaged variant of a document text (deterministic in rng)"""
    lines = text.split("\n")
    nz = [i for i, l in enumerate(lines) if l.strip()]
    if op == "drop_line" and nz:
        i = rng.choice(nz)
        return "\n".join(lines[:i] + lines[i + 1:])
    if op == "dup_line" and nz:
        i = rng.choice(nz)
        return "\n".join(lines[:i + 1] + [lines[i]] + lines[i + 1:])
    if op == "swap_lines" and len(nz) >= 2:
        k = rng.randrange(len(nz) - 1)
        i, j = nz[k], nz[k + 1]
        lines[i], lines[j] = lines[j], lines[i]
        return "\n".join(lines)
    if op == "truncate":
        return text[:rng.randrange(len(text) + 1)]
    if op == "repeat_section" and len(lines) >= 4:
        a = rng.randrange(len(lines) - 1)
        b = min(len(lines), a + rng.randint(1, 12))
        at = rng.choice([b, len(lines), rng.randrange(len(lines))])
        return "\n".join(lines[:at] + lines[a:b] + lines[at:])
    if op == "dollar":
        pos = [m.start() for m in re.finditer(r"\$", text)]
        if pos and rng.random() < 0.6:
            p = rng.choice(pos)
            return text[:p] + rng.choice(["", "$$", "$ ", "USD"]) + text[p + 1:]
        pos = [m.start() for m in re.finditer(r"\d+\.\d+", text)]
        if pos:
            p = rng.choice(pos)
            return text[:p] + "$" + text[p:]
    if op == "comma":
        pos = [m for m in re.finditer(r"\d[\d,]*\.?\d*", text)]
        if pos:
            m = rng.choice(pos)
            s = m.group(0)
            k = rng.randrange(len(s) + 1)
            s2 = rng.choice([s[:k] + "," + s[k:], s.replace(",", ""), s[:k] + "." + s[k:], s + rng.choice(["0", "5", ",000"]),
                             "1," + s, s.replace(".", ",")])
            return text[:m.start()] + s2 + text[m.end():]
    if op == "blank_lines":
        out = []
        for l in lines:
            out.append(l)
            if rng.random() < 0.3:
                out += [""] * rng.randint(1, 2)
        return "\n".join(out)
    if op == "crlf":
        return text.replace("\n", "\r\n")
    if op == "second_paren":
        cands = [i for i, l in enumerate(lines) if re.search(r"\([A-Za-z.]+\)", l)]
        grp = rng.choice(["(XYZ)", "(Stock)", "(x.y)", "(ABC", "(A1)", "()"])
        if cands and rng.random() < 0.6:
            i = rng.choice(cands)
            lines[i] = lines[i] + " " + grp
        elif lines:
            i = rng.randrange(len(lines))
            lines[i] = lines[i] + " " + grp
        return "\n".join(lines)
    if op == "drop_word":
        ws = [m for m in re.finditer(r"\S+", text)]
        if ws:
            m = rng.choice(ws)
            return text[:m.start()] + text[m.end():]
    if op == "join_lines" and len(lines) >= 2:
        i = rng.randrange(len(lines) - 1)
        return "\n".join(lines[:i] + [lines[i] + rng.choice(["", " "]) + lines[i + 1]] + lines[i + 2:])
    if op == "digit_edit":
        pos = [m.start() for m in re.finditer(r"\d", text)]
        if pos:
            p = rng.choice(pos)
            return text[:p] + rng.choice(["", "x", "99999999999999999999", "0", "/", "-", "13", "00"]) + text[p + 1:]
    return text
