# C19, text layer: the extracted model of src/peripheral/broker/etrade.rs
# (coq/Model/EtradeText.v, auxiliary extraction group "etradetext") against
# parse_pdf_text of the real code (harness mode `parsetext`) on document texts:
# encoding / decoding of the model's integer interface, canonical form of the
# harness output, comparison, damage operators, and the encoding of layout
# records for the Gallina renderers (Spec/EtradeLayout.v).
import datetime
import re
from decimal import Decimal
from fractions import Fraction

import etrade as E

JD0 = 1721425          # Julian day number of ordinal 0 (0001-01-01 has ordinal 1)
ACTS = ["Buy", "Sell", "RoC", "SfLA", "Split"]


def enc_text(s):
    return [1] + [ord(c) for c in s]


class Rd:
    def __init__(self, ints):
        self.it = iter(ints)

    def z(self):
        return next(self.it)

    def text(self):
        return "".join(chr(self.z()) for _ in range(self.z()))

    def q(self):
        n = self.z()
        return Fraction(n, self.z())

    def optz(self):
        f, v = self.z(), self.z()
        return v if f else None

    def optq(self):
        f = self.z()
        v = self.q()
        return v if f else None

    def opttext(self):
        f = self.z()
        if f:
            return self.text()
        self.z()
        return None


def parse_model(ints):
    r = Rd(ints)
    st = r.z()
    if st == 0:
        kind = r.z()
        n = r.z()
        recs = []
        for _ in range(n):
            if kind == 0:
                recs.append(dict(sec=r.text(), date=r.z(), settle=r.z(), price=r.q(), shares=r.q(), stc_td=r.optz(), stc_sd=r.optz(),
                                 stc_price=r.optq(), stc_shares=r.optq(), stc_fee=r.optq(), note=r.text(), sell_note=r.opttext()))
            else:
                recs.append(dict(sec=r.text(), td=r.z(), sd=r.z(), td_text=r.text(), sd_text=r.text(), act=ACTS[r.z()], price=r.q(),
                                 shares=r.q(), comm=r.q(), row=r.z(), acct=r.text()))
        return dict(status="ok", kind="benefits" if kind == 0 else "trades", recs=recs)
    if st == 2:
        return dict(status="err", code=r.z())
    if st == 3:
        return dict(status="panic", panic=(r.z(), r.z()))
    return dict(status="malformed")


def fq(s):
    return None if s is None else Fraction(Decimal(s))


def oj(v):
    return None if v is None else v - JD0


def canon_impl(o, basename=None):
    """harness `parsetext` output -> the model's canonical form; constant fields are checked here"""
    if o.get("status") == "panic":
        return dict(status="panic", panic=o.get("panic"))
    if o["status"] == "err":
        return dict(status="err", error=o["error"])
    recs = []
    odd = []
    for r in o["recs"]:
        if o["kind"] == "benefits":
            recs.append(dict(sec=r["sec"], date=oj(r["date"]), settle=oj(r["settle"]), price=fq(r["price"]), shares=fq(r["shares"]),
                             stc_td=oj(r["stc_td"]), stc_sd=oj(r["stc_sd"]), stc_price=fq(r["stc_price"]), stc_shares=fq(r["stc_shares"]),
                             stc_fee=fq(r["stc_fee"]), note=r["note"], sell_note=r["sell_note"]))
        else:
            recs.append(dict(sec=r["sec"], td=oj(r["td"]), sd=oj(r["sd"]), td_text=r["td_text"], sd_text=r["sd_text"], act=r["act"],
                             price=fq(r["price"]), shares=fq(r["shares"]), comm=fq(r["comm"]), row=r["row"], acct=r["acct"]))
            if (r["currency"], r["memo"], r["has_rate"], r["affiliate"], r["acct_type"], r["broker"], r["tiebreak"]) != (
                    "USD", "", False, "Default", "", "E*TRADE", False):
                odd.append("constant fields of BrokerTx: %r" % (r,))
        if basename is not None and r["file"] != basename:
            odd.append("filename %r, expected %r" % (r["file"], basename))
    return dict(status="ok", kind=o["kind"], recs=recs, odd=odd)


def diff(model, impl, who="model"):
    """None if outcome class and every field of every record agree"""
    if model["status"] != impl["status"]:
        return "outcome: %s %s %s, implementation %s %s" % (who, model["status"], model.get("code") or model.get("panic") or "",
                                                            impl["status"], impl.get("error") or impl.get("panic") or "")
    if model["status"] != "ok":
        return None
    if model["kind"] != impl["kind"]:
        return "content: %s %s, implementation %s" % (who, model["kind"], impl["kind"])
    if len(model["recs"]) != len(impl["recs"]):
        return "%d records in the %s, %d in the implementation" % (len(model["recs"]), who, len(impl["recs"]))
    for i, (a, b) in enumerate(zip(model["recs"], impl["recs"])):
        for k in a:
            if a[k] != b[k]:
                return "record %d field %s: %s %r, implementation %r" % (i, k, who, a[k], b[k])
    if impl.get("odd"):
        return impl["odd"][0]
    return None


# ------------------------------------------------------------------ expected records of a rendered document

def expected(f):
    """the records etrade.records() (the oracle-side reading of a generated file) predicts for ONE file,
    in the canonical form above (None when the generator's record is outside what it predicts)"""
    bens, trs = E.records([f])
    if f["kind"] in ("rsu", "espp", "eso"):
        return dict(status="ok", kind="benefits", recs=[
            dict(sec=b["sec"], date=b["date"], settle=b["settle"], price=b["price"], shares=b["shares"], stc_td=b["stc_td"], stc_sd=b["stc_sd"],
                 stc_price=b["stc_price"], stc_shares=b["stc_shares"], stc_fee=b["stc_fee"], note=b["note"], sell_note=b["sell_note"]) for b in bens])
    td_fmt = "slash2" if f["kind"] == "tc_pre" else "slash4"
    return dict(status="ok", kind="trades", recs=[
        dict(sec=t["sec"], td=t["td"], sd=t["sd"], td_text=E.dmy(t["td"], td_fmt), sd_text=E.dmy(t["sd"], td_fmt), act=t["act"],
             price=t["price"], shares=t["shares"], comm=t["comm"], row=t["row"], acct=t["acct"]) for t in trs])


# ------------------------------------------------------------------ layout records for the Gallina renderers

KIND_NO = {"rsu": 0, "espp": 1, "eso": 2, "tc_pre": 3, "tc_post": 4}


def et(s):
    return [len(s)] + [ord(c) for c in s]


def eopt(s):
    return [0] if s is None else [1] + et(s)


def edate(o, fmt):
    d = datetime.date.fromordinal(o)
    y = "%04d" % d.year if fmt != "slash2" else "%02d" % (d.year % 100)
    return et("%02d" % d.month) + et("%02d" % d.day) + et(y)


def enc_layout(f):
    """integer case `2 :: kind :: style :: record` for render_<kind>, or None when the Python record has no
    Gallina layout record (e.g. an award that is not R<digits>)"""
    r, k = f["rec"], f["kind"]
    out = [2, KIND_NO[k], f.get("style", 0)]
    if k == "rsu":
        if not re.fullmatch(r"R\d+", r["award"]):
            return None
        issued = "%.4f" % (Decimal(r["released"]) - Decimal(r["sold"]))
        out += et(r["sym"]) + edate(r["date"], "dash") + et(r["award"][1:]) + et(r["released"]) + et(r["sold"]) + et(issued)
        out += et(r["fmv"]) + et(r["sale"]) + et(r["fee"])
    elif k == "espp":
        out += et(r["sym"]) + edate(r["date"], "dash") + et(r["purchased"]) + et(r["fmv"])
        out += eopt(r.get("sold")) + eopt(r.get("sale")) + eopt(r.get("fee"))
    elif k == "eso":
        out += et(r["sym"]) + edate(r["date"], "slash4") + et(r["extype"]) + et(r["shares_sold"]) + [len(r["grants"])]
        for g in r["grants"]:
            out += et(g["num"]) + et(g["fmv"]) + et(g["shares"]) + et(g["sale"]) + et(g["fee"])
    elif k == "tc_pre":
        out += et(r["acct"]) + [len(r["trades"])]
        for t in r["trades"]:
            if t.get("commission") is None and t.get("fee") is None:
                return None
            out += edate(t["td"], "slash2") + edate(t["sd"], "slash2") + et(t["sym"]) + et(t["act"]) + et(str(t["qty"])) + et(t["price"])
            out += eopt(t.get("commission")) + eopt(t.get("fee"))
    else:
        out += et(r["acct"]) + edate(r["td"], "slash4") + edate(r["sd"], "slash4") + et(str(r["qty"])) + et(r["price"]) + et(r["ttype"])
        out += et(r["sym"]) + eopt(r.get("commission")) + eopt(r.get("fee"))
    return out


def dec_render(ints):
    if not ints or ints[0] != 0:
        return None
    return "".join(chr(c) for c in ints[2:2 + ints[1]])


# ------------------------------------------------------------------ damage

def damage_ops(kind):
    return ["drop_line", "dup_line", "swap_lines", "truncate", "repeat_section", "dollar", "comma", "blank_lines", "crlf",
            "second_paren", "drop_word", "join_lines", "digit_edit"]


def damage(rng, text, op):
    """one damaged variant of a document text (deterministic in rng)"""
    lines = text.split("\n")
    nz = [i for i, l in enumerate(lines) if l.strip()]
    if op == "drop_line" and nz:
        i = rng.choice(nz)
        return "\n".join(lines[:i] + lines[i + 1:])
    if op == "dup_line" and nz:
        i = rng.choice(nz)
        return "\n".join(lines[:i + 1] + [lines[i]] + lines[i + 1:])
    if op == "swap_lines" and len(nz) >= 2:
        k = rng.randrange(len(nz) - 1)
        i, j = nz[k], nz[k + 1]
        lines[i], lines[j] = lines[j], lines[i]
        return "\n".join(lines)
    if op == "truncate":
        return text[:rng.randrange(len(text) + 1)]
    if op == "repeat_section" and len(lines) >= 4:
        a = rng.randrange(len(lines) - 1)
        b = min(len(lines), a + rng.randint(1, 12))
        at = rng.choice([b, len(lines), rng.randrange(len(lines))])
        return "\n".join(lines[:at] + lines[a:b] + lines[at:])
    if op == "dollar":
        pos = [m.start() for m in re.finditer(r"\$", text)]
        if pos and rng.random() < 0.6:
            p = rng.choice(pos)
            return text[:p] + rng.choice(["", "$$", "$ ", "USD"]) + text[p + 1:]
        pos = [m.start() for m in re.finditer(r"\d+\.\d+", text)]
        if pos:
            p = rng.choice(pos)
            return text[:p] + "$" + text[p:]
    if op == "comma":
        pos = [m for m in re.finditer(r"\d[\d,]*\.?\d*", text)]
        if pos:
            m = rng.choice(pos)
            s = m.group(0)
            k = rng.randrange(len(s) + 1)
            s2 = rng.choice([s[:k] + "," + s[k:], s.replace(",", ""), s[:k] + "." + s[k:], s + rng.choice(["0", "5", ",000"]),
                             "1," + s, s.replace(".", ",")])
            return text[:m.start()] + s2 + text[m.end():]
    if op == "blank_lines":
        out = []
        for l in lines:
            out.append(l)
            if rng.random() < 0.3:
                out += [""] * rng.randint(1, 2)
        return "\n".join(out)
    if op == "crlf":
        return text.replace("\n", "\r\n")
    if op == "second_paren":
        cands = [i for i, l in enumerate(lines) if re.search(r"\([A-Za-z.]+\)", l)]
        grp = rng.choice(["(XYZ)", "(Stock)", "(x.y)", "(ABC", "(A1)", "()"])
        if cands and rng.random() < 0.6:
            i = rng.choice(cands)
            lines[i] = lines[i] + " " + grp
        elif lines:
            i = rng.randrange(len(lines))
            lines[i] = lines[i] + " " + grp
        return "\n".join(lines)
    if op == "drop_word":
        ws = [m for m in re.finditer(r"\S+", text)]
        if ws:
            m = rng.choice(ws)
            return text[:m.start()] + text[m.end():]
    if op == "join_lines" and len(lines) >= 2:
        i = rng.randrange(len(lines) - 1)
        return "\n".join(lines[:i] + [lines[i] + rng.choice(["", " "]) + lines[i + 1]] + lines[i + 2:])
    if op == "digit_edit":
        pos = [m.start() for m in re.finditer(r"\d", text)]
        if pos:
            p = rng.choice(pos)
            return text[:p] + rng.choice(["", "x", "99999999999999999999", "0", "/", "-", "13", "00"]) + text[p + 1:]
    return text


# ------------------------------------------------------------------ hand-written adversarial texts

def _rsu(**kw):
    r = dict(sym="FOO", date=datetime.date(2024, 2, 20).toordinal(), award="R12353", released="100.0000", sold="10.0000",
             fmv="105.610000", sale="106.360000", fee="4.17")
    r.update(kw)
    return E.render_rsu(r, kw.get("style", 0))


def _eso(grants, style=0, **kw):
    r = dict(sym="FOO", date=datetime.date(2024, 2, 21).toordinal(), extype="Same-Day Sale", shares_sold="35", grants=grants)
    r.update(kw)
    return E.render_eso(r, style)


def _g(num="1234", fmv="90.25", shares="100", sale="120.00", fee="10.00"):
    return dict(num=num, fmv=fmv, shares=shares, sale=sale, fee=fee)


def _post(**kw):
    d = datetime.date(2024, 2, 21).toordinal()
    r = dict(acct="123-XXX789-111", td=d, sd=d + 2, qty=5, price="106.36", ttype="Sold", sym="FOO", commission="3.91", fee="0.26")
    r.update(kw)
    return E.render_tc_post(r, kw.get("style", 0))


def _pre(trades, style=0, acct="XXXX-1234"):
    return E.render_tc_pre(dict(acct=acct, trades=trades), style)


def _t(**kw):
    d = datetime.date(2023, 2, 20).toordinal()
    t = dict(td=d, sd=d + 2, sym="FOO", act="SELL", qty=6, price="120.01", commission="20.05", fee="0.02")
    t.update(kw)
    return t


MAXD = "79228162514264337593543950335"


def eso_missing_row_witness():
    """regression case of the fixed defect c454485 (parse_eso_data zipped its per-grant row lists and the zip stopped
    at the shortest): an exercise confirmation naming two grants, the second without its Comission/Fee row, and the
    trade confirmation matching its sell-to-cover.  -> ([(path, text)], note that must not silently disappear, note kept)"""
    two = [_g("1234", "1,000.00"), _g("1235", "90.25", "200", "120.00", "11.00")]
    eso = _eso(two).replace("        Comission/Fee $11.00\n", "", 1)
    d = datetime.date(2024, 2, 21).toordinal()
    tc = _post(td=d, sd=d + 2, qty=35, price="120.00")
    return [("eso.txt", eso), ("tc.txt", tc)], "Option Grant 1235", "Option Grant 1234"


def adversarial_corpus():
    """(label, text) pairs aimed at the regex semantics the model transliterates"""
    out = []
    a = lambda lab, t: out.append((lab, t))
    two = [_g("1234", "1,000.00"), _g("1235", "90.25", "200", "120.00", "11.00")]
    eso = _eso(two)
    a("eso two grants", eso)
    a("eso fee sum overflows Decimal (panic)", _eso([_g(fee=MAXD), _g("1235", fee=MAXD)]))
    a("eso fee sum just fits", _eso([_g(fee=MAXD), _g("1235", fee="0.4")]))
    a("eso fee sum rounds", _eso([_g(fee="7922816251426433759354395033.5"), _g("1235", fee="7922816251426433759354395033.5")]))
    for key in ("Grant Number 1235", "Exercise Market Value $90.25", "Shares Exercised 200", "Sale Price $120.00\n        Comission/Fee $11.00",
                "Comission/Fee $11.00", "Grant 2"):
        a("eso row of the second grant missing: " + key.split("\n")[0], eso.replace("        " + key + "\n", "", 1) if key != "Sale Price $120.00\n        Comission/Fee $11.00"
          else eso.replace("        Sale Price $120.00\n        Comission/Fee $11.00\n", "        Comission/Fee $11.00\n"))
    a("eso first grant lacks its fee row", eso.replace("        Comission/Fee $10.00\n", "", 1))
    a("eso unequal sale prices", _eso([_g(), _g("1235", sale="121.00")]))
    a("eso grant number beyond u64", _eso([_g(num="18446744073709551616")]))
    a("eso grant number u64 max, leading zeros", _eso([_g(num="0018446744073709551615")]))
    a("eso two values on a row", eso.replace("Shares Exercised 100", "Shares Exercised 100 200").replace("Grant Number 1234", "Grant Number 1234\n 77"))
    a("eso value 1.2.3", _eso([_g(fmv="1.2.3")]))
    a("eso value of commas only", _eso([_g(shares=",")]))
    a("eso no grants", _eso([]))
    a("eso details twice", eso.replace("Exercise Date:", "Exercise Details\nExercise Date:"))
    a("eso date twice", eso + "\nExercise Date: 01/02/2024\n")
    a("eso Exercise Date before details only", eso.replace("Exercise Details", "Exercise Date").replace("Exercise Date:  02/21/2024", "x"))
    for ty in ("Exercise Type:  Registration", "Exercise Type: Registration", "Exercise Type: \nRegistration", "Exercise Type:\n\nRegistration",
               "Exercise Type: A Registration B Registration", "Exercise Type:\tSame-Day Sale  \n  Registration",
               "Exercise Type: Same-Day Sale  Registration", "Exercise Type: Sale (Stock) Registration", "Exercise Type: X\nY Registration",
               "Exercise Type:Same Registration", "Exercise Type:  Cash Registration", "Exercise Type: a\r\nRegistration"):
        a("eso " + repr(ty), eso.replace("Exercise Type: Same-Day Sale Registration", ty))
    a("eso shares sold with dots", _eso(two, shares_sold="1,0.0.2"))
    a("eso shares sold in body only", eso.replace("        Shares Sold 35\n", "").replace("Grant 1\n", "Grant 1\n Shares Sold 35\n"))
    # symbol / account / employee
    rsu = _rsu()
    a("rsu plain", rsu)
    a("rsu second parenthesis after the symbol line", rsu.replace("(FOO)\n", "(FOO) (XYZ)\n", 1))
    a("rsu parenthesis late in the document", rsu + "\nsee (Note)\n")
    a("rsu unclosed group last", rsu + "\n(abc\n")
    a("rsu group with digit last", rsu + "\n(a1) (b.c)\n")
    a("rsu (Symbol))) and nothing else", rsu.replace("(Symbol)", "(Symbol)))").replace("(FOO)", "FOO"))
    a("rsu no symbol group", rsu.replace("(FOO)", "FOO"))
    a("rsu stock plan account", rsu.replace("Account Number 123456789", "Account Stock Plan (FOO) - 123456789"))
    a("rsu stock plan account, no closing parenthesis", rsu.replace("Account Number 123456789", "Account Stock Plan (FOO - 123456789"))
    a("rsu stock plan account, empty parenthesis", rsu.replace("Account Number 123456789", "Account Stock Plan () - 123456789"))
    a("rsu stock plan account, two spaces", rsu.replace("Account Number 123456789", "Account Stock Plan (FOO)  - 123456789"))
    a("rsu no employee id", rsu.replace("Employee ID: 0001", "Employee ID: none"))
    for d in ("13-20-2024", "02-30-2024", "02-29-2024", "02-29-2023", "2-20-2024", "02-20-24", "02-20-12345", "00-10-2024", "01-00-2024",
              "02-20-0000", "12-31-9999", "002-20-2024", "02-20-2024-5"):
        a("rsu release date " + d, rsu.replace("Release Date 02-20-2024", "Release Date " + d))
    for v in ("1" * 29 + ".0", "0." + "1" * 28, "0." + "1" * 29, MAXD + ".0", "7922816251426433759354395033.5", "1.5.5", "1."):
        a("rsu shares released " + v, rsu.replace("Shares Released 100.0000", "Shares Released " + v))
    a("rsu market value with commas", rsu.replace("Market Value $1,000.00", "Market Value $1,,0,00.00"))
    a("rsu market value only per share", rsu.replace("Market Value $1,000.00", "Market Worth $1,000.00"))
    a("rsu fee without parenthesis", rsu.replace("Fee ($4.17)", "Fee $4.17"))
    a("rsu nbsp between key and value", rsu.replace("Shares Released 100.0000", "Shares Released  100.0000"))
    a("rsu value on the next line", rsu.replace("Shares Released 100.0000", "Shares Released\r\n\r\n  100.0000"))
    a("rsu marker split over lines", rsu.replace("STOCK PLAN RELEASE CONFIRMATION", "STOCK\nPLAN  RELEASE\tCONFIRMATION"))
    a("rsu marker lower case", rsu.replace("STOCK PLAN RELEASE CONFIRMATION", "Stock Plan Release Confirmation"))
    a("rsu and eso markers", rsu + "\nSTOCK PLAN EXERCISE CONFIRMATION\n")
    a("empty", "")
    a("only a marker", "TRADE CONFIRMATION")
    a("only a post marker", "This transaction is confirmed")
    # post-2023
    post = _post()
    a("post plain", post)
    a("post fee line before the commission line", post.replace("Commission $3.91\nSupplemental\nTransaction Fee $0.26\n", "Supplemental\nTransaction Fee $0.26\nCommission $3.91\n"))
    a("post two commission lines", post.replace("Commission $3.91\n", "Commission $3.91\nCommission $1.00\n"))
    a("post commission without fee", _post(fee=None))
    a("post fee without commission", _post(commission=None))
    a("post neither", _post(commission=None, fee=None))
    a("post commission without cents", post.replace("Commission $3.91", "Commission $3"))
    for ty in ("S", "SS", "Sold Short", "Bought", "sell", "Sold  ", "Resold", "Buy-Sell", "buy_sell", "ROC", "SfLA x", "split", "Unsold", "Sold Description: x",
               "Sold\tShort ", "I bought", "Boughtx", "xésold"):
        a("post type " + repr(ty), _post(ttype=ty))
    a("post type on the next line", post.replace("Transaction Type: Sold", "Transaction Type:\n  Sold"))
    a("post description on the type line", post.replace("Transaction Type: Sold\nDescription: FOO", "Transaction Type: Sold Description: FOO"))
    a("post two ISIN", post.replace("ISIN: FOO /", "ISIN: BAR ISIN: FOO /"))
    a("post last ISIN without token", post.replace("/ US0404131064Principal $1,000.00\n", "/ US1 ISIN: ").split("ISIN: ")[0] + "ISIN: A ISIN:   ")
    a("post ISIN on the third line", post.replace("Symbol / CUSIP", "x\nSymbol / CUSIP"))
    a("post ISIN token on the next line", post.replace("ISIN: FOO", "ISIN:\n\nFOO"))
    a("post header twice", post + post)
    a("post first table broken", post.replace("Quantity Price", "Quantity  Prize", 1) + post)
    a("post short year", post.replace("02/21/2024", "02/21/24"))
    a("post price without point", _post(price="106"))
    a("post quantity with point", _post(qty="5.5"))
    a("post no account", post.replace("Account Number:", "Account No:"))
    a("post account at end of text", "This transaction is confirmed Account Number: X1")
    a("post account then newline", "This transaction is confirmed Account Number: X1\n")
    a("post big commission and fee", _post(commission="7922816251426433759354395033.5", fee="7922816251426433759354395033.5"))
    a("post trade confirmation words", post.replace("Unsolicited trade", "TRADE CONFIRMATION"))
    # pre-2023
    pre = _pre([_t(), _t(qty=1, price="120.011", commission=None, fee="0.01")])
    a("pre plain", pre)
    a("pre style 1", _pre([_t(), _t(qty=1, price="120.011", commission=None)], 1))
    row = "02/20/23 02/22/23 61 FOO SELL 6 $120.01 Stock Plan PRINCIPAL $720.06\n"
    head = "TRADE CONFIRMATION\nAccount Number: XXXX-9876\n"
    for lab, body in [
        ("mkt cpt joined", row + "x COMMISSION $20.05\nFEE $0.02\nNET AMOUNT $1\n"),
        ("single digit mkt, no cpt", row.replace(" 61 ", " 6 ") + "x FEE $0.02\nNET AMOUNT $1\n"),
        ("mkt cpt backtracking takes digits as symbol", "02/20/23 02/22/23 12 34 SELL 6 $1.00 x\nFEE $1.00\nNET AMOUNT\n"),
        ("description line without commission or fee", row + "FOOSYSTEMS INC COM\nNET AMOUNT $1\n"),
        ("net amount on the row's second line", row + "FOO COM NET AMOUNT $1\n"),
        ("commission, fee, net on one line", row + "COMMISSION $1.10 FEE $2.20 NET AMOUNT $1\n"),
        ("fee then commission on one line", row + "FEE $2.20 COMMISSION $1.10\nNET AMOUNT $1\n"),
        ("fee line then commission line", row + "FEE $2.20\nCOMMISSION $1.10\nNET AMOUNT $1\n"),
        ("two commission lines", row + "COMMISSION $1.10\nCOMMISSION $1.20\nNET AMOUNT\n"),
        ("two commissions on the line", row + "COMMISSION $1.10 COMMISSION $1.20\nFEE $0.10\nNET AMOUNT\n"),
        ("two fees on the line", row + "COMMISSION $1.10\nFEE $0.10 FEE $0.20\nNET AMOUNT\n"),
        ("blank line before net", row + "COMMISSION $1.10\nFEE $0.10\n\nNET AMOUNT\n"),
        ("net amount split over lines", row + "FEE $0.10\nNET\n  AMOUNT\n"),
        ("two net amounts on the line, second row follows", row + "FEE $0.10\nNET AMOUNT NET AMOUNT " + row + "FEE $0.20\nNET AMOUNT\n"),
        ("row without newline", row.rstrip("\n")),
        ("row fields over several lines", row.replace(" ", "\n", 5) + "FEE $0.10\nNET AMOUNT\n"),
        ("commission amount on the next line", row + "COMMISSION\n$1.10\nNET AMOUNT\n"),
        ("four-digit year", row.replace("02/20/23", "02/20/2023") + "FEE $0.10\nNET AMOUNT\n"),
        ("one-digit month", row.replace("02/20/23", "2/20/23") + "FEE $0.10\nNET AMOUNT\n"),
        ("date with extra slash group", "1/" + row + "FEE $0.10\nNET AMOUNT\n"),
        ("action hold", row.replace("SELL", "HOLD") + "FEE $0.10\nNET AMOUNT\n"),
        ("second row bad action after a good row", row + "FEE $0.10\nNET AMOUNT\n" + row.replace("SELL", "HOLD") + "FEE $0.10\nNET AMOUNT\n"),
        ("quantity too long", row.replace(" 6 $", " " + "9" * 30 + " $") + "FEE $0.10\nNET AMOUNT\n"),
        ("crlf", (row + "COMMISSION $1.10\nFEE $0.10\nNET AMOUNT\n").replace("\n", "\r\n")),
    ]:
        a("pre " + lab, head + body)
    a("pre account without following space", "TRADECONFIRMATION Account Number: X")
    a("pre account number on next line", "TRADE CONFIRMATION\nAccount\n Number:\n\nX-1\n" + row + "FEE $0.10\nNET AMOUNT\n")
    return out


VOCAB = {
    "rsu": ["STOCK PLAN RELEASE CONFIRMATION", "Employee ID:", "Account Number", "Account Stock Plan (X) -", "Company Name", "(Symbol)", "(FOO)", "(B.A)", "(x1)",
            "Release Date", "02-20-2024", "Award Number", "R123", "Shares Released", "Shares Sold", "Shares Issued", "Market Value Per Share",
            "Sale Price Per Share", "Market Value", "Total Sale Price", "Total Tax", "Fee", "Total Due Participant"],
    "espp": ["Plan ESP2", "Plan2014", "Employee ID:", "Account Number", "Company Name (Symbol)", "(FOO)", "Purchase Date", "02-20-2024", "Shares Purchased",
             "Purchase Value per Share", "Purchase Price per Share", "(85% of $1.0)", "Total Price", "Total Value", "Taxable Gain", "Market Value",
             "Total Taxes Collected at purchase", "Shares Sold to Cover Taxes", "Sale Price for Shares Sold to Cover Taxes", "Value Of Shares Sold", "Fees",
             "Amount in Excess of Tax Due"],
    "eso": ["STOCK PLAN EXERCISE CONFIRMATION", "Employee ID:", "Account Number", "Company Name (Symbol)", "(FOO)", "Exercise Type:", "Registration", "Same-Day",
            "Shares Sold", "Exercise Details", "Exercise Date", "Exercise Date:", "02/21/2024", "Grant 1", "Grant", "Grant Number", "Exercise Market Value",
            "Shares Exercised", "Sale Price", "Comission/Fee"],
    "tc_pre": ["TRADE CONFIRMATION", "Account Number:", "X-1", "02/20/23", "02/22/23", "61", "6", "1", "FOO", "SELL", "BUY", "COMMISSION", "FEE", "NET", "AMOUNT",
               "NET AMOUNT", "Stock Plan"],
    "tc_post": ["This transaction is confirmed", "Account Number:", "X-1", "Trade Date Settlement Date Quantity Price Settlement Amount", "02/21/2024", "02/23/2024",
                "Transaction Type:", "Transaction", "Type:", "Sold", "Bought", "Short", "Description", "Description:", "ISIN:", "FOO", "Commission", "Transaction Fee",
                "Fee"],
}
NUMS = ["1", "12", "100", "1.5", "100.0000", "1,000.00", "0.02", "$", "$1.10", "$1,000.00", "($1.10)", "($1,000.00)", "(1.5)", "(", ")", ".", ",", "1.2.3", "0001"]
SEPS = [" ", " ", " ", "\n", "\n", "  ", "\t", "\r\n", "", "\n\n"]


def soup(rng, kind):
    """a random token sequence over the vocabulary of one document kind"""
    voc = VOCAB[kind]
    toks = [voc[0]] if rng.random() < 0.9 else []
    for _ in range(rng.randint(3, 60)):
        toks.append(rng.choice(voc) if rng.random() < 0.55 else rng.choice(NUMS))
    rng.shuffle(toks)
    return "".join(t + rng.choice(SEPS) for t in toks)
