# C07 - results do not depend on how the input rows are laid out.
import collections
import random

import core
import corecheck
import e2e
import gen
from common import run_harness


def relayout(rng, rows):
    """returns (files, rows_in_new_order, description)"""
    desc = []
    new = list(rows)
    # admissible row permutation: keep the relative order of rows of one security settling the same day
    if rng.random() < 0.7:
        groups = collections.OrderedDict()
        for r in rows:
            groups.setdefault((r["sec"], r["sd"]), []).append(r)
        labels = [k for k, v in groups.items() for _ in v]
        rng.shuffle(labels)
        its = {k: iter(v) for k, v in groups.items()}
        new = [next(its[k]) for k in labels]
        desc.append("rows permuted")
    # column permutation, header case / padding, unknown columns
    cols = list(core.COLS)
    hdr = {c: c for c in cols}
    extra = []
    if rng.random() < 0.8:
        rng.shuffle(cols)
        desc.append("columns permuted")
    if rng.random() < 0.6:
        for c in cols:
            k = rng.random()
            if k < 0.3:
                hdr[c] = c.upper()
            elif k < 0.5:
                hdr[c] = "  " + c.title() + " "
        desc.append("header case/padding")
    if rng.random() < 0.5:
        extra = ["notes", "Broker Ref", ""][: rng.randint(1, 3)]
        desc.append("unknown columns")
    # file partition
    nfiles = rng.choice([1, 1, 2, 3, 3, 4])
    if rng.random() < 0.25:
        # cuts may coincide or sit at the ends: files holding a header and no rows
        cuts = sorted(rng.randint(0, len(new)) for _ in range(nfiles - 1))
    else:
        cuts = sorted(rng.sample(range(1, max(2, len(new))), min(nfiles - 1, max(0, len(new) - 1)))) if len(new) > 1 else []
    parts = []
    prev = 0
    for c in cuts + [len(new)]:
        parts.append(new[prev:c])
        prev = c
    if len(parts) > 1:
        desc.append("%d files" % len(parts))
    files = []
    for part in parts:
        allc = list(cols)
        pos = [rng.randint(0, len(allc)) for _ in extra]
        lines = []
        header_cells = [hdr[c] for c in allc]
        for e, p in zip(extra, pos):
            header_cells.insert(p, e)
        lines.append(",".join(core.csv_quote(h) for h in header_cells))
        for r in part:
            c = core.row_csv(r)
            cells = [c[k] for k in allc]
            for e, p in zip(extra, pos):
                cells.insert(p, rng.choice(["", "x", "12.5", "junk, with comma", "#17", "# a note", "//x", ";"]))
            lines.append(",".join(core.csv_quote(x) for x in cells))
        files.append("\n".join(lines) + "\n")
    return files, new, ", ".join(desc) or "identity"


def same_results(a, b):
    """compare two canonical implementation outputs, ignoring read indices"""
    if a["status"] != b["status"]:
        return "status %s vs %s" % (a["status"], b["status"])
    if a["status"] != "ok":
        return None
    if set(a["secs"]) != set(b["secs"]):
        return "security sets"
    for s in a["secs"]:
        x, y = a["secs"][s], b["secs"][s]
        if x["stop"][:2] != y["stop"][:2]:
            return "sec %s outcome %s vs %s" % (s, x["stop"], y["stop"])
        if len(x["deltas"]) != len(y["deltas"]):
            return "sec %s row count" % s
        for k, (d, e) in enumerate(zip(x["deltas"], y["deltas"])):
            for f in ("act", "afid", "sd", "pre", "post", "gain", "sfl", "sfla"):
                if d[f] != e[f]:
                    return "sec %s row %d %s: %s vs %s" % (s, k, f, d[f], e[f])
    return None


def order_problem(impl):
    """last sentence of the property, read off the implementation's own rows: per security the rows are in
    settlement-date order, ties broken by position in the concatenated input (generated adjustment rows and the
    per-affiliate copies of a split carry the position of the row they come from)"""
    if impl.get("status") != "ok":
        return None
    for s, so in impl["secs"].items():
        prev = None
        for j, d in enumerate(so["deltas"]):
            if d.get("ri") is None or d.get("sd") is None:
                continue
            key = (d["sd"], d["ri"])
            if prev is not None and key < prev:
                return "sec %s row %d (settles %s, input position %d) is processed after a row settling %s at input position %d" % (
                    s, j, d["sd"], d["ri"], prev[0], prev[1])
            prev = key
    return None


def run(res, ctx):
    tier, seed = ctx["tier"], ctx["seed"]
    rng = random.Random(seed * 86028121 + 7)
    st = collections.Counter()
    seen, samples, corr = set(), [], []
    n = 900 if tier == "quick" else 20000
    orig, relaid, descs = [], [], []
    for _ in range(n):
        c = gen.gen_case(rng, p_invalid=0.05, window_focus=(rng.random() < 0.4))
        if rng.random() < 0.3:
            # memo cells that a lenient reader could take for something else (comment markers, quotes)
            for r in c["rows"]:
                if rng.random() < 0.5:
                    r["memo"] = rng.choice(["#4711 second lot", "# note", "lot 7", "//", "; x", "'q'", "a, b"])
        files, new_rows, desc = relayout(rng, c["rows"])
        orig.append(c)
        relaid.append({"rows": new_rows, "inits": c["inits"], "files": files})
        descs.append(desc)
    # crafted: the file lists the rows in TRADE-date order, which is not their settlement order (a sale settling
    # T+2/T+3 listed before a same-day-settling purchase traded a day later, and the other way round); the
    # re-laid-out version lists them in settlement order
    for _ in range(30 if tier == "quick" else 300):
        d0 = core.BASE_DAY + rng.randint(10, 600)
        def _r(td, sd, act, sh, aps):
            return {"sec": "FOO", "td": d0 + td, "sd": d0 + sd, "act": act, "sh": core.D(sh), "aps": core.D(aps),
                    "com": None, "cur": None, "rate": None, "af": None}
        n0 = rng.choice([5, 10, 20])
        first = _r(0, 0, "Buy", n0, rng.choice([10, 20]))
        if rng.random() < 0.5:
            a = _r(40, 40 + rng.choice([2, 3]), "Sell", n0, rng.choice([5, 30]))      # sells everything, settles late
            b = _r(41, 41, "Buy", rng.choice([1, 5]), rng.choice([7, 25]))              # traded later, settles first
        else:
            a = _r(40, 43, "Buy", rng.choice([1, 5]), rng.choice([7, 25]))
            b = _r(41, 41, "Sell", rng.choice([1, n0]), rng.choice([5, 30]))
        tail = [_r(90, 92, "Sell", 1, 12)] if rng.random() < 0.5 else []
        rows = [first, a, b] + tail
        c = {"rows": rows, "inits": {}}
        new_rows = [first, b, a] + tail
        orig.append(c)
        relaid.append({"rows": new_rows, "inits": {}, "files": [core.to_csv(new_rows)]})
        descs.append("rows permuted")
    ra = corecheck.run_cases(ctx, orig)
    rb = corecheck.run_cases(ctx, relaid)
    for x, y, desc in zip(ra, rb, descs):
        st["evaluations"] += 1
        for part in desc.split(", "):
            st["layout:" + part] += 1
        for r in (x, y):
            d = core.diff_exact(r["dec"], r["impl"])
            if d is not None:
                corr.append((r, d))
        for r in (x, y):
            op = order_problem(r["impl"])
            if op is not None:
                st["order-problems"] += 1
                res.violation("failing-input", "rows are not processed in settlement-date order with ties broken by input position: " + op,
                              {"input": r["hc"]})
                break
        d = same_results(x["impl"], y["impl"])
        if d is not None:
            res.violation("failing-input", "re-laid-out input (%s) gives different results: %s" % (desc, d),
                          {"input_original": x["hc"], "input_relaid": y["hc"], "layout": desc})
        if desc != "identity" and x["impl"]["status"] == "ok" and x["hash"] not in seen:
            seen.add(x["hash"])
            st["distinct_nontrivial"] += 1
            if len(samples) < 2:
                samples.append({"original": x["hc"]["files"], "relaid": y["hc"]["files"], "layout": desc})
    # end-to-end pass: the cells of the SAME CSV texts -> extracted reader + bridge + ledger
    # (coq/Model/Bridge.v read_and_run), against the implementation and against the
    # Python-encoded model run; then the hand-written corpus aimed at the glue
    e2e_diffs = []
    for rs, cs in ((ra, orig), (rb, relaid)):
        dd, est, _ = e2e.run_pass([r["hc"] for r in rs], [r["raw"] for r in rs],
                                  [e2e.init_pairs(c) for c in cs], [r["dec"] for r in rs])
        st.update(est)
        e2e_diffs += [(rs[k]["hc"], d) for k, d in dd]
    glue = e2e.glue_corpus()
    ghc = [{"files": c["files"], "init": gen.init_specs(c), "render": False, "costs": False} for c in glue]
    graw = run_harness(ctx["exe"], "core", ghc)
    dd, est, gout = e2e.run_pass(ghc, graw, [e2e.init_pairs(c) for c in glue])
    st.update(est)
    st["e2e-glue-corpus"] = len(glue)
    for g, o in zip(glue, gout):
        st["e2e-glue-" + o["status"]] += 1
    e2e_diffs += [(dict(ghc[k], corpus=glue[k]["name"]), d) for k, d in dd]
    import props.c07_cli as c07_cli
    c07_cli.run(res, ctx, rng, st)
    if e2e_diffs and not res.violations:
        hc, d = e2e_diffs[0]
        res.violation("broken-correspondence", "reader + bridge model and implementation differ: " + d,
                      {"theorem_or_projection": "correspondence projection C07 end-to-end (cells of the CSV text -> parse_table -> tx_try_from -> abs_tx -> run_app)",
                       "input": hc, "difference": d, "differing_cases": len(e2e_diffs)}, found_input=False)
    if corr and not res.violations:
        r, d = corr[0]
        res.violation("broken-correspondence", "model (dec) and implementation differ: " + d,
                      {"theorem_or_projection": "correspondence projection C07 (per-security sorted rows and their figures, several files)",
                       "input": r["hc"], "difference": d}, found_input=False)
    res.coverage.update({
        "evaluations": 2 * st["evaluations"],
        "e2e_evaluations": st["e2e-evaluations"],
        "e2e_rule": "every CSV text of the run (original and re-laid-out, several files) and an 80-case corpus aimed at the glue are tokenised with Python's csv module and their cells given to the extracted Rocq reader + bridge + ledger (entry 30 of Exec/CodecE2E.v); compared with the implementation bit-exactly (status, rejection class by message, every delta: action, affiliate, settlement day, balances before/after, ACB, gain, superficial-loss data), row by row with the Tx values the implementation parsed (shares, price, commission, both exchange rates, split terms and whole-number flag, dates, affiliate id and registered flag, read index), and with the Python-encoded model run (identical output required); the e2e:* counters of input_distribution count the kinds of cells exercised",
        "distinct_nontrivial": st["distinct_nontrivial"],
        "cli_rule": "the real acb binary is run on the same rows given as one file and as 2-3 files named on the command line in non-lexical order (crafted same-day Buy/Sell pairs across the file boundary, and generated histories cut at random points); exit status and report text must be identical",
        "rule": "each seeded random input is run as generated and re-laid-out (random file partition, column permutation, header case/padding, unknown columns incl. a blank-headed one, row permutation keeping the relative order of same-security same-settlement-date rows); non-trivial = layout differs and the input parses; distinct by SHA-1 of the original CSV",
        "samples": samples,
        "input_distribution": dict(sorted(st.items())),
        "traces_validated_against_impl": 2 * st["evaluations"],
    })
    res.assumptions += ["CSV tokenisation/quoting (csv crate) is exercised, not modelled: the end-to-end pass tokenises with Python's csv module (same RFC-4180 dialect on the generated texts)",
                        "header recognition and field parsing are the byte-level model of Model/CsvFields.v / CsvTable.v: ASCII case folding (str::to_lowercase / to_uppercase on non-ASCII letters is outside; for header recognition this loses nothing, no column name contains a letter that a non-ASCII character folds to), str::trim on the Unicode White_Space bytes",
                        "a USD amount without an exchange rate needs the rate loader (RejOther 98 in the bridge model): outside"]


def replay(res, ctx, path):
    def pair(runs):
        if "input_original" in runs and "input_relaid" in runs:
            d = same_results(runs["input_original"]["impl"], runs["input_relaid"]["impl"])
            return ["re-laid-out input gives different results: " + d] if d else []
        return []
    return corecheck.replay(res, ctx, path, pair_judge=pair)
