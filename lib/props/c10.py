# C10 - a summary CSV reproduces the history it replaces.
#
# Oracle (the property itself, on the implementation only): the real round
# trip.  The harness produces the summary through the public entry point
# run_acb_app_summary_to_model, writes it with write_txs_to_csv, re-runs
# acb on [summary.csv, later.csv] (later.csv = the original rows settling
# after the date) and runs the full history; compared are, for every row
# after the date, capital gain, superficial loss, share balance and cost
# base, the final holdings per affiliate, and (annual mode) the yearly net
# gains per non-registered affiliate up to the date.
# Correspondence: Model/Summary.v (dec arithmetic) against the summary rows of
# the implementation (exact), and the model's re-run against the
# implementation's re-run (exact).
import collections
import datetime
import hashlib
import json
import os
import random
from fractions import Fraction

import common
import core
import gen
from common import run_harness, run_model, qenc, Reader
from core import D

TOL = Fraction(1, 10 ** 9)
OFFSETS = [1, 15, 29, 30, 31]
WINDOW = 30


def ymd(day):
    d = datetime.date.fromordinal(day)
    return [d.year, d.month, d.day]


def ordinal(s):
    return datetime.date.fromisoformat(s).toordinal()


# ---------------------------------------------------------------- generators
def mkrow(day, act, af, **kw):
    r = {"sec": kw.pop("sec", "FOO"), "td": day, "sd": day, "act": act, "af": af}
    r.update(kw)
    return r


def gen_boundary(rng, st):
    """a purchase, activity at a chosen offset before the last summarised row,
    the cut, and activity at chosen offsets after it"""
    afs = rng.sample(["", "Spouse", "(R)", "B"], rng.choice([1, 1, 2, 2, 3]))
    afs = [a if a != "" else None for a in afs]
    base = core.BASE_DAY + rng.randint(0, 700)
    price = rng.choice([D(1000, 2), D(2550, 2), D(333333, 4), D(7, 0)])
    lo = (core.dtext(price[1] * Fraction(4, 5)), price[1] * Fraction(4, 5))
    hi = (core.dtext(price[1] * Fraction(6, 5)), price[1] * Fraction(6, 5))
    rows = []
    for a in afs:
        rows.append(mkrow(base, "Buy", a, sh=D(rng.choice([10, 100, 25])), aps=price, com=rng.choice([None, D(999, 2)])))

    def activity(day, kinds):
        a = rng.choice(afs)
        k = rng.choice(kinds)
        st["boundary-" + k] += 1
        if k == "loss":
            return [mkrow(day, "Sell", a, sh=D(rng.choice([1, 2, 3])), aps=lo, com=None)]
        if k == "gain":
            return [mkrow(day, "Sell", a, sh=D(rng.choice([1, 2])), aps=hi, com=None)]
        if k == "buy":
            return [mkrow(day, "Buy", a, sh=D(rng.choice([1, 5])), aps=rng.choice([price, lo, hi]), com=None)]
        if k == "split":
            return [mkrow(day, "Split", rng.choice([a, None]), split=rng.choice([("2", "1"), ("1", "2"), ("3", "2")]))]
        if k == "roc":
            return [mkrow(day, "RoC", a, aps=D(10, 2))] if a != "(R)" else []
        return []

    c = base + rng.choice([40, 90, 400])
    off1 = rng.choice(OFFSETS)
    if rng.random() < 0.7:
        rows += activity(c - off1, ["loss", "gain", "buy", "split", "loss", "buy"])
    rows += activity(c, ["loss", "gain", "buy", "gain", "buy", "roc"])
    off2 = rng.choice(OFFSETS)
    rows += activity(c + off2, ["loss", "loss", "gain", "buy", "split", "loss"])
    if rng.random() < 0.6:
        rows += activity(c + off2 + rng.choice(OFFSETS), ["buy", "loss", "gain", "buy", "split"])
    if rng.random() < 0.3:
        rows += activity(c + off2 + 100, ["loss", "gain", "buy"])
    st["offset-before-%d" % off1] += 1
    st["offset-after-%d" % off2] += 1
    st["affiliates-%d" % len(afs)] += 1
    cut = rng.choice([c, c, c + 1, c + off2 - 1, c - 1, c + off2])
    return rows, [cut]


def gen_kept_specified(rng, st):
    """a superficial sale whose amount the USER specified (not forced, equal to what the tool computes,
    with its adjustment row), a purchase inside its window, the cut after it, and a later superficial loss
    whose window reaches back over the sale but not over the purchase: the specified sale must be kept
    together with its own window"""
    base = core.BASE_DAY + rng.randint(0, 600)
    n1, p1 = rng.choice([50, 100, 200]), rng.choice([8, 10, 12])
    n2, p2 = rng.choice([1, 2, 3, 5]), rng.choice([7, 9, 11])
    k, ps = rng.choice([5, 10, 20]), rng.choice([3, 5, 6])
    d_buy2 = base + rng.randint(45, 55)
    d_s1 = d_buy2 + rng.randint(20, 29)
    acbps = Fraction(n1 * p1 + n2 * p2, n1 + n2)
    loss = k * (Fraction(ps) - acbps)
    denied = loss * Fraction(min(k, n2), k)
    txt = "%.10f" % float(denied)
    spec = (txt, Fraction(txt))
    forced = rng.random() < 0.25
    rows = [mkrow(base, "Buy", None, sh=D(n1), aps=D(p1), com=None),
            mkrow(d_buy2, "Buy", None, sh=D(n2), aps=D(p2), com=None),
            mkrow(d_s1, "Sell", None, sh=D(k), aps=D(ps), com=None, sfl=(spec, forced)),
            mkrow(d_s1, "SfLA", None, sh=D(1), aps=(txt.lstrip("-"), -Fraction(txt)))]
    d_s2 = d_s1 + rng.randint(20, 28)
    rows += [mkrow(d_s2, "Sell", None, sh=D(k), aps=D(ps), com=None),
             mkrow(d_s2 + rng.randint(5, 20), "Buy", None, sh=D(rng.choice([2, 4])), aps=D(ps + 1), com=None)]
    st["kept-specified-%s" % ("forced" if forced else "unforced")] += 1
    return rows, [rng.randint(d_s1, d_s2 - 1)]


def gen_year_boundary(rng, st):
    """activity around 1 January, for the annual mode"""
    afs = rng.sample([None, "Spouse", "(R)"], rng.choice([1, 2, 2, 3]))
    y = rng.choice([2019, 2020, 2021])
    jan1 = datetime.date(y + 1, 1, 1).toordinal()
    price = D(2000, 2)
    lo, hi = D(1500, 2), D(2600, 2)
    rows = []
    for a in afs:
        rows.append(mkrow(datetime.date(y, 3, 1).toordinal(), "Buy", a, sh=D(50), aps=price, com=None))
    a = rng.choice(afs)
    rows.append(mkrow(datetime.date(y, 6, 1).toordinal(), "Sell", a, sh=D(2), aps=rng.choice([lo, hi]), com=None))
    rows.append(mkrow(jan1 + rng.choice([1, 4, 9]), "Sell", rng.choice(afs), sh=D(rng.choice([1, 10, 10])), aps=rng.choice([lo, lo, hi]), com=None))
    cutrow = rows[-1]["sd"]
    off = rng.choice(OFFSETS)
    k = rng.choice(["buy", "buy", "loss", "gain"])
    st["year-boundary-" + k] += 1
    a2 = rng.choice(afs)
    if k == "buy":
        rows.append(mkrow(jan1 + off, "Buy", a2, sh=D(3), aps=price, com=None))
    else:
        rows.append(mkrow(jan1 + off, "Sell", a2, sh=D(1), aps=lo if k == "loss" else hi, com=None))
    if rng.random() < 0.5:
        rows.append(mkrow(jan1 + off + rng.choice(OFFSETS), "Buy", rng.choice(afs), sh=D(2), aps=price, com=None))
    rows.sort(key=lambda r: r["sd"])
    for r in rows:
        # traded up to three days before settling (a December trade may settle in January)
        r["td"] = r["sd"] - rng.choice([0, 0, 2, 3])
    return rows, [cutrow, cutrow + 1]


def gen_multi(rng):
    """2-3 securities, each an accepted-looking history, interleaved by settlement date (stable: the order of a
    security's rows is kept)"""
    rows = []
    for sec in rng.sample(["FOO", "BAR", "AAA", "ZED"], rng.choice([2, 2, 3])):
        rows += gen.gen_history(rng, sec=sec, n_rows=rng.randint(2, 7), p_invalid=0.0, p_sfl_spec=0.0,
                                afs=rng.sample(["", "Spouse", "B"], rng.choice([1, 2])),
                                window_focus=rng.random() < 0.7, terminating_only=True)
    rows.sort(key=lambda r: r["sd"])
    return rows


def cuts_of(rows):
    days = sorted(set(r["sd"] for r in rows))
    out = []
    for d in days:
        out.append(d)
    out.append(days[0] - 1)
    return out


def corpus():
    """hand-written boundary cases (the lead of DESIGN.md section 12 first)"""
    b = core.BASE_DAY
    c = []
    lead = [mkrow(b, "Buy", None, sh=D(10), aps=D(1000, 2), com=None),
            mkrow(b + 100, "Sell", None, sh=D(2), aps=D(1200, 2), com=None),
            mkrow(b + 110, "Sell", None, sh=D(3), aps=D(500, 2), com=None)]
    c.append((lead, b + 105, False))
    c.append((lead, b + 105, True))
    c.append((lead, b + 100, False))
    c.append((lead, b + 99, False))
    c.append((lead, b + 200, False))
    c.append((lead, b - 1, False))
    far = [dict(r) for r in lead]
    far[2] = mkrow(b + 131, "Sell", None, sh=D(3), aps=D(500, 2), com=None)
    c.append((far, b + 105, False))
    far30 = [dict(r) for r in lead]
    far30[2] = mkrow(b + 130, "Sell", None, sh=D(3), aps=D(500, 2), com=None)
    c.append((far30, b + 105, False))
    # a later superficial loss whose window reaches the summary period (kept rows)
    sfl = [mkrow(b, "Buy", None, sh=D(10), aps=D(1000, 2), com=None),
           mkrow(b + 100, "Buy", None, sh=D(5), aps=D(900, 2), com=None),
           mkrow(b + 110, "Sell", None, sh=D(3), aps=D(500, 2), com=None),
           mkrow(b + 120, "Buy", "Spouse", sh=D(4), aps=D(600, 2), com=None),
           mkrow(b + 300, "Sell", None, sh=D(1), aps=D(2000, 2), com=None)]
    for cut in (b + 99, b + 100, b + 105, b + 110, b + 115, b + 120, b + 200):
        c.append((sfl, cut, False))
        c.append((sfl, cut, True))
    # K_idle_split_expansion (Proofs/C10Classes.v wit4): the spouse sells everything before the date, then a
    # split for all affiliates: the full history expands it over the spouse too (0 shares), the re-run does not
    idle = [mkrow(b, "Buy", None, sh=D(10), aps=D(1000, 2), com=None),
            mkrow(b + 1, "Buy", "Spouse", sh=D(5), aps=D(1000, 2), com=None),
            mkrow(b + 2, "Sell", "Spouse", sh=D(5), aps=D(1200, 2), com=None),
            mkrow(b + 140, "Split", None, split=("2", "1"))]
    c.append((idle, b + 40, False))
    c.append((idle, b + 40, True))
    # Proofs/C10Classes.v rt_P/rt_K/rt_T: re-emitted superficial sale + adjustment row, a later superficial sale
    # whose window reaches back over the re-emitted rows, a later plain loss
    rt = [mkrow(b, "Buy", None, sh=D(10), aps=D(1000, 2), com=None),
          mkrow(b + 100, "Buy", None, sh=D(5), aps=D(900, 2), com=None),
          mkrow(b + 110, "Sell", None, sh=D(3), aps=D(500, 2), com=None),
          mkrow(b + 125, "Sell", None, sh=D(2), aps=D(400, 2), com=None),
          mkrow(b + 135, "Buy", None, sh=D(1), aps=D(500, 2), com=None),
          mkrow(b + 300, "Sell", None, sh=D(1), aps=D(300, 2), com=None)]
    for cut in (b + 110, b + 115, b + 124, b + 125, b + 135):
        c.append((rt, cut, False))
    # annual: a loss year cut in January with an acquisition soon after
    y = datetime.date(2021, 1, 1).toordinal()
    ann = [mkrow(y - 300, "Buy", None, sh=D(50), aps=D(2000, 2), com=None),
           mkrow(y + 5, "Sell", None, sh=D(1), aps=D(1500, 2), com=None),
           mkrow(y + 20, "Buy", None, sh=D(3), aps=D(2000, 2), com=None)]
    c.append((ann, y + 10, True))
    c.append((ann, y + 10, False))
    ann2 = [dict(r) for r in ann]
    ann2[2] = mkrow(y + 40, "Buy", None, sh=D(3), aps=D(2000, 2), com=None)
    c.append((ann2, y + 10, True))
    # a partly superficial loss before the date: the year's net loss is re-realised by a generated 1-January sale
    ann3 = [mkrow(y - 300, "Buy", None, sh=D(50), aps=D(2000, 2), com=None),
            mkrow(y + 5, "Sell", None, sh=D(10), aps=D(1500, 2), com=None),
            mkrow(y + 20, "Buy", None, sh=D(2), aps=D(2000, 2), com=None)]
    c.append((ann3, y + 10, True))
    c.append((ann3, y + 10, False))
    # a re-emitted split of the default affiliate in a summary naming no other affiliate is read back from
    # the summary CSV as a split of all affiliates (C11): one more (empty) expansion row in the re-run
    gs = [mkrow(b + 246, "Buy", None, sh=D(3691, 3), aps=D(19502836, 5), com=D(1, 2)),
          mkrow(b + 280, "Split", "Default", split=("5", "4")),
          dict(mkrow(b + 282, "Sell", None, sh=D(4), aps=D(75830420, 6), com=D(0)), td=b + 280),
          mkrow(b + 312, "Buy", "(R)", sh=D(785707, 4), aps=D(176), com=None),
          mkrow(b + 343, "Sell", None, sh=D(61375, 5), aps=D(11), com=D(0))]
    c.append((gs, b + 280, False))
    c.append((gs, b + 280, True))
    # gains traded in December and settled in January belong to the settlement year (annual mode), also when
    # the year's other gains settle in the trade year
    o = datetime.date.toordinal
    yb = [mkrow(o(datetime.date(2019, 3, 5)), "Buy", None, sh=D(100), aps=D(10), com=None),
          mkrow(o(datetime.date(2019, 10, 3)), "Sell", None, sh=D(10), aps=D(15), com=None),
          dict(mkrow(o(datetime.date(2020, 1, 2)), "Sell", None, sh=D(10), aps=D(18), com=None), td=o(datetime.date(2019, 12, 30))),
          mkrow(o(datetime.date(2020, 9, 3)), "Sell", None, sh=D(10), aps=D(20), com=None)]
    for cut in (o(datetime.date(2020, 6, 30)), o(datetime.date(2020, 1, 2)), o(datetime.date(2020, 1, 1))):
        c.append((yb, cut, True))
        c.append((yb, cut, False))
    # a re-emitted sale whose superficial loss the user forced to zero: the override is kept, forced, on re-emission
    fz = [mkrow(o(datetime.date(2020, 1, 8)), "Buy", None, sh=D(100), aps=D(10), com=None),
          mkrow(o(datetime.date(2020, 5, 6)), "Buy", None, sh=D(10), aps=D(8), com=None),
          mkrow(o(datetime.date(2020, 5, 13)), "Sell", None, sh=D(20), aps=D(7), com=None, sfl=(D(0), True)),
          mkrow(o(datetime.date(2020, 5, 27)), "Sell", None, sh=D(20), aps=D(6), com=None),
          mkrow(o(datetime.date(2020, 9, 3)), "Sell", None, sh=D(30), aps=D(12), com=None)]
    for cut in (o(datetime.date(2020, 5, 20)), o(datetime.date(2020, 5, 13)), o(datetime.date(2020, 5, 26))):
        c.append((fz, cut, False))
        c.append((fz, cut, True))
    fz2 = [dict(r) for r in fz]
    fz2[2] = dict(fz2[2], sfl=(D(-2500, 2), True))      # forced non-zero value
    c.append((fz2, o(datetime.date(2020, 5, 20)), False))
    # a split of all affiliates inside the window of a later superficial loss is re-emitted once per affiliate;
    # one of them only starts trading after the date, so the copies are the only rows naming an affiliate
    ls = [mkrow(o(datetime.date(2021, 1, 5)), "Buy", None, sh=D(100), aps=D(10), com=None),
          mkrow(o(datetime.date(2021, 11, 20)), "Buy", None, sh=D(10), aps=D(12), com=None),
          mkrow(o(datetime.date(2021, 12, 1)), "Split", None, split=("2", "1")),
          mkrow(o(datetime.date(2021, 12, 15)), "Sell", None, sh=D(40), aps=D(4), com=None),
          mkrow(o(datetime.date(2021, 12, 20)), "Buy", None, sh=D(20), aps=D(4), com=None),
          mkrow(o(datetime.date(2022, 2, 1)), "Buy", "Spouse", sh=D(30), aps=D(5), com=None),
          mkrow(o(datetime.date(2022, 3, 1)), "Sell", "Spouse", sh=D(10), aps=D(7), com=None),
          mkrow(o(datetime.date(2022, 3, 5)), "Sell", None, sh=D(50), aps=D(7), com=None)]
    c.append((ls, o(datetime.date(2021, 12, 10)), False))
    c.append((ls, o(datetime.date(2021, 12, 10)), True))
    # a kept purchase in USD whose commission was charged in CAD (the only rows naming a commission currency
    # name the default one): the commission must still be CAD when the summary is read back
    cc = [mkrow(o(datetime.date(2022, 1, 10)), "Buy", None, sh=D(100), aps=D(10), com=D(999, 2), cur="USD", rate=D(125, 2), ccur="CAD"),
          mkrow(o(datetime.date(2022, 3, 1)), "Buy", None, sh=D(50), aps=D(8), com=D(999, 2), cur="USD", rate=D(13, 1), ccur="CAD"),
          mkrow(o(datetime.date(2022, 3, 15)), "Sell", None, sh=D(20), aps=D(5), com=D(0), cur="USD", rate=D(13, 1)),
          mkrow(o(datetime.date(2022, 6, 15)), "Sell", None, sh=D(30), aps=D(12), com=D(0), cur="USD", rate=D(13, 1))]
    c.append((cc, o(datetime.date(2022, 3, 10)), False))
    c.append((cc, o(datetime.date(2022, 3, 10)), True))
    # a kept purchase in USD with an explicit rate of exactly 1 (no written row has another rate): the rate cell
    # must survive, a blank rate on a USD row would have to be looked up
    r1 = [mkrow(o(datetime.date(2022, 1, 10)), "Buy", None, sh=D(100), aps=D(10), com=None, cur="USD", rate=D(1)),
          mkrow(o(datetime.date(2022, 3, 1)), "Buy", None, sh=D(50), aps=D(8), com=None, cur="USD", rate=D(1)),
          mkrow(o(datetime.date(2022, 3, 15)), "Sell", None, sh=D(20), aps=D(5), com=None, cur="USD", rate=D(1)),
          mkrow(o(datetime.date(2022, 6, 15)), "Sell", None, sh=D(30), aps=D(12), com=None, cur="USD", rate=D(1))]
    c.append((r1, o(datetime.date(2022, 3, 10)), False))
    c.append((r1, o(datetime.date(2022, 3, 10)), True))
    # regression cases of the fixed zero-cell panic (Proofs/C10Examples.v wit5, wit6; known-findings.d/C10.json
    # "fixed"): a sale with the forced cell 0!; the full history computes a superficial loss from the spouse's
    # purchase (ignored: forced), the re-run only sees a tiny later purchase and computes a loss that rounds to
    # zero effective cents - it panicked there (util/math.rs:93) until the fix of C05 eff-cent-zero
    for sell_px, dust in ((D(9), D(1, 12)), (D(95, 1), D(1, 10))):
        zc = [mkrow(b, "Buy", None, sh=D(10), aps=D(10), com=None),
              mkrow(b + 100, "Buy", "Spouse", sh=D(5), aps=D(10), com=None),
              mkrow(b + 101, "Sell", "Spouse", sh=D(5), aps=D(12), com=None),
              mkrow(b + 110, "Sell", None, sh=D(1), aps=sell_px, com=None, sfl=(D(0), True)),
              mkrow(b + 115, "Buy", None, sh=dust, aps=D(10), com=None)]
        c.append((zc, b + 105, False))
        c.append((zc, b + 109, False))
    return c


# ---------------------------------------------------------------- running
def model_ints(rows, cut, annual):
    ints, st_, at = core.to_ints({"rows": rows, "inits": {}}, 1)
    # core mode 0 layout: [0, arith, n_inits(0), n_rows, rows...]
    assert ints[0] == 0 and ints[2] == 0
    return [20, 1, int(annual), cut] + ints[3:], st_, at


def parse_tx_ints(rd):
    t = {"sec": rd.z(), "td": rd.z(), "sd": rd.z(), "af": rd.z(), "reg": bool(rd.z()), "dflt": bool(rd.z()),
         "glob": bool(rd.z()), "ri": rd.z()}
    tag = rd.z()
    t["act"] = core.ACTS[tag]
    if tag in (0, 1):
        t["q"] = [rd.q() for _ in range(5)]
        if tag == 1:
            t["sfl"] = (rd.q(), bool(rd.z())) if rd.z() else None
    elif tag == 2:
        t["q"] = [rd.q(), rd.q()]
    elif tag == 3:
        t["q"] = [rd.q(), rd.q()]
    else:
        t["q"] = [rd.q(), rd.q(), bool(rd.z())]
    return t


def parse_model(ints):
    rd = Reader(ints)
    if rd.z() != 1:
        return {"status": "model-error"}
    tag = rd.z()
    if tag == 1:
        return {"status": "err"}
    if tag in (2, 4):
        return {"status": "rej", "code": rd.z()}
    if tag in (3, 5):
        return {"status": "panic", "panic": (rd.z(), rd.z())}
    flags = {"K_summary_buy_in_window": bool(rd.z()), "K_annual_sell_in_window": bool(rd.z()),
             "K_zero_balance_acb": bool(rd.z())}
    k4 = bool(rd.z())
    rt_ok = bool(rd.z())
    rt_obs_ok = bool(rd.z())
    app_obs_ok = bool(rd.z())      # Model/SummaryApp.v app_roundtrip (observational), all securities
    n = rd.z()
    sums = [parse_tx_ints(rd) for _ in range(n)]
    k = rd.z()
    rest = ints[rd.i:]
    return {"status": "ok", "summary": sums, "classes": sorted(c for c, v in flags.items() if v), "roundtrip_ok": rt_ok,
            "K_idle_split_expansion": k4, "roundtrip_obs_ok": rt_obs_ok, "app_roundtrip_obs_ok": app_obs_ok, "rerun": core.parse_model([1] + rest[:k]),
            "full": core.parse_model([1] + rest[k:])}


def impl_tx(o, st_, at):
    t = {"sec": st_.get(o["sec"], o["sec"]), "td": ordinal(o["td"]), "sd": ordinal(o["sd"]), "af": at.get(o["af"], o["af"]),
         "reg": bool(o["reg"]), "ri": o["ri"], "act": o["act"], "memo": o["memo"]}
    q = o["q"]
    if o["act"] == "Split":
        t["q"] = [Fraction(q[0]), Fraction(q[1]), bool(q[2])]
    else:
        t["q"] = [Fraction(x) for x in q]
    if o["act"] == "Sell":
        t["sfl"] = None if o.get("sfl") is None else (Fraction(o["sfl"][0]), bool(o["sfl"][1]))
    return t


def tx_diff(m, i):
    for k in ("sec", "td", "sd", "af", "act", "q"):
        if m[k] != i[k]:
            return "%s: model %s impl %s" % (k, m[k], i[k])
    if m["act"] == "Sell" and m.get("sfl") != i.get("sfl"):
        return "specified superficial loss: model %s impl %s" % (m.get("sfl"), i.get("sfl"))
    return None


# ---------------------------------------------------------------- the property on the implementation
def later_rows(run, cut):
    """deltas settling after the date, per security, in order"""
    out = {}
    for s, so in run["secs"].items():
        # a split for all affiliates is expanded over the affiliates that have rows: the expansion
        # row of an affiliate holding nothing (before and after) is not a reported figure
        out[s] = [d for d in so["deltas"] if d["sd"] > cut
                  and not (d["act"] == "Split" and d["pre"][0] == 0 and d["post"][0] == 0)]
    return out


def final_holdings(run):
    h = {}
    for s, so in run["secs"].items():
        for d in so["deltas"]:
            h[(s, d["af"])] = (d["post"][0], d["post"][2])
    return {k: v for k, v in h.items() if v[0] != 0 or (v[1] or 0) != 0}


def yearly(run, cut):
    g = collections.defaultdict(Fraction)
    for s, so in run["secs"].items():
        for d in so["deltas"]:
            if d["sd"] <= cut and d["gain"] is not None and not d["reg"]:
                g[(s, d["af"], datetime.date.fromordinal(d["sd"]).year)] += d["gain"]
    return {k: v for k, v in g.items() if v != 0}


def sfl_amount(d):
    return d["sfl"][0] if d["sfl"] else Fraction(0)


def compare_roundtrip(full, rerun, cut, annual):
    """None or (what, detail)"""
    if rerun["status"] != "ok":
        return ("the summary followed by the later rows is rejected", str(rerun.get("msg") or rerun.get("panic")))
    for s, so in rerun["secs"].items():
        if so["stop"][0] != 0:
            return ("the summary followed by the later rows is rejected", "%s: %s" % (s, so.get("msg")))
    a, b = later_rows(full, cut), later_rows(rerun, cut)
    for s in sorted(set(a) | set(b), key=str):
        x, y = a.get(s, []), b.get(s, [])
        if len(x) != len(y) or any(p["act"] != q["act"] or p["af"] != q["af"] or p["sd"] != q["sd"] for p, q in zip(x, y)):
            return ("the rows after the date differ in number or kind",
                    "%s: full %s, summary+later %s" % (s, [(p["act"], p["af"]) for p in x], [(p["act"], p["af"]) for p in y]))
        for k, (p, q) in enumerate(zip(x, y)):
            for name, u, v in (("capital gain", p["gain"], q["gain"]), ("superficial loss", sfl_amount(p), sfl_amount(q)),
                               ("share balance", p["post"][0], q["post"][0]), ("cost base", p["post"][2], q["post"][2])):
                if not core.close(u, v, TOL):
                    return ("later row %d (%s on %s): %s is %s with the full history, %s after the summary"
                            % (k, p["act"], datetime.date.fromordinal(p["sd"]), name, fmt(u), fmt(v)), None)
    ha, hb = final_holdings(full), final_holdings(rerun)
    for k in sorted(set(ha) | set(hb), key=str):
        u, v = ha.get(k, (Fraction(0), None)), hb.get(k, (Fraction(0), None))
        if not core.close(u[0], v[0], TOL) or not core.close(u[1] or Fraction(0), v[1] or Fraction(0), TOL):
            return ("final holdings of affiliate %s differ: %s shares / ACB %s with the full history, %s / %s after the summary"
                    % (k[1], fmt(u[0]), fmt(u[1]), fmt(v[0]), fmt(v[1])), None)
    if annual:
        ya, yb = yearly(full, cut), yearly(rerun, cut)
        for k in sorted(set(ya) | set(yb), key=str):
            if not core.close(ya.get(k, Fraction(0)), yb.get(k, Fraction(0)), TOL):
                return ("net capital gain of affiliate %s in %d up to the date: %s with the full history, %s from the summary rows"
                        % (k[1], k[2], fmt(ya.get(k, 0)), fmt(yb.get(k, 0))), None)
    return None


def fmt(x):
    if x is None:
        return "-"
    return str(float(x)) if Fraction(x).denominator not in (1,) and len(str(Fraction(x))) > 24 else str(Fraction(x))


def known_classes(summary, full, rows, cut, annual):
    """executable classes in which the round trip is known to fail:
    K_summary_buy_in_window: a sale at a loss that is not superficial in the full history, kept or later,
      settles within 30 days after a generated summary purchase;
    K_annual_sell_in_window: an acquisition, kept or later, settles within 30 days after a generated
      1-January sale that realises a loss;
    K_zero_balance_acb: see below."""
    out = []
    gen_buys = [t for t in summary if t["act"] == "Buy" and t["memo"].startswith("Summary")]
    gen_loss_sells = [t for t in summary if t["act"] == "Sell" and t["memo"].endswith("gain summary (sell)") and t["q"][2] > 0]
    kept = [t for t in summary if not (t["memo"].startswith("Summary") or t["memo"].endswith("gain summary (sell)"))]
    # loss sales that are not superficial in the full history, by read index
    plain_loss = {}
    for s, so in full["secs"].items():
        for d in so["deltas"]:
            if d["act"] == "Sell" and d["gain"] is not None and d["gain"] < 0 and not d["sfl"]:
                plain_loss[d["ri"]] = d
    later = [(r, i) for i, r in enumerate(rows) if r["sd"] > cut]
    cand_sells = [(t["sd"], t["ri"]) for t in kept if t["act"] == "Sell"] + [(r["sd"], i) for r, i in later if r["act"] == "Sell"]
    for b in gen_buys:
        if any(ri in plain_loss and b["sd"] <= sd <= b["sd"] + WINDOW for sd, ri in cand_sells):
            out.append("K_summary_buy_in_window")
            break
    # K_zero_balance_acb: an affiliate's last summarised row leaves it no shares but a cost base (a
    # superficial-loss adjustment for shares it buys later): no summary row is generated for it
    for s, so in full["secs"].items():
        nkept = sum(1 for t in kept if t["sec"] == s)
        upto = [d for d in so["deltas"] if d["sd"] <= cut]
        summarised = upto[:len(upto) - nkept]
        last = {}
        for d in summarised:
            last[d["af"]] = d
        if any(d["post"][0] == 0 and d["post"][2] not in (None, 0) for d in last.values()):
            out.append("K_zero_balance_acb")
            break
    cand_buys = [t["sd"] for t in kept if t["act"] == "Buy"] + [r["sd"] for r, i in later if r["act"] == "Buy"]
    for s_ in gen_loss_sells:
        if any(s_["sd"] <= sd <= s_["sd"] + WINDOW for sd in cand_buys):
            out.append("K_annual_sell_in_window")
            break
    return out


def nontrivial(case, io_):
    """the summary replaces at least one row and at least one row settles after the date"""
    rows, cut, annual = case
    return io_.get("status") == "ok" and len(io_.get("summary", [])) > 0 and any(r["sd"] > cut for r in rows)


def rows_of_csv(text):
    """a CSV written by the tool (summary mode), as generator rows"""
    import csv as _csv
    import io as _io
    out = []
    rd = _csv.reader(_io.StringIO(text))
    hdr = [h.strip().lower() for h in next(rd)]
    def num(x):
        return (x, Fraction(x))
    for rec in rd:
        c = dict(zip(hdr, rec))
        act = {"buy": "Buy", "sell": "Sell", "roc": "RoC", "sfla": "SfLA", "split": "Split"}[c["action"].strip().lower()]
        r = {"sec": c["security"], "td": ordinal(c["trade date"]), "sd": ordinal(c["settlement date"]), "act": act,
             "af": (c.get("affiliate") or "").strip() or None, "memo": c.get("memo", "")}
        if c.get("shares"):
            r["sh"] = num(c["shares"])
        if c.get("amount/share"):
            r["aps"] = num(c["amount/share"])
        r["com"] = num(c["commission"]) if c.get("commission") else None
        r["cur"] = c.get("currency") or None
        r["rate"] = num(c["exchange rate"]) if c.get("exchange rate") else None
        if c.get("commission currency"):
            r["ccur"] = c["commission currency"]
        if c.get("commission exchange rate"):
            r["crate"] = num(c["commission exchange rate"])
        if c.get("superficial loss"):
            v = c["superficial loss"]
            r["sfl"] = (num(v.rstrip("!")), v.endswith("!"))
        if c.get("split ratio"):
            a, b = c["split ratio"].lower().split("-for-")
            r["split"] = (a, b)
        out.append(r)
    return out


def check_cases(res, ctx, cases, label):
    st = ctx["stats"]
    hc = []
    enc = []
    second = []
    for rows, cut, annual in cases:
        later = [r for r in rows if r["sd"] > cut]
        hc.append({"history": core.to_csv(rows), "later": core.to_csv(later), "date": ymd(cut), "annual": annual})
        enc.append(model_ints(rows, cut, annual))
    impl = run_harness(ctx["exe"], "summary", hc)
    mod = run_model([e[0] for e in enc], group="csv")
    for case, h, (ints, st_, at), io_, mo in zip(cases, hc, enc, impl, mod):
        rows, cut, annual = case
        st["evaluations"] += 1
        st["cases-" + label] += 1
        st["mode-annual" if annual else "mode-simple"] += 1
        if io_.get("status") == "panic":
            res.violation("failing-input", "summary mode panics: %s" % io_["panic"], {"input": h, "actual_impl": io_["panic"],
                          "expected_spec": "a summary or an error message"})
            continue
        full = core.parse_impl(io_["full"], st_, at)
        m = parse_model(mo)
        if io_["status"] != "ok" or full["status"] != "ok" or any(s["stop"][0] != 0 for s in full["secs"].values()):
            st["history-with-errors(skipped)"] += 1
            if (m["status"] == "ok") != (io_["status"] == "ok"):
                ctx["diffs"].append(("summary outcome: model %s impl %s (%s)" % (m["status"], io_["status"], io_.get("err")), h))
            continue
        isum = [impl_tx(t, st_, at) for t in io_["summary"]]
        rerun = core.parse_impl(io_["rerun"], st_, at)
        st["summary-rows-%d" % min(8, len(isum))] += 1
        kept = sum(1 for t in isum if not (t["memo"].startswith("Summary") or t["memo"].endswith("gain summary (sell)")))
        if kept:
            st["cases-with-kept-rows"] += 1
        key = hashlib.sha1((h["history"] + str(h["date"]) + str(annual)).encode()).hexdigest()
        if nontrivial(case, io_) and key not in ctx["seen"]:
            ctx["seen"].add(key)
            st["distinct_nontrivial"] += 1
            if len(ctx["samples"]) < 3:
                ctx["samples"].append({"history": h["history"], "date": h["date"], "annual": annual, "summary_csv": io_["summary_csv"]})
        # ---- correspondence
        d = None
        if m["status"] != "ok":
            d = "summary outcome: model %s impl ok" % (m,)
        elif len(m["summary"]) != len(isum):
            d = "summary row count: model %d impl %d" % (len(m["summary"]), len(isum))
        else:
            for k, (a, b) in enumerate(zip(m["summary"], isum)):
                w = tx_diff(a, b)
                if w:
                    d = "summary row %d %s" % (k, w)
                    break
            if d is None:
                d = core.diff_exact(m["rerun"], rerun)
                if d:
                    d = "re-run of summary + later rows: " + d
        if d:
            st["correspondence_diffs"] += 1
            ctx["diffs"].append((d, h))
        # ---- oracle
        bad = compare_roundtrip(full, rerun, cut, annual)
        if label != "second-order" and not annual and kept and not bad and len(second) < ctx.get("second_quota", 0):
            # the summary followed by the later rows is itself a history (its re-emitted sales carry explicit,
            # unforced superficial losses and their adjustment rows): summarise THAT at a later date
            try:
                rows2 = rows_of_csv(io_["summary_csv"]) + [dict(r) for r in rows if r["sd"] > cut]
                for c2 in [c_ for c_ in cuts_of(rows2) if c_ > cut][:3]:
                    second.append((rows2, c2, False))
            except Exception:
                st["second-order-unreadable"] += 1
        cls = known_classes(isum, full, rows, cut, annual)
        for c in cls:
            st["in-class-" + c] += 1
        if len(full["secs"]) > 1:
            st["cases-with-several-securities"] += 1
            st["securities-%d" % len(full["secs"])] += 1
        if m["status"] == "ok" and not d and len(full["secs"]) == 1 and sorted(cls) != m["classes"]:
            # the class predicates of Properties/C10.v (evaluated by the model) and of this check must agree
            ctx["diffs"].append(("class predicates: Rocq %s, check %s" % (m["classes"], sorted(cls)), h))
        # K_idle_split_expansion (Model/SummaryObs.v): a row after the date is the expansion of a split for all
        # affiliates over an affiliate holding nothing; not a class of failures of the property (later_rows leaves
        # such rows out) but the class in which the model's strict row-by-row comparison fails: predicate Rocq == check,
        # and the model's strict comparison may differ from its observational one only inside it
        idle = any(x["act"] == "Split" and x["sd"] > cut and x["pre"][0] == 0 and x["post"][0] == 0
                   for so in full["secs"].values() for x in so["deltas"])
        if idle:
            st["in-class-K_idle_split_expansion"] += 1
        if m["status"] == "ok" and not d and len(full["secs"]) == 1:
            if idle != m["K_idle_split_expansion"]:
                ctx["diffs"].append(("class predicate K_idle_split_expansion: Rocq %s, check %s" % (m["K_idle_split_expansion"], idle), h))
            elif not idle and m["roundtrip_ok"] != m["roundtrip_obs_ok"]:
                ctx["diffs"].append(("model: strict and observational round trip differ outside K_idle_split_expansion", h))
            if m["roundtrip_obs_ok"] and not m["roundtrip_ok"]:
                st["model-strict-comparison-fails-only-on-idle-expansion-rows"] += 1
        if m["status"] == "ok" and not d:
            # Model/SummaryApp.v app_roundtrip (all securities): with one security it IS roundtrip_obs_ok; when it holds the
            # oracle finds the re-run accepted and no later row differing in number, kind or figures
            st["app-roundtrip-flag-%s" % m["app_roundtrip_obs_ok"]] += 1
            if len(full["secs"]) == 1 and m["app_roundtrip_obs_ok"] != m["roundtrip_obs_ok"]:
                ctx["diffs"].append(("model: app-level and one-security round trip differ on a one-security history", h))
            if m["app_roundtrip_obs_ok"] and bad and (bad[0].startswith("the summary followed") or bad[0].startswith("the rows after")
                                                      or bad[0].startswith("later row")):
                ctx["diffs"].append(("app-level round trip: holds in the model, oracle on the implementation: %s" % bad[0], h))
        if bad:
            st["roundtrip-differs"] += 1
            if cls:
                for c in cls:
                    st["roundtrip-differs(class %s)" % c] += 1
                    ctx["class_hits"].setdefault(c, (h, bad))
            else:
                res.violation("failing-input", bad[0] + (": " + bad[1] if bad[1] else ""),
                              {"input": h, "actual_impl": {"summary_csv": io_["summary_csv"]},
                               "expected_spec": "rows after the date: same gain / superficial loss / share balance / ACB as the full history; same final holdings"})
        else:
            st["roundtrip-agrees"] += 1
            st["later-rows-compared"] += sum(len(v) for v in later_rows(full, cut).values())
    if label != "second-order":
        second_order(res, ctx, second)


def second_order(res, ctx, second):
    if second:
        ctx["stats"]["second-order-cases"] += len(second)
        check_cases(res, ctx, second, "second-order")


def load_known():
    p = os.path.join(common.VERIF, "known-findings.d", "C10.json")
    known = json.load(open(p)).get("findings", []) if os.path.exists(p) else []
    return {k["id"]: k for k in known if k.get("property") == "C10"}


def run_witness(ctx, w):
    out = run_harness(ctx["exe"], "summary", [w], nproc=1)[0]
    rows_dummy = None
    return out


def witness_fails(ctx, w):
    """replay a recorded input {history, later, date, annual}: does the round trip still differ?"""
    io_ = run_harness(ctx["exe"], "summary", [w], nproc=1)[0]
    if io_.get("status") != "ok":
        return None, io_
    full = core.parse_impl(io_["full"], {}, {})
    rerun = core.parse_impl(io_["rerun"], {}, {})
    cut = datetime.date(*w["date"]).toordinal()
    return compare_roundtrip(full, rerun, cut, w["annual"]), io_


def replay(res, ctx, path):
    rep = json.load(open(path))
    inp = rep.get("input")
    if not inp or "history" not in inp:
        print("replay: this replay file names no input (%s)" % rep.get("what", "")[:200])
        return 1
    bad, io_ = witness_fails(ctx, inp)
    if io_.get("status") == "panic":
        print("replay: FAILS: summary mode panics: %s" % io_["panic"])
        return 1
    if bad:
        print("replay: FAILS: " + bad[0] + (": " + bad[1] if bad[1] else ""))
        return 1
    print("replay: the property holds on this input")
    return 0


def run(res, ctx):
    tier, seed = ctx["tier"], ctx["seed"]
    rng = random.Random(seed * 15485863 + 10)
    ctx.update(stats=collections.Counter(), seen=set(), samples=[], diffs=[], class_hits={})
    st = ctx["stats"]
    listed = load_known()
    for k in listed.values():
        bad, _ = witness_fails(ctx, k["witness"])
        if bad:
            res.known(k["what"])
            st["known-finding-witness-still-fails"] += 1
    check_cases(res, ctx, corpus(), "corpus")
    n_b = 1500 if tier == "quick" else 12000
    cases = []
    for _ in range(n_b):
        rows, cuts = gen_boundary(rng, st)
        for c in cuts:
            cases.append((rows, c, rng.random() < 0.4))
    check_cases(res, ctx, cases, "boundary")
    cases = []
    for _ in range(500 if tier == "quick" else 4000):
        rows, cuts = gen_year_boundary(rng, st)
        for c in cuts:
            cases.append((rows, c, rng.random() < 0.8))
    check_cases(res, ctx, cases, "year-boundary")
    cases = []
    for _ in range(60 if tier == "quick" else 600):
        rows, cuts = gen_kept_specified(rng, st)
        for c in cuts:
            cases.append((rows, c, False))
    check_cases(res, ctx, cases, "kept-specified")
    # random histories, the date swept over every row boundary, both modes
    cases = []
    for _ in range(150 if tier == "quick" else 1500):
        rows = gen.gen_history(rng, n_rows=rng.randint(3, 12), p_invalid=0.0, p_sfl_spec=0.0,
                               afs=rng.sample(["", "Spouse", "(R)", "B"], rng.choice([1, 2, 3])),
                               window_focus=rng.random() < 0.7, terminating_only=True)
        for c in cuts_of(rows):
            for annual in (False, True):
                cases.append((rows, c, annual))
    # the same with user-supplied superficial losses (forced values incl. 0!: kept verbatim when a sale is re-emitted)
    for _ in range(100 if tier == "quick" else 1000):
        rows = gen.gen_history(rng, n_rows=rng.randint(3, 10), p_invalid=0.0, p_sfl_spec=0.0,
                               afs=rng.sample(["", "Spouse", "B"], rng.choice([1, 2])),
                               window_focus=True, terminating_only=True)
        sells = [r for r in rows if r["act"] == "Sell"]
        if not sells:
            continue
        for r in rng.sample(sells, min(len(sells), rng.choice([1, 1, 2]))):
            v = rng.choice([core.D(0), core.D(0), core.D(-rng.randint(1, 3000), 2)])
            r["sfl"] = (v, True)
        for c in cuts_of(rows):
            cases.append((rows, c, False))
    # several securities (app level: Model/SummaryApp.v all_summaries / app_roundtrip; Exec/CodecCsv.v entry 20)
    multi = []
    for _ in range(120 if tier == "quick" else 1200):
        rows = gen_multi(rng)
        cs = cuts_of(rows)
        for c in rng.sample(cs, min(len(cs), 4)):
            multi.append((rows, c, rng.random() < 0.4))
    check_cases(res, ctx, multi, "several-securities")
    ctx["second_quota"] = 60 if tier == "quick" else 600
    for i in range(0, len(cases), 2000):
        check_cases(res, ctx, cases[i:i + 2000], "random-sweep")
    ctx["second_quota"] = 0
    for c, (h, bad) in ctx["class_hits"].items():
        if c not in listed:
            res.violation("failing-input", bad[0] + (": " + bad[1] if bad[1] else "") + " (class %s)" % c,
                          {"input": h, "class": c,
                           "expected_spec": "rows after the date: same gain / superficial loss / share balance / ACB as the full history"})
    if ctx["diffs"] and not res.violations:
        d, h = ctx["diffs"][0]
        res.violation("broken-correspondence", "model and implementation differ: " + d,
                      {"theorem_or_projection": "correspondence projection C10 (summary rows; re-run rows)", "input": h,
                       "difference": d, "differing_cases": len(ctx["diffs"])}, found_input=False)
    res.coverage.update({
        "evaluations": st["evaluations"],
        "distinct_nontrivial": st["distinct_nontrivial"],
        "rule": "hand-written corpus; boundary family (purchases by 1-3 affiliates, a loss sale / gain sale / acquisition / split / RoC at "
                "offsets {1,15,29,30,31} days before and after the last summarised row, date at or next to it); year-boundary family "
                "(annual mode, activity within {1,15,29,30,31} days after 1 January); random histories with the date swept over every "
                "row boundary in both modes; histories with errors are skipped (counted); non-trivial = the summary has rows and some row "
                "settles after the date; distinct by SHA-1 of (history CSV, date, mode)",
        "samples": ctx["samples"],
        "input_distribution": {k: v for k, v in sorted(st.items())},
        "traces_validated_against_impl": st["evaluations"] - st["history-with-errors(skipped)"],
        "roundtrips_agreeing": st["roundtrip-agrees"],
        "roundtrips_differing_in_known_classes": st["roundtrip-differs"],
        "later_rows_compared": st["later-rows-compared"],
    })
    res.assumptions += [
        "the full round trip is refuted (C10_roundtrip_refuted) and the positive statement outside the classes is not proved: outside "
        "K_summary_buy_in_window / K_annual_sell_in_window the round trip is checked by search on every run (DESIGN.md C10: partial)",
        "the CSV text layer of the summary is exercised on the implementation side only (its model is C11)",
    ]
