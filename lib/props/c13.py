# C13 - the exchange-rate cache never changes an answer: histories of runs
# (own today / force flag / remote = truth published so far) x look-up
# sequences; every answer equals the no-cache reference; downloads per year
# per run <= 1 and none when the cached year covers what is asked.
import collections
import hashlib
import itertools
import re
import json
import os
import random
from fractions import Fraction

import rates as R
import ratesfail as RF
from common import run_harness, run_model, VERIF

REVAL = 1      # the model follows the code after the fix of C13 (re-validation of cached years)


def known_findings():
    out = []
    for p in (os.path.join(VERIF, "known-findings.d", "C13.json"), os.path.join(VERIF, "known-findings.json")):
        if os.path.exists(p):
            out += [k for k in json.load(open(p)).get("findings", []) if k.get("property") == "C13"]
    return out


def weekdays(lo, hi, skip=()):
    return [x for x in range(lo, hi + 1) if R.date_of(x).weekday() < 5 and x not in skip]


def vary(x):
    return "0.7%03d" % (x % 1000)


def corpus():
    d = R.day
    out = []
    truth = [R.mk_obs(x, daily=vary(x)) for x in weekdays(d(2022, 1, 3), d(2022, 1, 19))]
    # the lead: cached year covers up to 10 January; then 5 January, then 14 January in one run
    out.append(("stale-within-run", truth, [
        {"today": d(2022, 1, 11), "avail": d(2022, 1, 11), "force": False, "lookups": [d(2022, 1, 5)]},
        {"today": d(2022, 1, 20), "avail": d(2022, 1, 20), "force": False, "lookups": [d(2022, 1, 5), d(2022, 1, 14)]},
        {"today": d(2022, 1, 20), "avail": d(2022, 1, 20), "force": False, "lookups": [d(2022, 1, 14)]}]))
    # same day, rate of today published between two runs; second run asks an old date first
    out.append(("today-published-later", truth, [
        {"today": d(2022, 1, 12), "avail": d(2022, 1, 12), "force": False, "lookups": [d(2022, 1, 12), d(2022, 1, 11)]},
        {"today": d(2022, 1, 12), "avail": d(2022, 1, 13), "force": False, "lookups": [d(2022, 1, 11), d(2022, 1, 12)]}]))
    # look-back runs from a date the cache lacks into dates it has, and the other way round
    out.append(("lookback-into-cache", truth, [
        {"today": d(2022, 1, 9), "avail": d(2022, 1, 9), "force": False, "lookups": [d(2022, 1, 8)]},
        {"today": d(2022, 1, 17), "avail": d(2022, 1, 17), "force": False,
         "lookups": [d(2022, 1, 7), d(2022, 1, 16), d(2022, 1, 9), d(2022, 1, 15)]}]))
    # forced download; cache written by a forced run used by a later one
    out.append(("forced", truth, [
        {"today": d(2022, 1, 9), "avail": d(2022, 1, 9), "force": True, "lookups": [d(2022, 1, 8), d(2022, 1, 3)]},
        {"today": d(2022, 1, 9), "avail": d(2022, 1, 9), "force": False, "lookups": [d(2022, 1, 8), d(2022, 1, 3)]},
        {"today": d(2022, 1, 15), "avail": d(2022, 1, 16), "force": True, "lookups": [d(2022, 1, 15), d(2022, 1, 8)]}]))
    # two years: the look-back of 2 January crosses into a year cached earlier
    t2 = [R.mk_obs(x, daily=vary(x)) for x in weekdays(d(2021, 12, 20), d(2022, 1, 14), skip=(d(2021, 12, 27), d(2021, 12, 28), d(2022, 1, 3)))]
    out.append(("two-years", t2, [
        {"today": d(2021, 12, 30), "avail": d(2021, 12, 30), "force": False, "lookups": [d(2021, 12, 26)]},
        {"today": d(2022, 1, 5), "avail": d(2022, 1, 5), "force": False,
         "lookups": [d(2021, 12, 25), d(2022, 1, 2), d(2021, 12, 31), d(2022, 1, 4)]},
        {"today": d(2022, 1, 12), "avail": d(2022, 1, 13), "force": False,
         "lookups": [d(2022, 1, 1), d(2022, 1, 12), d(2022, 1, 9)]}]))
    return out


def gen_history(rng):
    y = rng.choice([2016, 2016, 2019, 2021, 2023])
    start = R.day(y, 12, rng.randint(8, 22))
    end = R.day(y + 1, 1, rng.randint(8, 28))
    if rng.random() < 0.25:        # single-year window
        start = R.day(y + 1, rng.randint(1, 11), rng.randint(1, 20))
        end = start + rng.randint(15, 45)
    days = R.gen_pub_days(rng, start, end, style=rng.choice(["weekdays", "weekdays", "runs"]))
    truth = R.gen_truth(rng, days, p_bad=0.03, p_cross=0.0)
    runs = []
    today = rng.randint(start + 2, end)
    avail = today
    for _ in range(rng.randint(1, 4)):
        avail = max(avail, today + (1 if rng.random() < 0.4 else 0))
        lo = start - 3
        hi = today + 1
        n = rng.randint(1, 5)
        if rng.random() < 0.5:
            lookups = [rng.randint(lo, hi) for _ in range(n)]
        else:   # recent dates: the ones a later run is likely not to find in the cache
            lookups = [rng.randint(max(lo, today - 9), hi) for _ in range(n)]
            if rng.random() < 0.5:
                lookups.insert(0, rng.randint(lo, max(lo, today - 8)))
        runs.append({"today": today, "avail": avail, "force": rng.random() < 0.2, "lookups": lookups})
        today = today + rng.choice([0, 0, 1, 1, 2, 3, 5, 8, 13])
        avail = max(avail, today)
    return truth, runs


def exhaustive():
    """all look-up orders of <= 4 dates x 3 run dates x 2 force flags over a
    2-year calendar, after a first run that leaves a cache behind"""
    d = R.day
    truth = [R.mk_obs(x, daily=vary(x)) for x in
             weekdays(d(2021, 12, 20), d(2022, 1, 21), skip=(d(2021, 12, 27), d(2021, 12, 28), d(2022, 1, 3)))]
    dates = [d(2021, 12, 24), d(2021, 12, 31), d(2022, 1, 2), d(2022, 1, 6), d(2022, 1, 12), d(2022, 1, 14)]
    first = {"today": d(2022, 1, 7), "avail": d(2022, 1, 7), "force": False, "lookups": [d(2021, 12, 30), d(2022, 1, 5)]}
    for today in (d(2022, 1, 7), d(2022, 1, 13), d(2022, 1, 14)):
        for force in (False, True):
            for n in range(1, 5):
                for seq in itertools.product(dates, repeat=n):
                    yield ("exhaustive", truth, [first, {"today": today, "avail": today + (1 if today == d(2022, 1, 14) else 0),
                                                         "force": force, "lookups": list(seq)}])


def oracle(res, ctx, name, truth, runs, hc, i):
    """the property on the implementation's own output"""
    st = ctx["stats"]
    cache_before = {}
    for k, (run, ir) in enumerate(zip(runs, i["runs"])):
        pub = R.pub_of(truth, run["avail"])
        # (a) every answer equals the no-cache reference
        for j, (dd, a) in enumerate(zip(run["lookups"], ir["answers"])):
            exp = R.rule(pub, run["today"], dd)
            if a != exp:
                return ("run %d look-up %d of %s (today %s): %s, without a cache %s" % (
                    k, j, R.iso(dd), R.iso(run["today"]), R.ans_str(a), R.ans_str(exp)),
                    {"run": k, "lookup_index": j, "lookup_date": R.iso(dd), "actual_impl": R.ans_str(a),
                     "expected_spec": R.ans_str(exp)})
        # (b) at most one download per year per run
        cnt = collections.Counter(y for y, _ in ir["requests"])
        for y, c in cnt.items():
            if c > 1:
                return ("run %d downloaded year %d %d times" % (k, y, c), {"run": k, "year": y, "downloads": c})
        # (c) none when the cached year covers everything the run can ask about that year
        if not run["force"]:
            needed = collections.defaultdict(set)
            for dd in run["lookups"]:
                for x in range(dd - 7, dd + 1):
                    needed[R.year_of(x)].add(x)
            for y, c in cnt.items():
                have = cache_before.get(y)
                if have is not None and needed[y] and needed[y] <= have:
                    return ("run %d downloaded year %d although the cached year covers every date it needed" % (k, y),
                            {"run": k, "year": y})
            for y in needed:
                have = cache_before.get(y)
                if have is not None and needed[y] <= have:
                    st["covered-year-no-download"] += 1
        ca = ir["cache_after"]
        cache_before = {int(y): ({r[0] for r in rows} if isinstance(rows, list) else None) for y, rows in ca.items()}
        # a CSV cache covers the days its FILE lists (whatever the reader makes of them later)
        for y, text in (ir.get("cache_files") or {}).items():
            if isinstance(text, str):
                days = set()
                for line in text.split("\n"):
                    m_ = re.match(r"\s*(\d{4})-(\d{2})-(\d{2})\s*,", line)
                    if m_:
                        days.add(R.day(int(m_.group(1)), int(m_.group(2)), int(m_.group(3))))
                if days:
                    cache_before[int(y)] = (cache_before.get(int(y)) or set()) | days
                    st["cache-files-read"] += 1
        st["downloads"] += len(ir["requests"])
        st["runs"] += 1
        st["lookups"] += len(run["lookups"])
    return None


def nontrivial(runs, i):
    """a run after the first that answered a look-up without downloading the year in that look-up"""
    for k, (run, ir) in enumerate(zip(runs, i["runs"])):
        if k == 0:
            continue
        prev = 0
        for m in ir["marks"]:
            if m == prev:
                return True
            prev = m
    return False


def check_batch(res, ctx, batch, want_known=None):
    st = ctx["stats"]
    hcases, mints = [], []
    for name, truth, runs in batch:
        cache = "csv" if (len(hcases) % 2) else "mem"
        hc = R.hist_case(truth, runs, cache=cache)
        hcases.append(hc)
        mints.append(R.hist_ints(truth, runs, hc["years"], reval=REVAL))
    impl = run_harness(ctx["exe"], "hist", hcases)
    mod = run_model(mints, group="rates")
    for (name, truth, runs), hc, io, mo in zip(batch, hcases, impl, mod):
        i = R.parse_hist_impl(io, hc["years"])
        m = R.parse_hist_model(mo, len(hc["years"]))
        st["evaluations"] += 1
        st["cache-" + hc["cache"]] += 1
        d = R.diff_hist(m, i)
        if d is not None:
            st["correspondence_diffs"] += 1
            ctx["corr_diffs"].append((dict(hc, replay_case=[name, truth, runs]), d))
        if i["status"] != "ok":
            res.violation("failing-input", "history panicked: %s" % i.get("panic"),
                          {"input": hc, "replay_case": [name, truth, runs]})
            continue
        bad = oracle(res, ctx, name, truth, runs, hc, i)
        if bad:
            ctx["oracle_failures"].append((name, dict(hc, replay_case=[name, truth, runs]), bad))
        h = hashlib.sha1(json.dumps(hc, sort_keys=True).encode()).hexdigest()
        if h not in ctx["seen"] and nontrivial(runs, i):
            ctx["seen"].add(h)
            st["distinct_nontrivial"] += 1
            if len(ctx["samples"]) < 3:
                ctx["samples"].append({"calendar_days": [R.iso(o["day"]) for o in truth][:10],
                                       "runs": [{"today": R.iso(r["today"]), "force": r["force"],
                                                 "lookups": [R.iso(x) for x in r["lookups"]]} for r in runs]})


def check_broken_cache(res, ctx, batch):
    """histories over a cache directory that can not be written (every write fails, every read finds
    nothing): not modelled, but the property still says every answer is the no-cache answer and a
    year is downloaded at most once per run - judged on the implementation alone"""
    st = ctx["stats"]
    hcases = [R.hist_case(truth, runs, cache="csv-broken") for name, truth, runs in batch]
    impl = run_harness(ctx["exe"], "hist", hcases)
    for (name, truth, runs), hc, io in zip(batch, hcases, impl):
        st["evaluations"] += 1
        st["cache-csv-broken"] += 1
        # reading the broken directory reports an error text instead of rows: no content
        for part in [io] + list(io.get("runs", [])):
            for key in ("cache", "cache_after"):
                if isinstance(part.get(key), dict):
                    for y, v in list(part[key].items()):
                        if isinstance(v, str):
                            part[key][y] = None
        i = R.parse_hist_impl(io, hc["years"])
        if i["status"] != "ok":
            res.violation("failing-input", "history over an unwritable cache directory panicked: %s" % i.get("panic"),
                          {"input": hc, "replay_case": [name, truth, runs]})
            continue
        for k, (run_, ir) in enumerate(zip(runs, i["runs"])):
            pub = R.pub_of(truth, run_["avail"])
            for j, (dd, a) in enumerate(zip(run_["lookups"], ir["answers"])):
                exp = R.rule(pub, run_["today"], dd)
                if a != exp:
                    ctx["oracle_failures"].append((name, dict(hc, replay_case=[name, truth, runs]), (
                        "unwritable cache: run %d look-up %d of %s: %s, without a cache %s" % (k, j, R.iso(dd), R.ans_str(a), R.ans_str(exp)),
                        {"run": k, "lookup_index": j})))
                    break
            cnt = collections.Counter(y for y, _ in ir["requests"])
            for y, c in cnt.items():
                if c > 1:
                    ctx["oracle_failures"].append((name, dict(hc, replay_case=[name, truth, runs]), (
                        "unwritable cache: run %d downloaded year %d %d times" % (k, y, c), {"run": k, "year": y, "downloads": c})))


def run(res, ctx):
    tier, seed = ctx["tier"], ctx["seed"]
    rng = random.Random(seed * 7919 + 13)
    ctx.update(stats=collections.Counter(), seen=set(), samples=[], corr_diffs=[], oracle_failures=[])
    st = ctx["stats"]
    check_batch(res, ctx, corpus())
    check_broken_cache(res, ctx, corpus() + [("random-broken-cache",) + gen_history(rng) for _ in range(300 if tier == "quick" else 3000)])
    n = 8000 if tier == "quick" else 60000
    done = 0
    while done < n:
        k = min(1000, n - done)
        check_batch(res, ctx, [("random",) + gen_history(rng) for _ in range(k)])
        done += k
    # failure paths: scripted cache read / write / remote request outcomes, damaged cache files
    # (model: coq/Model/RatesFail.v; C13_cache_failures_transparent, C13_corrupt_cache_rows,
    # C12_remote_failure_is_error)
    rng_f = random.Random(seed * 7919 + 1313)
    RF.check_batch(res, ctx, RF.corpus())
    nf = 1600 if tier == "quick" else 16000
    done = 0
    while done < nf:
        k = min(800, nf - done)
        RF.check_batch(res, ctx, [("random-failures",) + RF.gen_case(rng_f, gen_history, (done + j) % 2 == 1) for j in range(k)])
        done += k
    if tier == "thorough":
        buf = []
        for c in exhaustive():
            buf.append(c)
            if len(buf) >= 2000:
                check_batch(res, ctx, buf)
                st["exhaustive"] += len(buf)
                buf = []
        if buf:
            check_batch(res, ctx, buf)
            st["exhaustive"] += len(buf)
    else:
        # a seeded slice of the exhaustive sweep
        allc = list(itertools.islice(exhaustive(), 0, None, 23))
        rng.shuffle(allc)
        check_batch(res, ctx, allc[:400])
        st["exhaustive"] += min(400, len(allc))

    known = known_findings()
    for name, hc, (what, extra) in ctx["oracle_failures"][:3]:
        rep = {"input": {k: v for k, v in hc.items() if k != "replay_case"}, "case": name,
               "replay_case": hc.get("replay_case")}
        rep.update(extra)
        res.violation("failing-input", what, rep)
    if known:
        for k in known:
            res.known(k["what"])
    if ctx["corr_diffs"] and not res.violations:
        hc, d = ctx["corr_diffs"][0]
        res.violation("broken-correspondence", "model and implementation differ: " + d,
                      {"theorem_or_projection": "correspondence projection C13 (answer per look-up, downloads per year per run in order, final cache content)",
                       "input": {k: v for k, v in hc.items() if k != "replay_case"}, "difference": d,
                       "differing_cases": len(ctx["corr_diffs"]), "replay_case": hc.get("replay_case")}, found_input=False)
    res.coverage.update({
        "evaluations": st["evaluations"],
        "distinct_nontrivial": st["distinct_nontrivial"],
        "rule": "seeded histories: 1-4 runs with non-decreasing today (same day, next days, weeks later), today's rate published or not, force flag, 1-6 look-ups per run (old dates, recent dates, future dates) over a calendar window of 3-8 weeks mostly across a year end; in-memory and CSV caches alternate; plus a hand-written corpus and a seeded slice (quick: 400 cases) or all (thorough) of the exhaustive sweep of look-up orders of <= 4 dates x 3 run dates x 2 force flags. Non-trivial = a later run answers at least one look-up without downloading during it (the cache or the loaded year was used), distinct by SHA-1 of the case",
        "samples": ctx["samples"],
        "input_distribution": {k: v for k, v in sorted(st.items())},
        "traces_validated_against_impl": st["evaluations"],
    })
    res.assumptions += [
        "premise of the property: the remote of a run = truth restricted to days before `avail` with today <= avail <= today+1; today and avail non-decreasing over the runs; remote constant during a run and never failing",
        "histories over an unwritable cache DIRECTORY (real CsvRatesCache errors) are judged on the implementation alone (answers = no-cache answers, at most one download per year per run); scripted cache read / write / request failures and damaged cache files are modelled (Model/RatesFail.v) and run against a RatesCache / HttpRequester of the harness that fail as scripted around the real caches",
        "a failed cache write leaves the cache as it was (true of CsvRatesCache: the rename is its last step; the harness cache does not call the real writer on a scripted failure)",
    ]
    res.coverage["failure_paths"] = {k: v for k, v in sorted(st.items()) if k.startswith("failures-") or k.startswith("damaged") or k.startswith("reader-on")}


def replay(res, ctx, path):
    import common
    rep = json.load(open(path))
    ctx.update(stats=collections.Counter(), seen=set(), samples=[], corr_diffs=[], oracle_failures=[])
    r2 = common.Result("C13", ctx["tier"], ctx["seed"])
    case = rep.get("replay_case")
    if not case:
        print("replay: this replay file names no input (%s)" % rep.get("what", "")[:200])
        return 1
    if (rep.get("input") or {}).get("replay_kind") == "failures":
        name, truth, runs, cache = case
        runs = [dict(r, damage=[(y, [tuple(e) for e in ed]) for y, ed in r.get("damage", [])]) for r in runs]
        RF.check_batch(r2, ctx, [(name, [R.load_obs(o) for o in truth], runs, cache)])
        return R.replay_report(r2, ctx, "history under a failure script")
    name, truth, runs = case
    # the cache kind of the original case
    kind = (rep.get("input") or {}).get("cache", "mem")
    batch = [(name, [R.load_obs(o) for o in truth], runs)]
    if kind == "csv":
        batch = [batch[0], batch[0]]      # check_batch alternates mem / csv
    check_batch(r2, ctx, batch)
    return R.replay_report(r2, ctx, "history")
