# C16, pass "symbol-base text layer": parse_initial_status (input_parse.rs), its
# place in cmd.rs (before any file is opened) and the lookup in approot.rs,
# against the extracted model (group "initspec", Model/InitSpec.v, theorems
# C16_spec_* / C16_malformed_rejected_first / C16_last_spec_wins) and against
# an oracle written from the property text and the Rust sources (lib/initspec.py).
import collections
import random

import common
import corecheck
import initspec as I
from common import run_harness, run_model

PROJECTION = "symbol-base text layer"

VALID_CSV = ("security,trade date,settlement date,action,shares,amount/share,commission,currency,exchange rate,affiliate\n"
             "%s,2020-01-02,2020-01-04,Sell,4,5,0,CAD,,\n")
INVALID_CSV = "security,trade date\nnot,a,valid,csv\n"
MAX_MANT = 2 ** 96 - 1


def systematic_cases():
    cases = [list(c) for c in I.CORPUS]
    for w in I.WS + I.NOT_WS:
        cases += [[w + "FOO:1:1"], ["FOO" + w + ":1:1"], [w + "FOO" + w + ":1.5:2.25"], ["FOO:" + w + "1:1"], ["FOO:1" + w + ":1"],
                  ["FOO:1:" + w + "1"], ["FOO:1:1" + w], [w + ":1:1"], [w + w + ":1:1"], ["F" + w + "O:1:1"]]
    for a in I.AMOUNTS:
        cases += [["FOO:%s:1" % a], ["FOO:1:%s" % a]]
    for s in I.SYMBOLS:
        cases += [["%s:1:2" % s], ["%s:1:2" % s, "%s:3:4" % s.upper()], ["%s:1:2" % s.lower(), "%s:3:4" % s, " %s\t:5:6" % s.lower()]]
    return cases


def roundtrip_cases(rng, n):
    """instances of theorem C16_spec_roundtrip: (specs, expected map)"""
    out = []
    for _ in range(n):
        sym = I.well_formed_symbol(rng)
        decs = []
        for _ in range(2):
            k = rng.random()
            if k < 0.3:
                m = rng.choice([0, 1, MAX_MANT, MAX_MANT - 1, 10 ** 28, 10 ** 28 - 1, 5, 15, 25, 1005, 100499, 100500])
            elif k < 0.7:
                m = rng.randint(0, 10 ** rng.choice([2, 5, 9, 15]))
            else:
                m = rng.randint(0, MAX_MANT)
            decs.append((False, m, rng.choice([0, 1, 2, 2, 3, 4, 8, 17, 27, 28])))
        spec = "%s:%s:%s" % (sym, I.dec_display(*decs[0]), I.dec_display(*decs[1]))
        out.append(([spec], {tuple(sym.encode("utf-8")): (decs[0], decs[1])}))
    return out


def describe(r):
    if r[0] == "ok":
        return "accepted %s" % I.show_map(r[1])
    if r[0] == "err":
        return "rejected: %s" % (r[-1],)
    return "%s %s" % (r[0], r[1])


def compare_impl_oracle(specs, imp, orc):
    """None when the implementation does what the property and the sources say; else
    (property_violated: bool, text)"""
    if imp[0] == "panic":
        return (True, "parse_initial_status panicked: %s" % imp[1])
    if orc[0] == "ok":
        if imp[0] != "ok":
            return (True, "well-formed specification rejected: %s" % imp[1])
        if imp[1] != orc[1]:
            return (True, "symbol or amount altered: the positions are %s, the specifications say %s" % (I.show_map(imp[1]), I.show_map(orc[1])))
        if imp[2]:
            return (True, "; ".join(imp[2]))
        return None
    if imp[0] == "ok":
        return (True, "malformed specification accepted as %s (it should be rejected: %s)" % (I.show_map(imp[1]), orc[2]))
    if imp[1] != orc[2]:
        return (False, "rejected with the message %r, expected %r (the first malformed specification decides)" % (imp[1], orc[2]))
    return None


def compare_impl_model(imp, mod):
    """None when the extracted model and the implementation agree (model codes 160..165 against
    the message kind; code 99 = outside the model, not compared)"""
    if mod[0] == "bad":
        return "the model returned the unexpected encoding %s" % (mod[1],)
    if mod[0] == "err" and mod[1] == 99:
        return None
    if mod[0] == "ok":
        if imp[0] != "ok":
            return "model accepts %s, implementation: %s" % (I.show_map(mod[1]), describe(imp))
        if imp[1] != mod[1]:
            return "model positions %s, implementation %s" % (I.show_map(mod[1]), I.show_map(imp[1]))
        return None
    if imp[0] != "err":
        return "model rejects (%s), implementation: %s" % (I.CODES.get(mod[1], mod[1]), describe(imp))
    kind = I.classify_message(imp[1])
    if kind != mod[1]:
        return "model rejects with %s, implementation message %r" % (I.CODES.get(mod[1], mod[1]), imp[1])
    return None


def norm_nl(t):
    return t.replace("\r\n", "\n").replace("\r", "\n")


def has_table(stdout):
    return "Transactions for" in stdout or "Aggregate Gains" in stdout or " | " in stdout


def cli_pass(res, st, rng, generated_bad, samples, only=None):
    bindir, blog = common.build_bins()
    if bindir is None:
        res.violation("broken-correspondence", "the repository's binaries do not build: " + blog[-500:],
                      {"theorem_or_projection": PROJECTION}, found_input=False)
        return
    good_csv = VALID_CSV % "FOO"
    bad_lists = [["FOO"], ["FOO:1"], ["FOO:1:2:3"], [":1:2"], [" :1:2"], ["FOO:x:2"], ["FOO:1:y"], ["FOO:-1:2"], ["FOO:1:-2"], ["FOO::"],
                 ["FOO:1e3:1"], ["FOO:10:100", "BAR:1"], ["FOO:10:100", "FOO:-1:1", "BAR"], [""], ["FOO: 10:100"]]
    # argv cannot carry NUL; "\r" would be rewritten by the text-mode pipe of run_acb_cli
    usable = [l for l in generated_bad if all("\x00" not in s and "\r" not in s for s in l)]
    rng.shuffle(usable)
    bad_lists += usable[:8]
    if only is not None:
        bad_lists = only
    situations = [("valid-csv", [good_csv], []), ("invalid-csv", [INVALID_CSV], []), ("missing-file", [], ["/nonexistent-dir/none.csv"])]
    for specs in bad_lists:
        orc = I.oracle(specs)
        assert orc[0] == "err", specs
        for name, files, extra in situations:
            args = ["--symbol-base=" + s for s in specs] + extra
            rc, out, err, _ = corecheck.run_acb_cli(bindir, files, args)
            st["cli-malformed-" + name] += 1
            what = None
            if rc == 0:
                what = "exit status 0"
            elif "Error parsing --symbol-base" not in err:
                what = "no 'Error parsing --symbol-base' on stderr (stderr: %r)" % err[:300]
            elif has_table(out):
                what = "a table was printed"
            elif norm_nl(err).strip() != norm_nl("Error parsing --symbol-base: " + orc[2]).strip():
                # something else was reported as well: the files were looked at before the rejection,
                # or the message names another specification
                if ("No such file" in err or "csv" in err.lower().replace("--symbol-base", "")) and name != "valid-csv":
                    what = "the run looked at the %s before rejecting the specification (stderr: %r)" % (name, err[:300])
                else:
                    res.violation("broken-correspondence",
                                  "acb %s: stderr %r, expected 'Error parsing --symbol-base: %s'" % (" ".join(args), err[:300], orc[2]),
                                  {"theorem_or_projection": PROJECTION, "symbol_base": specs, "situation": name, "stderr": err[:1000]},
                                  found_input=False)
            if what:
                res.violation("failing-input",
                              "malformed --symbol-base %r with %s is not rejected before any processing: %s" % (specs, name, what),
                              {"symbol_base": specs, "situation": name, "files": files, "args": args,
                               "expected": "exit status != 0, stderr 'Error parsing --symbol-base: %s', no table" % orc[2],
                               "actual_impl": {"rc": rc, "stdout": out[:600], "stderr": err[:600]}})
    if only is not None:
        return
    # controls: a well-formed specification lets the run go on (table / the file's own error)
    rc, out, err, _ = corecheck.run_acb_cli(bindir, [good_csv], ["--symbol-base= FOO :10:100.005"])
    st["cli-control"] += 1
    if rc != 0 or not has_table(out) or "$60.00" not in out:
        res.violation("failing-input", "well-formed --symbol-base ' FOO :10:100.005' with a valid file: no table with the remaining cost $60.00 (rc %s, stderr %r)" % (rc, err[:300]),
                      {"symbol_base": [" FOO :10:100.005"], "files": [good_csv], "actual_impl": {"rc": rc, "stdout": out[:1500], "stderr": err[:600]}})
    rc, out, err, _ = corecheck.run_acb_cli(bindir, [], ["--symbol-base=FOO:10:100", "/nonexistent-dir/none.csv"])
    st["cli-control"] += 1
    if "Error parsing --symbol-base" in err:
        res.violation("failing-input", "well-formed --symbol-base 'FOO:10:100' reported as a parse error: %r" % err[:300],
                      {"symbol_base": ["FOO:10:100"], "actual_impl": {"rc": rc, "stderr": err[:600]}})
    if len(samples) < 6:
        samples.append({"cli": "acb --symbol-base=FOO:x:2 <invalid csv> -> rc != 0, 'Error parsing --symbol-base', no table"})


def lookup_pass(res, ctx, st):
    """approot.rs: the position is used for the security whose name in the CSV equals the
    (trimmed) symbol bytewise"""
    pairs = [("FOO", "FOO"), ("foo", "FOO"), ("FOO", "foo"), ("Brk.b", "Brk.b"), ("BRK.B", "Brk.b"), ("brk.b", "Brk.b"), (" Brk.b\t", "Brk.b"),
             ("\u00a0FOO\u3000", "FOO"), ("\u00e9", "\u00e9"), ("\u00c9", "\u00e9"), ("FOO", "FOO2"), ("FOO BAR", "FOO BAR"), ("FOO\u00a0BAR", "FOO BAR"), ("FOO\u00a0BAR", "FOO\u00a0BAR")]
    cases = [{"files": [VALID_CSV % sec], "init": ["%s:10:100" % key]} for key, sec in pairs]
    outs = run_harness(ctx["exe"], "core", cases, nproc=2)
    for (key, sec), o, c in zip(pairs, outs, cases):
        st["lookup"] += 1
        expect_used = I.rust_trim(key) == sec
        s = (o.get("secs") or {}).get(sec)
        if o.get("status") != "ok" or s is None:
            res.violation("broken-correspondence", "lookup case %r/%r: %s" % (key, sec, o.get("err") or o.get("panic") or o.get("status")),
                          {"theorem_or_projection": PROJECTION, "input": c}, found_input=False)
            continue
        used = s["err"] is None and len(s["deltas"]) == 1 and s["deltas"][0]["post"][0] == "6" and s["deltas"][0]["post"][2] == "60"
        unused = s["err"] is not None
        if expect_used and not used:
            res.violation("failing-input", "the opening position %r is not applied to the security %r of the file (%s)" % (
                key + ":10:100", sec, s["err"] or "post status %s" % s["deltas"][0]["post"]),
                {"symbol_base": [key + ":10:100"], "input": c["files"][0], "security": sec})
        if not expect_used and not unused:
            res.violation("failing-input", "the opening position %r is applied to the security %r, a different name" % (key + ":10:100", sec),
                          {"symbol_base": [key + ":10:100"], "input": c["files"][0], "security": sec})


def run(res, ctx):
    tier, seed = ctx["tier"], ctx["seed"]
    rng = random.Random(seed * 7919 + 1616)
    st = collections.Counter()
    samples = []
    ngen = 8000 if tier == "quick" else 80000
    nrt = 1500 if tier == "quick" else 15000
    cases = [(c, None) for c in systematic_cases()]
    st["corpus"] = len(cases)
    cases += [(I.gen_list(rng), None) for _ in range(ngen)]
    cases += roundtrip_cases(rng, nrt)
    # the harness takes byte lists; texts that are no valid String cannot occur (surrogates are never generated)
    himp = run_harness(ctx["exe"], "initspec", [I.enc_harness(c) for c, _ in cases])
    mout = run_model([I.enc_model(c) for c, _ in cases], group="initspec")
    generated_bad = []
    seen = set()
    reported = 0
    for (specs, expected), ho, mo in zip(cases, himp, mout):
        st["text-evaluations"] += 1
        imp = I.parse_harness(ho)
        mod = I.parse_model(mo)
        orc = I.oracle(specs)
        cls = "accepted" if orc[0] == "ok" else "rejected-" + I.CODES[orc[1]]
        st["oracle-" + cls] += 1
        if orc[0] == "ok" and len(orc[1]) < len(specs):
            st["oracle-accepted-with-replaced-symbol"] += 1
        if mod[0] == "err" and mod[1] == 99:
            st["model-outside(underscore)"] += 1
        else:
            st["model-compared"] += 1
        if orc[0] == "err" and expected is None and len(generated_bad) < 400:
            generated_bad.append(specs)
        key = (cls, len(specs))
        if key not in seen and len(samples) < 5:
            seen.add(key)
            samples.append({"symbol_base": specs, "implementation": describe(imp)})
        if expected is not None:
            st["roundtrip-instances"] += 1
            if orc != ("ok", expected):
                res.violation("broken-correspondence", "oracle disagrees with theorem C16_spec_roundtrip on %r: %s" % (specs, describe(orc)),
                              {"theorem_or_projection": "C16_spec_roundtrip", "symbol_base": specs}, found_input=False)
        d = compare_impl_oracle(specs, imp, orc)
        dm = compare_impl_model(imp, mod)
        if d is not None and reported < 10:
            reported += 1
            violated, text = d
            rep = {"symbol_base": specs, "symbol_base_bytes": [list(s.encode("utf-8")) for s in specs],
                   "expected": describe(orc), "actual_impl": describe(imp), "model": describe(mod) if mod[0] != "bad" else str(mod)}
            if violated:
                res.violation("failing-input", "--symbol-base %r: %s" % (specs, text), rep)
            else:
                rep["theorem_or_projection"] = PROJECTION
                res.violation("broken-correspondence", "--symbol-base %r: %s" % (specs, text), rep, found_input=False)
        elif d is None and dm is not None and reported < 10:
            reported += 1
            res.violation("broken-correspondence", "--symbol-base %r: %s" % (specs, dm),
                          {"theorem_or_projection": PROJECTION + " (Model/InitSpec.v parse_initial_status)", "symbol_base": specs,
                           "symbol_base_bytes": [list(s.encode("utf-8")) for s in specs], "actual_impl": describe(imp)}, found_input=False)
    lookup_pass(res, ctx, st)
    cli_pass(res, st, rng, generated_bad, samples)
    return st, samples


def replay(res, ctx, rep):
    """re-run one recorded list of specifications (text comparison; the binary too when the
    replay came from the CLI pass)"""
    specs = rep["symbol_base"]
    if isinstance(specs, str):
        specs = [specs]
    if "symbol_base_bytes" in rep:
        specs = [bytes(b).decode("utf-8") for b in rep["symbol_base_bytes"]]
    imp = I.parse_harness(run_harness(ctx["exe"], "initspec", [I.enc_harness(specs)], nproc=1)[0])
    mod = I.parse_model(run_model([I.enc_model(specs)], nproc=1, group="initspec")[0])
    orc = I.oracle(specs)
    d = compare_impl_oracle(specs, imp, orc)
    dm = compare_impl_model(imp, mod)
    base = {"symbol_base": specs, "expected": describe(orc), "actual_impl": describe(imp)}
    if d is not None:
        if d[0]:
            res.violation("failing-input", "--symbol-base %r: %s" % (specs, d[1]), base)
        else:
            res.violation("broken-correspondence", "--symbol-base %r: %s" % (specs, d[1]), dict(base, theorem_or_projection=PROJECTION), found_input=False)
    elif dm is not None:
        res.violation("broken-correspondence", "--symbol-base %r: %s" % (specs, dm), dict(base, theorem_or_projection=PROJECTION), found_input=False)
    if orc[0] == "err" and all("\x00" not in s and "\r" not in s for s in specs):
        st = collections.Counter()
        cli_pass(res, st, random.Random(0), [], [], only=[specs])
    res.coverage.update({"evaluations": 1, "replayed": specs})
