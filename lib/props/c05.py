# C05 - every input ends in a report or a diagnostic, never a panic.
import collections
import os
import random
import re
import shutil
import subprocess
import tempfile
from fractions import Fraction

import core
import corecheck
import gen
import residuegen
from common import build_bins, child_env, load_known, run_harness, BUILD

SITE_NAMES = {1: "GEZ + GEZ", 2: "GEZ * GEZ", 3: "GEZ.div(Pos)", 4: "Pos * Pos", 5: "Pos / Pos", 6: "Neg * Neg",
              7: "Neg / Neg", 8: "Neg.mul_pos", 9: "ratio.to_posdecimal", 10: "ratio.to_gezdecimal",
              11: "LessEqualZeroDecimal::try_from(effective-cent value) (delta_list.rs; math.rs:93 before the fix 4125b76)",
              12: "NegDecimal::try_from(calculated sfl) (matched, not unwrapped, since 4125b76: unused)",
              13: "PosDecimal::try_from(affiliate ratio)", 14: "SflaTxSpecifics::total_amount", 15: "split balance",
              16: "Buy arm: GreaterEqualZeroDecimal::try_from(all_affiliates_share_balance_after(..)) (delta_list.rs, since the fix of split-residue-assert)",
              20: "set_latest_post_status acb assert", 21: "set_latest_post_status all-affiliate assert (portfolio_status.rs:100 before the fix of split-residue-assert)"}


STRICT_SITES = (4, 5, 6, 7, 8, 9, 13, 14)   # C05_rounded_panic_classes: strictly-signed constrained quantities


def classify_panic(loc):
    """class of an implementation panic, from its source location / message.  "eff-cent-zero" and
    "split-residue-assert" are no longer known classes (fixed, see known-findings.d/C05.json): a panic
    classified so is reported as a violation because the id is not among the known findings any more"""
    if "math.rs:93" in loc or ("does not match constraints" in loc and " 0.00" in loc and "Neg" in loc):
        return "eff-cent-zero"
    if "portfolio_status.rs:100" in loc or "!= expected_all_share_bal" in loc:
        return "split-residue-assert"
    if "overflowed" in loc or "Overflow" in loc:
        return "decimal-overflow"
    # a strictly positive / negative constrained quantity that rounded to exactly zero
    if re.search(r'"-?0(\.0+)? does not match constraints of [\w:]*constraint::(Pos|Neg)"', loc):
        return "decimal-underflow"
    return None


def model_panic_class(p):
    kind, site = p[0], p[1]
    if kind in (1, 2):
        return "decimal-overflow"
    if kind == 3 and site == 11:
        return "eff-cent-zero"
    if kind == 4 and site == 21:
        return "split-residue-assert"
    if kind == 3 and site in STRICT_SITES:
        return "decimal-underflow"
    return None


def load_fixed(prop):
    """the fixed findings of a property, from its fragment known-findings.d/<prop>.json (the source
    known-findings.json is assembled from): a finding listed there as fixed is no longer known, whatever
    an older assembled file says"""
    import json
    from common import VERIF
    p = os.path.join(VERIF, "known-findings.d", prop + ".json")
    if not os.path.exists(p):
        return []
    return [k for k in json.load(open(p)).get("fixed", []) if k.get("property") == prop]


def underflow_history(rng):
    """a huge holder and a dust co-holder buying inside the window of a small loss: the
    co-holder's portion of the denied loss is far below 1e-28"""
    d0 = core.BASE_DAY + rng.randint(10, 300)
    def _r(day, act, sh, aps, af):
        return {"sec": "FOO", "td": d0 + day, "sd": d0 + day, "act": act, "sh": sh, "aps": aps,
                "com": None, "cur": None, "rate": None, "af": af}
    for _ in range(50):
        bigsh = core.D(rng.choice([9, 8, 5, 1]) * 10 ** rng.choice([11, 11, 10, 9]))
        dust = core.D(rng.randint(1, 9), 10)
        sold = core.D(rng.choice([1, 1, 5]), rng.choice([0, 1]))
        px = core.D(10 ** 7 - rng.choice([1, 3, 7]) * 10 ** rng.choice([0, 0, 1, 2]), 7)
        portion = (Fraction(1) - px[1]) * sold[1] * dust[1] / (bigsh[1] + dust[1])
        if rng.random() < 0.3 or portion < Fraction(4, 10 ** 29):
            break
    rows = [_r(0, "Buy", bigsh, core.D(1), None), _r(1, "Buy", dust, core.D(1), rng.choice(["B", "Spouse"])),
            _r(8, "Sell", sold, px, None)]
    return rows


def big(rng):
    k = rng.random()
    if k < 0.3:
        return core.D(rng.randint(1, 10 ** 22 - 1), 10)             # up to ~1e12 with 10 decimals
    if k < 0.6:
        return core.D(rng.randint(1, 10 ** 12 - 1), rng.randint(0, 10))
    if k < 0.8:
        return core.D(rng.randint(1, 9), 10)                         # tiny
    return core.D(rng.randint(1, 10 ** 6), rng.randint(0, 4))


def extreme_history(rng):
    rows = gen.gen_history(rng, p_invalid=0.05, window_focus=True, p_split=0.1)
    for r in rows:
        if r["act"] in ("Buy", "Sell") and rng.random() < 0.5:
            r["aps"] = big(rng)
            if rng.random() < 0.3:
                r["cur"], r["rate"] = "EUR", big(rng)
            if rng.random() < 0.3:
                r["com"] = big(rng)
        if r["act"] == "Buy" and rng.random() < 0.3:
            r["sh"] = big(rng)
    return rows


def mutate_bytes(rng, data):
    data = bytearray(data)
    for _ in range(rng.choice([1, 1, 2, 3, 8])):
        if not data:
            break
        k = rng.random()
        i = rng.randrange(len(data))
        if k < 0.3:
            data[i] = rng.choice(b',"\n\r-.0159 eE!()%\xff\x00\xc3')
        elif k < 0.5:
            del data[i:i + rng.choice([1, 2, 10])]
        elif k < 0.7:
            data[i:i] = rng.choice([b",", b'"', b"\n", b"-", b"99999999999999999999999999999999", b"1e5", b"0.00000000000000000000000000001",
                                    b"2-for-", b"-for-0", b"0-for-1", b"(R)", b"!", b"\xe2\x82\xac", b"9999-12-31", b"0000-01-01", b"1900-02-29"])
        elif k < 0.85:
            j = rng.randrange(len(data))
            data[i], data[j] = data[j], data[i]
        else:
            data = data[:i]
    return bytes(data)


def run_cli(bindir, name, args, files, tag):
    d = tempfile.mkdtemp(prefix="c05-", dir=os.path.join(BUILD, "run"))
    try:
        paths = []
        for i, (fn, content) in enumerate(files):
            p = os.path.join(d, fn)
            open(p, "wb").write(content)
            paths.append(p)
        argv = [os.path.join(bindir, name)] + [a.replace("@OUT@", os.path.join(d, "out")) for a in args] + paths
        try:
            p = subprocess.run(argv, stdout=subprocess.PIPE, stderr=subprocess.PIPE, env=child_env({"HOME": d}), cwd=d, timeout=60)
        except subprocess.TimeoutExpired:
            return "timeout", "", argv
        err = p.stderr.decode("utf-8", "replace")
        if p.returncode == 101 or "panicked at" in err or p.returncode < 0:
            m = re.search(r"panicked at ([^\n]*)\n?([^\n]*)", err)
            return "panic", (m.group(1) + " " + m.group(2)) if m else err[-300:], argv
        return "ok" if p.returncode == 0 else "diagnostic", err[-200:], argv
    finally:
        shutil.rmtree(d, ignore_errors=True)


def run(res, ctx):
    tier, seed = ctx["tier"], ctx["seed"]
    rng = random.Random(seed * 179424673 + 5)
    st = collections.Counter()
    fixed_ids = {k.get("id") for k in load_fixed("C05")}
    known = [k for k in load_known("C05") if k["id"] not in fixed_ids]
    known_ids = {k["id"] for k in known}
    known_hit = collections.Counter()
    seen, samples = set(), []
    corr = []
    # ---- (a) library entry point, in-range values incl. extremes; model predicts every panic
    n = 1800 if tier == "quick" else 50000
    done = 0
    while done < n:
        cases = []
        for _ in range(min(600, n - done)):
            k_ = rng.random()
            if k_ < 0.04:
                cases.append({"rows": underflow_history(rng), "inits": {}})
            elif k_ < 0.14:
                # a split with a non-terminating factor, then Buy / Sell rows of one or several affiliates:
                # 28-digit balances through the all-affiliate expression and the tracker's assertion
                # (C05_status_assertion_cannot_fail; the former class split-residue-assert)
                cases.append({"rows": residuegen.residue_history(rng), "inits": {}})
                st["residue-histories"] += 1
            elif k_ < 0.5:
                cases.append({"rows": extreme_history(rng), "inits": {}})
            else:
                cases.append(gen.gen_case(rng, p_invalid=0.1, p_sfl_spec=0.05))
        if done == 0:
            # long inputs: several read-buffer lengths (8 KiB) of CSV text through the string reader of the
            # library entry point (the way the web UI hands file contents over)
            for nrows in ((200, 420, 700) if tier == "quick" else (200, 420, 700, 1500, 149, 150, 151, 300)):
                cases.append({"rows": gen.gen_history(rng, n_rows=nrows, p_invalid=0.0, p_split=0.01), "inits": {}})
                st["long-inputs"] += 1
        done += len(cases)
        for r in corecheck.run_cases(ctx, cases, render=True, costs=True):
            st["evaluations"] += 1
            i, m = r["impl"], r["dec"]
            st["lib-" + i["status"]] += 1
            d = core.diff_exact(m, i)
            if d is not None:
                corr.append((r, d))
            for key in ("render_full", "render_cents"):
                rr = r["raw"].get(key, {})
                if rr.get("status") == "panic" and i["status"] != "panic":
                    if classify_panic(rr.get("panic", "")) == "decimal-overflow" and "decimal-overflow" in known_ids:
                        known_hit["decimal-overflow"] += 1
                        st["panic-outside-modelled-core"] += 1
                        continue
                    res.violation("failing-input", "render model panics: %s" % rr.get("panic"), {"input": r["hc"], "actual_impl": rr.get("panic")})
            if i["status"] == "panic":
                cls = classify_panic(i["panic"])
                mcls = model_panic_class(m["panic"]) if m["status"] == "panic" else None
                if r["hash"] not in seen:
                    seen.add(r["hash"])
                    st["distinct_nontrivial"] += 1
                if cls is not None and cls in known_ids and mcls == cls:
                    known_hit[cls] += 1
                else:
                    res.violation("failing-input", "panic: %s" % i["panic"][:300],
                                  {"input": r["hc"], "actual_impl": i["panic"], "model": str(m.get("panic"))})
            elif len(samples) < 2 and rng.random() < 0.01:
                samples.append({"csv": r["hc"]["files"][0][:1500]})
    # ---- (b) the acb binary on malformed bytes and option combinations
    bindir, blog = build_bins()
    if bindir is None:
        res.violation("broken-correspondence", "CLI binaries do not build", {"theorem_or_projection": "CLI build", "log": blog[-1500:]}, found_input=False)
    else:
        # fixed corpus: every accepted spelling of an opening position on a file that uses it
        simple = b"security,trade date,settlement date,action,shares,amount/share\nFOO,2020-01-02,2020-01-04,Sell,2,5\nFOO,2020-02-02,2020-02-04,Buy,1,5\n"
        for spec in ("FOO:10:100", " FOO:10:100", "FOO :10:100", "\tFOO:10:100", "FOO:10:100 ", "FOO: 10:100", "FOO:10: 100", "foo:10:100"):
            for extra in ([], ["--total-costs"], ["--summarize-before", "2021-01-01"]):
                status, info, argv = run_cli(bindir, "acb", ["-b", spec] + extra, [("in.csv", simple)], 0)
                st["evaluations"] += 1
                st["cli-corpus-" + status] += 1
                if status in ("panic", "timeout"):
                    res.violation("failing-input", "acb -b %r %s: %s %s" % (spec, " ".join(extra), status, info[:300]),
                                  {"args": ["-b", spec] + extra, "input": simple.decode(), "actual_impl": info})
        # fixed corpus: summary modes on a gain traded in December and settled in January (the yearly bookkeeping of
        # --summarize-annual-gains is keyed by settlement year), for several dates and both affiliates' kinds
        yb = (b"security,trade date,settlement date,action,shares,amount/share,affiliate\n"
              b"FOO,2019-03-03,2019-03-05,Buy,100,10,\nFOO,2019-03-03,2019-03-05,Buy,50,10,Spouse\n"
              b"FOO,2019-10-01,2019-10-03,Sell,10,15,\nFOO,2019-12-30,2020-01-02,Sell,10,18,\n"
              b"FOO,2019-12-31,2020-01-03,Sell,5,8,Spouse\nFOO,2020-09-01,2020-09-03,Sell,10,20,\n")
        for cut in ("2019-12-31", "2020-01-01", "2020-01-02", "2020-01-03", "2020-06-30", "2021-01-01"):
            for extra in ([], ["--summarize-annual-gains"]):
                args_ = ["--summarize-before", cut] + extra
                status, info, argv = run_cli(bindir, "acb", args_, [("in.csv", yb)], 0)
                st["evaluations"] += 1
                st["cli-corpus-" + status] += 1
                if status in ("panic", "timeout"):
                    res.violation("failing-input", "acb %s: %s %s" % (" ".join(args_), status, info[:300]),
                                  {"args": args_, "input": yb.decode(), "actual_impl": info})
        nb = 150 if tier == "quick" else 3000
        for k in range(nb):
            c = gen.gen_case(rng, p_invalid=0.1)
            text = core.to_csv(c["rows"]).encode()
            if rng.random() < 0.8:
                text = mutate_bytes(rng, text)
            args = []
            if rng.random() < 0.3:
                args += ["--print-full-values"]
            if rng.random() < 0.3:
                args += ["--total-costs"]
            if rng.random() < 0.2:
                args += ["-d", "@OUT@"]
            if rng.random() < 0.25:
                args += ["--summarize-before", rng.choice(["2019-06-01", "2020-01-01", "2021-01-01", "1900-01-01", "2100-12-31"])]
                if rng.random() < 0.5:
                    args += ["--summarize-annual-gains"]
            if rng.random() < 0.15:
                args += ["--date-fmt", rng.choice(["[year]-[month]-[day]", "[day]/[month]/[year]", "[month padding:none]/[day]/[year]", "[bogus]", "[year]"])]
            if rng.random() < 0.2:
                args += ["-b", rng.choice(["FOO:10:100", "FOO:0:0", "FOO:1.5:0.01", "BAR:3:9", "FOO:x:1", "FOO:1", ":1:1", "FOO:-1:1", "FOO:99999999999.9999999999:99999999999.99",
                                         " FOO:10:100", "FOO :10:100", "\tFOO:1:1", "FOO: 10 :100", "FOO:10:100 ", "foo:10:100", "FOO:10:100:7", "::", "FOO:1e3:1"])]
            status, info, argv = run_cli(bindir, "acb", args, [("in.csv", text)], k)
            st["evaluations"] += 1
            st["cli-" + status] += 1
            if status in ("panic", "timeout"):
                cls = classify_panic(info) if status == "panic" else None
                if cls in known_ids:
                    known_hit[cls] += 1
                else:
                    res.violation("failing-input", "acb %s: %s %s" % (" ".join(args), status, info[:300]),
                                  {"args": args, "input_bytes_hex": text.hex(), "actual_impl": info})
        # the other front ends on garbage / truncated inputs
        for k in range(20 if tier == "quick" else 200):
            junk = bytes(rng.randrange(256) for _ in range(rng.choice([0, 1, 50, 3000])))
            # (.pdf inputs go through an external Python PDF reader located relative to the
            #  repository's own target directory: outside what a /verif build can exercise)
            for name, fn, args in (("tx-export-convert", "a.xlsx", []), ("etrade-plan-pdf-tx-extract", "a.txt", [])):
                if not os.path.exists(os.path.join(bindir, name)):
                    continue
                content = junk if fn != "a.txt" else bytes(rng.choice(b"RSU Release Date 01-02-2020 Shares $1,234.50 Trade Confirmation ESPP\n ") for _ in range(rng.choice([0, 10, 400])))
                status, info, argv = run_cli(bindir, name, args, [(fn, content)], k)
                st["evaluations"] += 1
                st["%s-%s" % (name, status)] += 1
                if status in ("panic", "timeout"):
                    cls = "frontend-" + name
                    if cls in known_ids:
                        known_hit[cls] += 1
                    else:
                        res.violation("failing-input", "%s on a malformed %s: %s %s" % (name, fn, status, info[:300]),
                                      {"program": name, "file": fn, "input_bytes_hex": content.hex()[:4000], "actual_impl": info})
        # structured Questrade sheets with damaged cells (non-ASCII dates and numbers, wrong cell types, blanks,
        # huge and non-finite numbers) through sheet_to_txs of the library: a diagnostic per row, never a panic
        try:
            import common as _common
            import props.c18 as c18
            qexe, _qlog = _common.build_harness("questrade")
            WEIRD = [{"s": "2023\u5e741\u67085\u65e5"}, {"s": "\uff12\uff10\uff12\uff13-01-05"}, {"s": "2023-01-0\u00e9"}, {"s": ""},
                     {"s": "\u00e9"}, {"s": "\u00a0"}, {"s": "1,234.50"}, {"s": "\u22125"}, {"f": "1e300"}, {"f": "inf"}, {"f": "NaN"},
                     {"f": "-0"}, {"i": 2 ** 62}, {"i": -1}, {"b": True}, None, {"s": "x" * 300}, {"s": "2023-13-45"}, {"s": "2023-1-5"},
                     {"s": "12/31/2023 12:00:00 AM"}, {"s": "2023-01-05 \u00e0 10h"}, {"s": "\U0001F4B0\U0001F4B0\U0001F4B0\U0001F4B0"},
                     {"s": "20230105"}, {"s": "0.1.2"}, {"s": "1e5"}, {"s": "--1"}, {"s": "+"}]
            qcases = []
            for k in range(60 if tier == "quick" else 600):
                acts = c18.gen_activities(rng, well_formed=(rng.random() < 0.6))
                sheet = c18.build_sheet(acts, c18.gen_style(rng), c18.gen_layout(rng))
                if len(sheet) < 2:
                    continue
                for _ in range(rng.choice([1, 1, 2, 4])):
                    r_ = rng.randrange(0 if rng.random() < 0.1 else 1, len(sheet))
                    c_ = rng.randrange(len(sheet[r_]))
                    sheet[r_] = list(sheet[r_])
                    sheet[r_][c_] = rng.choice(WEIRD)
                qcases.append({"cells": sheet, "sort": rng.random() < 0.8})
            # every odd value once in each cell the converter reads, of a well-formed two-row export
            lay = c18.canonical_layout()
            base_acts = [a for a in c18.gen_activities(rng, well_formed=True)][:2]
            if base_acts:
                for ci, col in enumerate(lay):
                    if col[1] not in c18.USED:
                        continue
                    for w in WEIRD:
                        sheet = [list(r) for r in c18.build_sheet(base_acts, {"num": "float", "acct_int": False, "empty_str": False}, lay)]
                        sheet[1][ci] = w
                        qcases.append({"cells": sheet, "sort": True})
            # regression (fix b2d4739): a conversion pair whose foreign-currency row has a net amount of 0
            zp = [a for a in c18.corpus() if any(x.get("net") == "0" and x.get("action") == "FXT" for x in a["acts"])]
            for c_ in zp:
                qcases.append({"cells": c18.build_sheet(c_["acts"], c_["style"], c_["layout"]), "sort": True})
                st["questrade-zero-fxt-regression"] += 1
            # regression (fix a3a1a71): a worksheet without any cell (a range of width zero)
            qcases.append({"cells": [], "sort": True})
            if qexe is not None and qcases:
                for qc, o in zip(qcases, run_harness(qexe, "qt_sheet", qcases)):
                    st["evaluations"] += 1
                    st["questrade-sheet-" + str(o.get("status"))] += 1
                    if o.get("status") == "panic":
                        res.violation("failing-input", "Questrade sheet with a damaged cell: panic %s" % str(o.get("panic"))[:300],
                                      {"program": "sheet_to_txs (tx-export-convert)", "cells": qc["cells"], "actual_impl": o.get("panic")})
            else:
                st["questrade-sheets-unavailable"] += 1
        except ImportError:
            st["questrade-sheets-unavailable"] += 1
        # structured documents of the E*TRADE front end (rendered by the C19 generators: RSU / ESPP / ESO
        # confirmations with one to three grants, pre- and post-2023 trade confirmations), then damaged the
        # way a text extraction damages them: lines dropped, duplicated, swapped, cut, a section repeated
        try:
            import etrade as E
            import props.c19 as c19
            docs = []
            d0 = E.datetime.date(2024, 2, 20).toordinal()
            for ng in (1, 2, 3):
                docs.append(("eso", E.render({"kind": "eso", "style": ng % 2, "rec": dict(
                    sym="FOO", date=d0, extype="Same-Day Sale", shares_sold="30",
                    grants=[dict(num=str(1234 + i), fmv="105.61", shares="10", sale="106.36", fee="4.17") for i in range(ng)])})))
            for c in c19.corpus()[:12] + [c19.gen_case(rng) for _ in range(10 if tier == "quick" else 80)]:
                for f in c["files"]:
                    docs.append((f["kind"], E.render(f)))
        except Exception as e:   # the generators belong to another group: their absence must not hide C05's own findings
            docs = []
            st["structured-docs-unavailable"] += 1
        # every single-line deletion of one document per kind and of every ESO document (a row of one
        # grant lost by the text extraction), then random damage
        singles = []
        seen_kind = set()
        for kind, text in docs:
            if kind == "eso" or kind not in seen_kind:
                seen_kind.add(kind)
                ls = text.split("\n")
                singles += [(kind, "\n".join(ls[:i] + ls[i + 1:])) for i in range(len(ls)) if ls[i].strip()]
        if tier == "quick" and len(singles) > 260:
            singles = rng.sample(singles, 260)
        for k in range(len(singles) + (120 if tier == "quick" else 1500)):
            if not docs or not os.path.exists(os.path.join(bindir, "etrade-plan-pdf-tx-extract")):
                break
            if k < len(singles):
                kind, text = singles[k]
                lines = None
            else:
                kind, text = rng.choice(docs)
                lines = text.split("\n")
            for _ in range(rng.choice([1, 1, 2, 3]) if lines is not None else 0):
                if not lines:
                    break
                m = rng.random()
                i = rng.randrange(len(lines))
                if m < 0.4:
                    del lines[i]
                elif m < 0.55:
                    lines.insert(i, lines[i])
                elif m < 0.7:
                    j = rng.randrange(len(lines))
                    lines[i], lines[j] = lines[j], lines[i]
                elif m < 0.8:
                    lines[i] = lines[i][: rng.randint(0, max(0, len(lines[i]) - 1))]
                elif m < 0.9:
                    lines = lines[:i]
                else:
                    j = rng.randrange(len(lines))
                    lines[i:i] = lines[min(i, j):max(i, j)]
            content = ("\n".join(lines) if lines is not None else text).encode()
            args = rng.choice([[], [], ["--extract-only"], ["--pretty"]])
            status, info, argv = run_cli(bindir, "etrade-plan-pdf-tx-extract", args, [("doc.txt", content)], k)
            st["evaluations"] += 1
            st["etrade-structured-%s-%s" % (kind, status)] += 1
            if status in ("panic", "timeout"):
                res.violation("failing-input", "etrade-plan-pdf-tx-extract %s on a damaged %s confirmation: %s %s" % (" ".join(args), kind, status, info[:300]),
                              {"program": "etrade-plan-pdf-tx-extract", "args": args, "input": content.decode("utf-8", "replace"), "actual_impl": info})
    # ---- fixed findings: the old witnesses are regression cases that must now be ACCEPTED; the
    # witnesses of eff-cent-zero and split-residue-assert also as model rows, with the rows the model
    # reports (rounded; for eff-cent-zero also exact)
    import datetime
    for k in load_fixed("C05"):
        w = k.get("witness", {})
        if "csv" not in w:
            continue
        name = k.get("id", k["commit"])
        cases = [{"files": [w["csv"]], "rows": [], "inits": {}}]
        if name == "eff-cent-zero":
            day = lambda y, m_, d_: datetime.date(y, m_, d_).toordinal()
            cases.append({"inits": {}, "rows": [
                {"sec": "FOO", "td": day(2020, 1, 2), "sd": day(2020, 1, 4), "act": "Buy", "sh": core.D(2), "aps": core.D(10000000001, 10),
                 "com": None, "cur": None, "rate": None, "af": None},
                {"sec": "FOO", "td": day(2020, 1, 10), "sd": day(2020, 1, 12), "act": "Sell", "sh": core.D(5, 1), "aps": core.D(1),
                 "com": None, "cur": None, "rate": None, "af": None}]})
        if name == "split-residue-assert":
            # the old witness and the smallest history of the defect as model rows: accepted, every row
            # reported, rows as the model's (rounded), the all-affiliate balance EQUAL to the single
            # affiliate's on every row (C05_split_residue_witness_accepted)
            day = lambda y, m_, d_: datetime.date(y, m_, d_).toordinal()
            def _w(y, m_, d_, act, **kw):
                x = {"sec": "FOO", "td": day(y, m_, d_), "sd": day(y, m_, d_), "act": act, "com": None, "cur": None, "rate": None, "af": None}
                x.update(kw)
                return x
            cases.append({"inits": {}, "rows": [
                _w(2019, 4, 5, "Buy", sh=core.D(8532706, 4), aps=core.D(244231, 2), cur="USD", rate=core.D(11251, 4), af="B"),
                _w(2019, 6, 4, "Split", split=("1.0", "3.0"))]})
            cases.append({"inits": {}, "rows": [
                _w(2020, 1, 2, "Buy", sh=core.D(10), aps=core.D(1)),
                _w(2020, 2, 3, "Split", split=("4", "3")),
                _w(2020, 3, 2, "Buy", sh=core.D(1), aps=core.D(1))]})
            cases.append({"inits": {}, "rows": [
                _w(2020, 1, 2, "Buy", sh=core.D(10), aps=core.D(1)),
                _w(2020, 2, 3, "Split", split=("4", "3")),
                _w(2020, 3, 2, "Sell", sh=core.D(1), aps=core.D(2)),
                _w(2020, 3, 20, "RoC", aps=core.D(1, 2)),
                _w(2020, 4, 2, "Buy", sh=core.D(25, 1), aps=core.D(1))]})
        for n_, r in enumerate(corecheck.run_cases(ctx, cases, want_exact=True)):
            st["evaluations"] += 1
            st["fixed-witness-replayed"] += 1
            i, m, mx = r["impl"], r["dec"], r["exact"]
            bad = None
            if name == "split-residue-assert" and n_ >= 1 and i["status"] == "ok" and all(sc["stop"][0] == 0 for sc in i["secs"].values()):
                d = core.diff_exact(m, i)
                rows = [dl for sc in i["secs"].values() for dl in sc["deltas"]]
                if d is not None:
                    bad = "the witness of the fixed finding %s: model and implementation differ: %s" % (name, d)
                elif len(rows) != len(r["case"]["rows"]):
                    bad = "the witness of the fixed finding %s is accepted with %d rows, %d expected" % (name, len(rows), len(r["case"]["rows"]))
                elif any(dl["post"][0] != dl["post"][1] for dl in rows):
                    bad = "the witness of the fixed finding %s: the all-affiliate balance differs from the single affiliate's balance: %s" % (
                        name, [(str(dl["post"][0]), str(dl["post"][1])) for dl in rows if dl["post"][0] != dl["post"][1]][:2])
                if bad:
                    res.violation("failing-input", bad, {"input": r["hc"], "actual_impl": str(r["raw"])[:1500], "model": str(m)[:600]})
                continue
            if i["status"] == "panic":
                bad = "the witness of the fixed finding %s panics again: %s" % (name, i["panic"][:300])
            elif i["status"] != "ok" or any(sc["stop"][0] != 0 for sc in i["secs"].values()):
                bad = "the witness of the fixed finding %s is not accepted: %s" % (name, str(i.get("msg") or [sc.get("msg") for sc in i["secs"].values()])[:300])
            elif n_ == 1:
                d = core.diff_exact(m, i) or core.diff_exact(mx, i, fields=("act", "af", "sfl", "sfla"))
                rows = [dl for sc in i["secs"].values() for dl in sc["deltas"]]
                if d is not None:
                    bad = "the witness of the fixed finding %s: model and implementation differ: %s" % (name, d)
                elif (len(rows) != 2 or any(dl["sfl"] is not None for dl in rows) or any(dl["sfla"] for dl in rows)
                      or rows[1]["gain"] != Fraction(-1, 20000000000)):
                    # C05_effective_cent_witness_accepted: the purchase and the sale, no superficial loss
                    # on the sale, no adjustment row, the whole loss is the capital gain
                    bad = "the witness of eff-cent-zero is accepted with unexpected rows: %s" % str(rows)[:400]
            if bad:
                res.violation("failing-input", bad, {"input": r["hc"], "actual_impl": str(r["raw"])[:1500], "model": str(m)[:600]})
    # ---- known findings: replay the witnesses
    for k in known:
        w = k.get("witness", {})
        still = None
        if "csv" in w:
            o = corecheck.run_cases(ctx, [{"files": [w["csv"]], "rows": [], "inits": {}}])[0]["raw"]
            still = o["status"] == "panic" and classify_panic(o["panic"]) == k["id"]
        if still or known_hit[k["id"]]:
            res.known("%s (witness %s; %d generated cases this run)" % (k["what"], "still panics" if still else "not replayed" if still is None else "no longer panics", known_hit[k["id"]]))
    if corr and not res.violations:
        r, d = corr[0]
        res.violation("broken-correspondence", "model (dec) and implementation differ: " + d,
                      {"theorem_or_projection": "correspondence projection C05 (outcome class incl. panic prediction)", "input": r["hc"], "difference": d}, found_input=False)
    res.coverage.update({
        "evaluations": st["evaluations"],
        "distinct_nontrivial": max(st["distinct_nontrivial"], 0) + st["cli-diagnostic"],
        "rule": "(a) library entry points on seeded histories incl. in-range extremes (magnitudes up to 1e12, 10 decimals, tiny values): every panic must be predicted by the model under rust_decimal rounding and fall in a listed class; (b) the acb binary on byte-mutated CSV files with random option combinations (--summarize-before, --summarize-annual-gains, --total-costs, --print-full-values, --date-fmt, -b, -d); (c) tx-export-convert and etrade-plan-pdf-tx-extract on garbage; non-trivial = inputs ending in a diagnostic or panic",
        "samples": samples or [{"note": "see input_distribution"}],
        "input_distribution": dict(sorted(st.items())),
        "known_findings_replayed": dict(known_hit),
        "traces_validated_against_impl": st["evaluations"],
    })
    res.assumptions += ["'whatever the bytes' for csv / regex / json / clap / office / lopdf / tabled is exercised by fuzzing only (testing, not proof); stack / heap exhaustion is not covered"]


def replay(res, ctx, path):
    return corecheck.replay(res, ctx, path)
