# C02 - superficial-loss rule: 30-day window, min(sold, acquired, held) ratio.
import collections
import random
from fractions import Fraction

import core
import corecheck
import renderoracle
import gen

TOL = Fraction(1, 10 ** 9)
ZERO = Fraction(0)
ONE = Fraction(1)


def q_of(d):
    return [Fraction(x) if isinstance(x, str) else x for x in (d["q"] or [])]


def rule_for_sale(ds, i):
    """the declarative rule, evaluated on the implementation's own report rows
    (settlement dates, quantities as parsed, share balances as reported)"""
    d = ds[i]
    sd = d["sd"]
    sold = q_of(d)[0]

    def factor(x):
        q = q_of(x)
        return q[0] / q[1]

    W = [j for j in range(len(ds)) if j != i and abs(ds[j]["sd"] - sd) <= 30 and ds[j]["act"] != "SfLA"]

    def adj(j, af):
        f = ONE
        if j < i:
            for k in range(j + 1, i):
                if ds[k]["act"] == "Split" and ds[k]["af"] == af:
                    f *= factor(ds[k])
        else:
            for k in range(i + 1, j):
                if ds[k]["act"] == "Split" and ds[k]["af"] == af:
                    f /= factor(ds[k])
        return f

    acquired = sum((q_of(ds[j])[0] * adj(j, ds[j]["af"]) for j in W if ds[j]["act"] == "Buy"), ZERO)
    later = [j for j in W if j > i]
    # rows generated for this sale sit between it and the later rows; they do not move shares
    last = max(later) if later else i
    bal = {}
    for k in range(0, last + 1):
        bal[ds[k]["af"]] = ds[k]["post"][0]
    held = ZERO
    eop = {}
    for af, b in bal.items():
        e = b * adj(last + 1, af) if last > i else b
        eop[af] = e
        held += e
    buyers = sorted(set(ds[j]["af"] for j in W if ds[j]["act"] == "Buy"))
    return acquired, held, buyers, eop, sold


def round2(x):
    m = x * 100
    s = 1 if m >= 0 else -1
    m = abs(m)
    fl = m.numerator // m.denominator
    if m - fl >= Fraction(1, 2):
        fl += 1
    return Fraction(s * fl, 100)


def check_security(res, r, sname, so, st):
    ds = so["deltas"]
    spec_rows = {}
    rows = [x for x in r["case"]["rows"] if x["sec"] == sname]
    for i, d in enumerate(ds):
        if d["act"] != "Sell" or d["reg"] or d["gain"] is None:
            continue
        denied = d["sfl"][0] if d["sfl"] else ZERO
        loss = d["gain"] + denied
        if loss >= 0:
            continue
        st["loss_sales"] += 1
        acquired, held, buyers, eop, sold = rule_for_sale(ds, i)
        offs = set(abs(ds[j]["sd"] - d["sd"]) for j in range(len(ds)) if j != i and ds[j]["act"] == "Buy")
        if offs & {0, 29, 30, 31}:
            st["boundary_sales"] += 1
            r["boundary"] = True
        superficial = acquired > 0 and held > 0
        # user supplied value on this row?
        src = [x for k, x in enumerate(r["case"]["rows"]) if k == d["ri"]]
        supplied = src[0].get("sfl") if src and src[0]["act"] == "Sell" else None
        ratio = min(sold, acquired, held) / sold if superficial else ZERO
        computed = loss * ratio
        c2 = round2(computed)
        if abs(c2 - computed) < Fraction(1, 10 ** 10):
            computed = c2
        gen_rows = [x for x in ds[i + 1:] if x["act"] == "SfLA" and x["ri"] == d["ri"]]
        if supplied is not None:
            st["supplied"] += 1
            sv, force = supplied[0][1], supplied[1]
            if not force and abs(computed - sv) > Fraction(1, 1000) + TOL:
                return "row %d: supplied superficial loss %s accepted although the computed one is %s (not forced)" % (i, sv, computed), i
            if abs(denied - sv) > TOL:
                return "row %d: supplied superficial loss %s not used (reported %s)" % (i, sv, denied), i
            if gen_rows:
                return "row %d: automatic adjustments generated although the superficial loss was supplied" % i, i
            continue
        # the effective-cent rule (C02_denied_amount since the fix of C05 eff-cent-zero): a denied amount
        # that rounds to zero effective cents is no superficial loss - nothing denied, no adjustment rows.
        # The implementation rounds the product before it looks at the 1e-10 tolerance: a product within
        # 1e-20 of the tolerance may fall on either side (rust_decimal keeps 28 digits)
        expect_sfl = superficial and computed != 0
        near = superficial and abs(abs(loss * ratio) - Fraction(1, 10 ** 10)) <= Fraction(1, 10 ** 20)
        if expect_sfl != (d["sfl"] is not None) and not near:
            return "row %d (settles %s): rule says %s (acquired %s, held at end of window %s, denied amount %s) but reported %s" % (
                i, core.date_str(d["sd"]), "superficial" if expect_sfl else "not superficial" if not superficial
                else "superficial with a denied amount that rounds to zero effective cents", acquired, held, computed,
                "superficial %s" % denied if d["sfl"] else "not superficial"), i
        if d["sfl"] is None and gen_rows:
            return "row %d: automatic adjustments generated although no superficial loss is reported" % i, i
        if superficial and d["sfl"] is None:
            st["superficial-rounds-to-zero"] += 1
        if superficial and d["sfl"] is not None:
            st["superficial"] += 1
            if abs(denied - computed) > TOL:
                return "row %d: denied amount %s, rule gives loss %s x min(%s, %s, %s)/%s = %s" % (
                    i, denied, loss, sold, acquired, held, sold, computed), i
            if abs(d["sfl"][1] / d["sfl"][2] - ratio) > TOL:
                return "row %d: ratio %s/%s, rule gives %s" % (i, d["sfl"][1], d["sfl"][2], ratio), i
            if abs(d["gain"] - (loss - denied)) > TOL:
                return "row %d: gain is not loss minus denied amount" % i, i
            # distribution over buying affiliates in proportion to end-of-window holdings
            tot = sum((eop.get(a, ZERO) for a in buyers), ZERO)
            if tot > 0:
                for g in gen_rows:
                    exp = -denied * eop.get(g["af"], ZERO) / tot
                    if abs(g["sfla"][0] * g["sfla"][1] - exp) > TOL:
                        return "row %d: adjustment to affiliate %s is %s, rule gives %s" % (i, g["af"], g["sfla"][0] * g["sfla"][1], exp), i
    return None, None


# ---- scans without rounding (theorem C02_dec_scan_exact_without_splits; extraction group
# "dectransfer", entry 1: coq/Exec/CodecDecTransfer.v probe_loop) ----
def parse_probe(ints):
    from common import Reader
    rd = Reader(ints)
    if rd.z() != 1:
        return None
    out = {}
    for _ in range(rd.z()):
        s = rd.z()
        ps = []
        for _ in range(rd.z()):
            ps.append((rd.z(), bool(rd.z()), rd.z(), rd.q(), rd.q()))
        out[s] = ps
    assert rd.done()
    return out


def dec_scan_pass(res, rs, st, bad):
    """at every Sell row of the rounded model run the extracted probe evaluates the hypothesis of the
    theorem (no Split in the two windows, ten-place share counts and balances) on the scan's own
    arguments and runs the scan in EXACT arithmetic from the same state; where the hypothesis holds
    the implementation's decision (superficial or not) and its ratio numerator / denominator must be
    the exact scan's, bit for bit"""
    from common import run_model
    raw = run_model([[1] + core.to_ints(r["case"], 1)[0][1:] for r in rs], group="dectransfer")
    for r, o in zip(rs, raw):
        pr = parse_probe(o)
        i = r["impl"]
        if pr is None or i["status"] != "ok":
            continue
        for s, so in i["secs"].items():
            ds = so["deltas"]
            for n, flag, kind, acq, eop in pr.get(s, []):
                st["dec_scan_sell_rows_probed"] += 1
                if not flag:
                    continue
                st["dec_scan_hypothesis_holds"] += 1
                if n >= len(ds):
                    continue        # the sale itself was rejected: no row
                d = ds[n]
                if d["act"] != "Sell":
                    bad.append((r, "probe index %d of security %s is a %s row" % (n, s, d["act"])))
                    continue
                if d["reg"] or d["gain"] is None:
                    continue
                denied = d["sfl"][0] if d["sfl"] else ZERO
                if d["gain"] + denied >= 0:
                    continue        # no capital loss: the scan is not run
                src = [x for k, x in enumerate(r["case"]["rows"]) if k == d["ri"]]
                if src and src[0]["act"] == "Sell" and src[0].get("sfl") is not None:
                    continue        # user-supplied value
                st["dec_scan_compared"] += 1
                sold = q_of(d)[0]
                what = None
                if kind == 0:
                    if d["sfl"] is not None:
                        what = "the exact scan finds the loss not superficial, reported superficial %s" % denied
                elif kind == 1:
                    st["dec_scan_compared_superficial"] += 1
                    num = min(sold, acq, eop)
                    if d["sfl"] is None:
                        # since the fix of C05 eff-cent-zero a superficial scan whose denied amount rounds to zero
                        # effective cents reports no superficial loss (the theorem is about the scan, not the amount)
                        x = d["gain"] * num / sold
                        if round2(x) == 0 and abs(x) < Fraction(1, 10 ** 10) + Fraction(1, 10 ** 20):
                            st["dec_scan_superficial_rounds_to_zero"] += 1
                        else:
                            what = "the exact scan finds acquired %s, held %s (superficial, denied amount %s), reported not superficial" % (acq, eop, x)
                    elif d["sfl"][1] != num or d["sfl"][2] != sold:
                        what = "ratio reported %s/%s, the exact scan gives min(%s, %s, %s)/%s" % (d["sfl"][1], d["sfl"][2], sold, acq, eop, sold)
                else:
                    what = "the exact scan stops (kind %d) where the implementation emitted the sale" % kind
                if what:
                    res.violation("failing-input",
                                  "security %s row %d: rounding changed the superficial-loss scan of a sale whose window has "
                                  "no split and only ten-place share counts: %s" % (corecheck.sec_name(r, s), n, what),
                                  {"input": r["hc"], "row": n, "theorem": "C02_dec_scan_exact_without_splits"})


def tiny_cases():
    """hand-written: denied amounts around the effective-cent tolerance of 1e-10 (C02_denied_amount, None case
    since the fix of C05 eff-cent-zero: a denied amount that rounds to zero effective cents is no superficial
    loss; C02_rounds_to_zero_nonvacuous is the first one)"""
    b = core.BASE_DAY + 40
    def _r(day, act, sh, aps, af=None):
        return {"sec": "FOO", "td": b + day, "sd": b + day, "act": act, "sh": sh, "aps": aps,
                "com": None, "cur": None, "rate": None, "af": af}
    out = [[_r(0, "Buy", core.D(2), core.D(10000000001, 10)), _r(10, "Sell", core.D(5, 1), core.D(1))]]
    for dust, af in ((core.D(1, 10), None), (core.D(3, 10), None), (core.D(19, 11), None), (core.D(2, 10), None),
                     (core.D(21, 11), None), (core.D(1, 10), "Spouse"), (core.D(5, 10), "Spouse")):
        # loss of 0.50 on one share; [dust] shares bought five days later: denied 0.5 x dust
        out.append([_r(0, "Buy", core.D(10), core.D(10)), _r(100, "Sell", core.D(1), core.D(95, 1)),
                    _r(105, "Buy", dust, core.D(10), af)])
        # ... or five days before
        out.append([_r(0, "Buy", core.D(10), core.D(10)), _r(95, "Buy", dust, core.D(10), af),
                    _r(100, "Sell", core.D(1), core.D(95, 1))])
    return [{"rows": rows, "inits": {}} for rows in out]


def run(res, ctx):
    tier, seed = ctx["tier"], ctx["seed"]
    rng = random.Random(seed * 32452843 + 2)
    probe_bad = []
    st = collections.Counter()
    seen, samples, corr = set(), [], []
    n = 1800 if tier == "quick" else 50000
    done = 0
    while done < n:
        cases = []
        for _ in range(min(600, n - done)):
            k = rng.random()
            rows = gen.gen_history(rng, p_invalid=0.0, p_sfl_spec=(0.25 if k < 0.2 else 0.0),
                                   p_split=0.1, p_roc=0.03, window_focus=(k < 0.85),
                                   terminating_only=(rng.random() < 0.6))
            cases.append({"rows": rows, "inits": {}})
        if done == 0:
            tc = tiny_cases()
            st["tiny-denied-amount-cases"] += len(tc)
            cases += tc
        done += len(cases)
        rs = corecheck.run_cases(ctx, cases, want_exact=True, render=True)
        dec_scan_pass(res, rs, st, probe_bad)
        for r in rs:
            st["evaluations"] += 1
            i = r["impl"]
            # the superficial-loss annotation of the report (amount, ratio, forced / over-applied markers)
            rstat, probs = renderoracle.check_run(r, groups=("sfl",))
            st["report-" + rstat] += 1
            if probs and rstat == "ok":
                res.violation("failing-input", "the report's superficial-loss annotation does not match the ledger: " + probs[0][1],
                              {"input": r["hc"], "problems": [m_ for _, m_ in probs[:5]]})
            d = core.diff_exact(r["dec"], i)
            if d is not None:
                corr.append((r, d))
            st["impl-" + i["status"]] += 1
            if i["status"] != "ok":
                continue
            for s, so in i["secs"].items():
                sname = corecheck.sec_name(r, s)
                if so["stop"][0] != 0:
                    st["rejected-%s" % core.REJ_NAMES.get(so["stop"][1])] += 1
                    continue
                what, row = check_security(res, r, sname, so, st)
                if what:
                    res.violation("failing-input", "security %s %s" % (sname, what),
                                  {"input": r["hc"], "security": sname, "row": row})
            if r.get("boundary") and r["hash"] not in seen:
                seen.add(r["hash"])
                st["distinct_nontrivial"] += 1
                if len(samples) < 3:
                    samples.append({"csv": r["hc"]["files"][0]})
    supplied_variants(res, ctx, st, rng, 250 if tier == "quick" else 2500)
    if tier == "thorough":
        sweep(res, ctx, st)
    if corr and not res.violations:
        r, d = corr[0]
        res.violation("broken-correspondence", "model (dec) and implementation differ: " + d,
                      {"theorem_or_projection": "correspondence projection C02 (gain, denied amount, ratio, over-applied flag, generated rows)",
                       "input": r["hc"], "difference": d, "differing_cases": len(corr)}, found_input=False)
    if probe_bad and not res.violations:
        r, d = probe_bad[0]
        res.violation("broken-correspondence", "the probe of the rounded model run does not line up with the implementation's rows: " + d,
                      {"theorem_or_projection": "C02_dec_scan_exact_without_splits (probe_loop of Exec/CodecDecTransfer.v)",
                       "input": r["hc"], "differing_cases": len(probe_bad)}, found_input=False)
    res.coverage.update({
        "scans_without_rounding": {
            "rule": "Sell rows at which scan_inputs_small (hypothesis of C02_dec_scan_exact_without_splits) holds for the scan's "
                    "own arguments in the rounded run; compared = those with a capital loss and no supplied value: decision and "
                    "ratio numerator/denominator equal to the exact scan bit for bit",
            "sell_rows_probed": st["dec_scan_sell_rows_probed"], "hypothesis_holds": st["dec_scan_hypothesis_holds"],
            "compared": st["dec_scan_compared"], "compared_superficial": st["dec_scan_compared_superficial"]},
        "evaluations": st["evaluations"],
        "distinct_nontrivial": st["distinct_nontrivial"],
        "rule": "seeded random single-security histories, settlement gaps concentrated on {0,1,2,28,29,30,31,32} days, 1-4 affiliates (registered or not), splits (global / per affiliate), fractional quantities, 20% with user-supplied SfL values; non-trivial = contains a loss sale with an acquisition at offset exactly 0, 29, 30 or 31 days; distinct by SHA-1 of the CSV; the declarative rule is evaluated on the implementation's own rows",
        "samples": samples,
        "input_distribution": dict(sorted(st.items())),
        "traces_validated_against_impl": st["evaluations"],
    })


def supplied_variants(res, ctx, st, rng, n):
    """second pass: take generated histories with an automatically detected superficial
    loss and re-run them with a user-supplied value on that sale: equal to the computed
    one, within / beyond the 0.001 tolerance, zero, forced"""
    base = []
    tries = 0
    while len(base) < n and tries < n * 6:
        tries += 1
        rows = gen.gen_history(rng, p_invalid=0.0, p_sfl_spec=0.0, p_split=0.05, p_roc=0.02, window_focus=True,
                               terminating_only=True)
        base.append({"rows": rows, "inits": {}})
    firsts = corecheck.run_cases(ctx, base)
    variants, expect = [], []
    for r in firsts:
        i = r["impl"]
        if i["status"] != "ok" or 0 not in i["secs"] or i["secs"][0]["stop"][0] != 0:
            continue
        for d in i["secs"][0]["deltas"]:
            if d["act"] == "Sell" and d["sfl"] is not None and d["ri"] is not None:
                comp = d["sfl"][0]
                try:
                    core.dtext(comp)
                except ValueError:
                    continue
                cands = [(comp, False, "accept"), (comp + Fraction(1, 2000), False, "accept" if comp + Fraction(1, 2000) <= 0 else None),
                         (comp + Fraction(1, 500), False, "reject" if comp + Fraction(1, 500) <= 0 else None),
                         (Fraction(0), False, "reject" if abs(comp) > Fraction(1, 1000) else "accept"),
                         (Fraction(0), True, "accept"), (comp * 2, True, "accept"),
                         (comp + Fraction(1, 1000), False, "accept"), (comp - Fraction(1, 1000), False, "accept")]
                # the computed value rounded to the cent, and values next to that: within the tolerance of the
                # COMPUTED value or not (a comparison with the rounded value instead would accept up to 0.006 off)
                cent = Fraction(round(comp * 100), 100)
                for c_ in (cent, cent + Fraction(1, 2000), cent - Fraction(1, 2000)):
                    if c_ <= 0:
                        cands.append((c_, False, "accept" if abs(c_ - comp) <= Fraction(1, 1000) else "reject"))
                near_cent = [c for c in cands[8:]]
                picks = rng.sample(cands[:8], 2) + (near_cent[:1] + rng.sample(near_cent, 1) if near_cent else [])
                for sv, force, exp in picks:
                    if exp is None:
                        continue
                    if len(core.dtext(sv).replace("-", "").replace(".", "").lstrip("0")) > 28:
                        continue        # not a rust_decimal literal: the parser itself would round it
                    rows = [dict(x) for x in r["case"]["rows"]]
                    rows[d["ri"]]["sfl"] = ((core.dtext(sv), sv), force)
                    variants.append({"rows": rows, "inits": {}})
                    expect.append((d["ri"], sv, force, exp, comp))
                break
    for r, (ri, sv, force, exp, comp) in zip(corecheck.run_cases(ctx, variants), expect):
        st["evaluations"] += 1
        st["supplied-variant-" + exp] += 1
        i = r["impl"]
        dd = core.diff_exact(r["dec"], i)
        if dd is not None:
            res.violation("broken-correspondence", "model (dec) and implementation differ on a supplied-SfL variant: " + dd,
                          {"theorem_or_projection": "correspondence projection C02", "input": r["hc"]}, found_input=False)
        if i["status"] != "ok":
            continue
        so = i["secs"][0]
        rejected = so["stop"][0] == 1 and so["stop"][1] == 12
        row = [d for d in so["deltas"] if d["ri"] == ri and d["act"] == "Sell"]
        if exp == "reject" and not rejected:
            res.violation("failing-input", "supplied superficial loss %s (not forced) accepted although the computed value is %s (difference > 0.001)" % (sv, comp),
                          {"input": r["hc"], "row": ri})
        elif exp == "accept":
            if rejected and len(so["deltas"]) <= ri + 5 and not row:
                res.violation("failing-input", "supplied superficial loss %s (%s) rejected although within 0.001 of the computed value %s or forced" % (sv, "forced" if force else "not forced", comp),
                              {"input": r["hc"], "row": ri})
            elif row:
                d = row[0]
                denied = d["sfl"][0] if d["sfl"] else ZERO
                if abs(denied - sv) > TOL:
                    res.violation("failing-input", "supplied superficial loss %s not used: reported %s" % (sv, denied), {"input": r["hc"], "row": ri})
                if [x for x in so["deltas"] if x["act"] == "SfLA" and x["ri"] == ri]:
                    res.violation("failing-input", "automatic adjustments generated although the superficial loss was supplied", {"input": r["hc"], "row": ri})


def sweep(res, ctx, st):
    """exhaustive small scope: (buy offset, later-sell offset) in [-33,33]^2 x quantity patterns x who buys"""
    base = core.BASE_DAY + 100
    cases = []
    for bo in range(-33, 34):
        for so_ in range(1, 34, 4):
            for pat in range(4):
                for who in ("", "Spouse", "(R)"):
                    sh_buy = [core.D(10), core.D(3), core.D(25, 1), core.D(10)][pat]
                    sh_sell = [core.D(10), core.D(10), core.D(7), core.D(4)][pat]
                    rows = [
                        {"sec": "FOO", "td": base - 60, "sd": base - 60, "act": "Buy", "sh": core.D(20), "aps": core.D(10), "com": None, "cur": None, "rate": None, "af": None},
                        {"sec": "FOO", "td": base, "sd": base, "act": "Sell", "sh": sh_sell, "aps": core.D(5), "com": None, "cur": None, "rate": None, "af": None},
                        {"sec": "FOO", "td": base + bo, "sd": base + bo, "act": "Buy", "sh": sh_buy, "aps": core.D(6), "com": None, "cur": None, "rate": None, "af": who or None},
                        {"sec": "FOO", "td": base + so_, "sd": base + so_, "act": "Sell", "sh": core.D(1), "aps": core.D(7), "com": None, "cur": None, "rate": None, "af": None},
                    ]
                    cases.append({"rows": rows, "inits": {}})
    for k in range(0, len(cases), 2000):
        for r in corecheck.run_cases(ctx, cases[k:k + 2000]):
            st["sweep"] += 1
            st["evaluations"] += 1
            i = r["impl"]
            if i["status"] != "ok":
                continue
            for s, so in i["secs"].items():
                if so["stop"][0] == 0:
                    what, row = check_security(res, r, "FOO", so, st)
                    if what:
                        res.violation("failing-input", "sweep: " + what, {"input": r["hc"], "row": row})


def replay(res, ctx, path):
    import renderoracle
    def judge(r):
        stat, probs = renderoracle.check_run(r)
        return [m for _, m in probs] if stat == "ok" else []
    return corecheck.replay(res, ctx, path, judge=judge)
