# C17 - total-cost tables show the true maximum cost held.
#
# For every generated history the implementation is run twice on the same CSV
# input (harness mode "costs"): run_acb_app_to_delta_models gives the delta
# lists, run_acb_app_to_render_model(.., render_total_costs = true) gives the
# Total Costs / Yearly Max Costs tables.  From the implementation's own deltas
#   * the L1 model (Model/Costs.v under rust_decimal rounding) must reproduce
#     the tables value for value (correspondence),
#   * the L0 oracle (Python fractions; cross-checked against the extracted
#     Spec/MaxCost.v on every case) states what the property demands: per-day
#     per-security maximum / carried closing cost / opening cost, total = sum,
#     yearly row = a day of the year with the highest total, every other
#     delta listed as ignored.
import collections
import datetime
import hashlib
import json
import random
from fractions import Fraction

import core
import costs
from core import D, BASE_DAY
from common import run_harness, run_model, qenc, Reader

GROUP = "costs"
TOL = Fraction(1, 10 ** 9)
OPS = ["add", "sub", "mul", "div", "round2"]


# ------------------------------------------------------------ arith validation
def validate_arith(exe, rng, n):
    import arithcheck
    cases = [(rng.choice(OPS), arithcheck.gen_operand(rng), arithcheck.gen_operand(rng)) for _ in range(n)]
    impl = run_harness(exe, "arith", [{"op": op, "a": a[0], "b": b[0]} for op, a, b in cases])
    mod = run_model([[4, OPS.index(op)] + qenc(a[1]) + qenc(b[1]) for op, a, b in cases], group=GROUP)
    mism = []
    for (op, a, b), io, mo in zip(cases, impl, mod):
        rd = Reader(mo)
        assert rd.z() == 1
        mv = rd.q() if rd.z() else None
        iv = Fraction(io["r"]) if io.get("r") is not None and io.get("status") != "panic" else None
        if mv != iv:
            mism.append({"op": op, "a": a[0], "b": b[0], "impl": str(iv), "model": str(mv)})
    return {"pairs": n, "mismatches": len(mism), "examples": mism[:3]}


def validate_years(days):
    days = sorted(set(days))
    out = run_model([[2, len(days)] + days], group=GROUP, nproc=1)[0]
    assert out[0] == 1
    bad = [(d, y) for d, y in zip(days, out[1:]) if datetime.date.fromordinal(d).year != y]
    return len(days), bad


# ------------------------------------------------------------ corpus
def row(sec, sd, act, sh=None, aps=None, af=None, td=None, split=None):
    day = datetime.date.fromisoformat(sd).toordinal()
    r = {"sec": sec, "sd": day, "td": datetime.date.fromisoformat(td).toordinal() if td else day - 2,
         "act": act, "af": af, "com": None, "cur": None, "rate": None}
    def num(x):
        if isinstance(x, tuple):
            return x if isinstance(x[0], str) else D(*x)
        return D(x)
    if sh is not None:
        r["sh"] = num(sh)
    if aps is not None:
        r["aps"] = num(aps)
    if split:
        r["split"] = split
    return r


def corpus():
    c = []
    # bought and fully sold on one day, another security settles the next day
    c.append({"name": "round-trip-then-other", "rows": [
        row("AAA", "2022-03-03", "Buy", 10, 10), row("AAA", "2022-03-03", "Sell", 10, 11),
        row("BBB", "2022-03-04", "Buy", 1, 5)], "inits": {}})
    # several settlements on one day with the maximum in the middle
    c.append({"name": "max-in-the-middle", "rows": [
        row("AAA", "2022-03-03", "Buy", 10, 10), row("AAA", "2022-03-03", "Buy", 10, 20),
        row("AAA", "2022-03-03", "Sell", 15, 30), row("BBB", "2022-03-03", "Buy", 2, 7),
        row("BBB", "2022-03-10", "Sell", 1, 7), row("CCC", "2022-03-11", "Buy", 1, 1)], "inits": {}})
    # equal daily totals (yearly tie), years without rows, long gaps
    c.append({"name": "ties-and-gaps", "rows": [
        row("AAA", "2019-03-03", "Buy", 1, 100), row("BBB", "2019-05-03", "Buy", 1, 50),
        row("AAA", "2019-05-03", "Sell", (5, 1), 100), row("AAA", "2019-06-03", "Buy", (5, 1), 100),
        row("BBB", "2019-06-03", "Sell", 1, 50), row("BBB", "2019-06-04", "Buy", 1, 50),
        row("AAA", "2023-01-02", "Sell", 1, 120), row("BBB", "2025-12-31", "Sell", 1, 60)], "inits": {}})
    # other affiliates: registered, spouse, a name starting with "default"
    c.append({"name": "other-affiliates", "rows": [
        row("AAA", "2022-03-03", "Buy", 10, 10), row("AAA", "2022-03-04", "Buy", 5, 10, af="Spouse"),
        row("TFS", "2022-03-04", "Buy", 5, 10, af="(R)"), row("AAA", "2022-03-05", "Buy", 7, 3, af="Defaulty"),
        row("DDD", "2022-03-06", "Buy", 7, 3, af="Defaulty"), row("AAA", "2022-03-07", "Sell", 2, 10, af="Default"),
        row("AAA", "2022-03-08", "Buy", 2, 10, af="Spouse (R)")], "inits": {}})
    # securities held only by a registered affiliate (no counted row at all)
    c.append({"name": "registered-only", "rows": [
        row("RRA", "2022-03-03", "Buy", 10, 10, af="(R)"), row("RRB", "2022-03-03", "Buy", 10, 10, af="(R)"),
        row("RRC", "2022-03-04", "Buy", 10, 10, af="(R)")], "inits": {}})
    # opening position: the opening cost base shows before the first row
    c.append({"name": "opening-position", "rows": [
        row("BBB", "2022-01-05", "Buy", 1, 5), row("AAA", "2022-03-03", "Sell", 10, 11),
        row("BBB", "2022-03-04", "Buy", 1, 5)], "inits": {"AAA": (D(20), D(30000, 2))}})
    # an opening position sold completely: the closing cost 0 is what is carried forward (not the opening cost)
    c.append({"name": "opening-position-sold-out", "rows": [
        row("BBB", "2020-01-06", "Buy", 2, 100), row("AAA", "2020-02-03", "Sell", 10, 60),
        row("BBB", "2020-03-02", "Buy", 1, 10), row("BBB", "2021-06-03", "Sell", 1, 10),
        row("CCC", "2023-05-04", "Buy", 1, 7)], "inits": {"AAA": (D(10), D(50000, 2))}})
    # a split as the only transaction of its day and of its year
    c.append({"name": "lone-split-days", "rows": [
        row("AAA", "2020-03-03", "Buy", 10, 15), row("BBB", "2020-06-03", "Buy", 10, 13),
        row("AAA", "2021-01-11", "Split", split=("2", "1")), row("BBB", "2021-06-03", "Sell", 10, 13),
        row("AAA", "2022-07-04", "Split", split=("3", "2")), row("AAA", "2023-02-02", "Sell", 5, 9)], "inits": {}})
    # a return of capital and a split between purchases, interleaved securities
    c.append({"name": "roc-and-split", "rows": [
        row("AAA", "2022-03-03", "Buy", 10, 10), row("BBB", "2022-03-03", "Buy", 3, 9),
        row("AAA", "2022-04-03", "RoC", None, (50, 2)), row("AAA", "2022-05-03", "Split", split=("2", "1")),
        row("BBB", "2022-05-03", "Sell", 3, 9), row("AAA", "2022-06-03", "Sell", 20, 10)], "inits": {}})
    # a superficial loss: the generated adjustment row raises the cost on the day of the sale
    c.append({"name": "superficial-loss", "rows": [
        row("AAA", "2022-03-03", "Buy", 10, 10), row("AAA", "2022-03-10", "Sell", 5, 5),
        row("AAA", "2022-03-12", "Buy", 5, 6), row("BBB", "2022-03-11", "Buy", 1, 1)], "inits": {}})
    # one security only, one row only
    c.append({"name": "single", "rows": [row("AAA", "2022-03-03", "Buy", 10, 10)], "inits": {}})
    # long decimals (rounded totals)
    c.append({"name": "long-decimals", "rows": [
        row("S0", "2022-03-03", "Buy", 1, (1280739771125299620157533836, 26)),
        row("S1", "2022-03-03", "Buy", 1, (8549256236394592410343690886, 20)),
        row("S2", "2022-03-03", "Buy", 1, (3637610070778545277291862616, 23)),
        row("S3", "2022-03-04", "Buy", 1, 1)], "inits": {}})
    return c


# ------------------------------------------------------------ evaluation
def evaluate(exe, hcases):
    """-> list of dicts: impl tables, model tables, spec tables, oracle, verdicts"""
    raw = run_harness(exe, "costs", hcases)
    outs = []
    jobs = []
    for hc, io in zip(hcases, raw):
        o = {"input": hc, "impl_raw": io, "skip": None}
        outs.append(o)
        if io.get("status") != "ok":
            o["skip"] = "impl-" + str(io.get("status"))
            continue
        full = io["full"]
        if full.get("status") == "panic":
            o["skip"] = "impl-render-panic"
            o["panic"] = full.get("panic")
            continue
        if "err" in full:
            o["skip"] = "impl-render-err"
            continue
        ds, st, at = costs.all_deltas(io)
        names = {d["afname"]: at[d["af"]] for d in ds}
        o.update(ds=ds, st=st, at=at)
        o["impl"] = costs.parse_impl_tables(full, st, names)
        o["oracle"] = costs.oracle(ds, st, at)
        o["chronological"] = costs.chronological(ds, st)
        jobs.append(o)
    mod = run_model([costs.model_input(o["ds"], o["st"], o["at"]) for o in jobs], group=GROUP)
    spec = run_model([costs.spec_input(o["ds"], o["st"], o["at"]) for o in jobs], group=GROUP)
    for o, m, s in zip(jobs, mod, spec):
        o["model"] = costs.parse_tables(m)
        o["spec"] = costs.parse_tables(s, has_status=False)
    return outs


def diff_model(o):
    """model (dec) vs implementation, value for value; None when equal"""
    m, i = o["model"], o["impl"]
    if m["status"] != "ok":
        return "model outcome %s %s, implementation printed tables" % (m["status"], m.get("panic"))
    if m["secs"] != i["secs"] or i["secs"] != i["ysecs"]:
        return "security columns model=%s impl=%s/%s" % (m["secs"], i["secs"], i["ysecs"])
    if len(m["total"]) != len(i["total"]):
        return "number of Total Costs rows model=%d impl=%d" % (len(m["total"]), len(i["total"]))
    for k, (a, b) in enumerate(zip(m["total"], i["total"])):
        if a != b:
            return "Total Costs row %d model=%s impl=%s" % (k, fmt_row(a), fmt_row(b))
    if len(m["yearly"]) != len(i["yearly"]):
        return "number of Yearly Max rows model=%d impl=%d" % (len(m["yearly"]), len(i["yearly"]))
    for k, (a, b) in enumerate(zip(m["yearly"], i["yearly"])):
        if a != b:
            return "Yearly Max row %d model=%s impl=%s" % (k, fmt_row(a), fmt_row(b))
    if sorted(m["notes"]) != sorted(i["notes"]) or sorted(i["notes"]) != sorted(i["ynotes"]):
        return "notes model=%s impl=%s / %s" % (m["notes"], i["notes"], i["ynotes"])
    return None


def diff_spec_oracle(o):
    """extracted Spec/MaxCost.v vs the Python oracle (must be the same function)"""
    s, orc = o["spec"], o["oracle"]
    if s["secs"] != orc["secs"]:
        return "spec securities %s vs oracle %s" % (s["secs"], orc["secs"])
    if s["total"] != orc["total"]:
        return "spec table differs from oracle table"
    if s["notes"] != orc["notes"]:
        return "spec notes differ from oracle notes"
    return None


def fmt_row(r):
    def f(x):
        if isinstance(x, Fraction):
            try:
                return core.dtext(x)
            except ValueError:
                return str(x)
        if isinstance(x, tuple):
            return "[" + ", ".join(f(y) for y in x) + "]"
        if isinstance(x, int) and x > 600000:
            return datetime.date.fromordinal(x).isoformat()
        return str(x)
    return "(" + ", ".join(f(x) for x in r) + ")"


def check_cents(io):
    """the default rendering shows the same tables rounded to cents (half away
    from zero): every money cell of the cents tables is the rounded full value"""
    import decimal
    full, cents = io["full"], io.get("cents") or {}
    if cents.get("status") == "panic" or "err" in cents:
        return ("default (cents) rendering", "tables", cents.get("panic") or cents.get("err"))
    for name, k in (("total", 2), ("yearly", 3)):
        a, b = full[name], cents[name]
        if a["header"] != b["header"] or len(a["rows"]) != len(b["rows"]) or a["notes"] != b["notes"]:
            return ("shape of the %s table rounded to cents" % name, a["header"], b["header"])
        for ra, rb in zip(a["rows"], b["rows"]):
            if ra[:k - 1] != rb[:k - 1]:
                return ("row labels of the %s table rounded to cents" % name, ra[:k - 1], rb[:k - 1])
            for x, y in zip(ra[k - 1:], rb[k - 1:]):
                want = "$" + str(decimal.Decimal(x[1:]).quantize(decimal.Decimal("0.01"), rounding=decimal.ROUND_HALF_UP))
                if y != want:
                    return ("figure rounded to cents in the %s table (%s)" % (name, " ".join(ra[:k - 1])), want, y)
    return None


def check_property(o):
    """the property itself, on the implementation's tables against the L0
    oracle; -> None or (what, expected, actual)"""
    i, orc = o["impl"], o["oracle"]
    c = check_cents(o["impl_raw"])
    if c:
        return c
    secn = {v: k for k, v in o["st"].items()}
    if i["secs"] != orc["secs"] or i["ysecs"] != orc["secs"]:
        return ("security columns", [secn[s] for s in orc["secs"]], [secn[s] for s in i["secs"]])
    idays = [r[0] for r in i["total"]]
    odays = [r[0] for r in orc["total"]]
    if idays != odays:
        return ("dated rows of the Total Costs table", [datetime.date.fromordinal(d).isoformat() for d in odays],
                [datetime.date.fromordinal(d).isoformat() for d in idays])
    for a, b in zip(i["total"], orc["total"]):
        day = datetime.date.fromordinal(a[0]).isoformat()
        for s, x, y in zip(i["secs"], a[2], b[2]):
            if x != y:
                return ("cost of %s on %s" % (secn[s], day), fmt_row((y,)), fmt_row((x,)))
        if abs(a[1] - b[1]) > TOL:
            return ("total on %s (sum of the securities' figures)" % day, fmt_row((b[1],)), fmt_row((a[1],)))
    # yearly: one row per year with a dated row; the row of a day of that year
    # whose total is the highest
    by_day = {r[0]: r for r in i["total"]}
    years = sorted(set(datetime.date.fromordinal(d).year for d in odays))
    if [r[0] for r in i["yearly"]] != years:
        return ("years of the Yearly Max table", years, [r[0] for r in i["yearly"]])
    for r in i["yearly"]:
        y, d = r[0], r[1]
        if d not in by_day or datetime.date.fromordinal(d).year != y:
            return ("day shown for year %d" % y, "a dated row of %d" % y, datetime.date.fromordinal(d).isoformat())
        if (d, r[2], r[3]) != by_day[d]:
            return ("figures of the yearly row %d" % y, fmt_row(by_day[d]), fmt_row((d, r[2], r[3])))
        best = max(x[1] for x in i["total"] if datetime.date.fromordinal(x[0]).year == y)
        obest = max(x[1] for x in orc["total"] if datetime.date.fromordinal(x[0]).year == y)
        if r[2] != best or abs(r[2] - obest) > TOL:
            return ("yearly maximum of %d" % y, fmt_row((obest,)), fmt_row((r[2],)) + " on " + datetime.date.fromordinal(d).isoformat())
    if sorted(i["notes"]) != sorted(orc["notes"]) or sorted(i["ynotes"]) != sorted(orc["notes"]):
        return ("ignored-transaction notes", sorted(orc["notes"]), sorted(i["notes"]))
    return None


def features(o):
    """what mechanism of the property a case reaches"""
    f = set()
    orc = o["oracle"]
    ds = [d for d in o["ds"] if costs.counted(d)]
    if len(orc["secs"]) >= 2:
        f.add("multi-security")
    per = collections.Counter((d["sec"], d["sd"]) for d in ds)
    if any(v >= 2 for v in per.values()):
        f.add("several-settlements-per-day")
    # day maximum differs from the day's closing cost
    last, mx = {}, {}
    for d in ds:
        k = (d["sec"], d["sd"])
        last[k] = Fraction(d["post"])
        mx[k] = max(mx.get(k, Fraction(0)), Fraction(d["post"]))
    diffs = {k for k in last if last[k] != mx[k]}
    if diffs:
        f.add("max-differs-from-closing")
        # ... and the figure is carried into a later day
        days = sorted(set(d["sd"] for d in ds))
        for (sec, sd) in diffs:
            later = [x for x in days if x > sd]
            if later and (sec, later[0]) not in last:
                f.add("carried-after-round-trip")
    days = sorted(set(costs.ordinal(d["sd"]) for d in ds))
    if len(days) >= 2 and any((s, sd) not in per for s in set(d["sec"] for d in ds) for sd in set(d["sd"] for d in ds)):
        f.add("carry-forward")
    ys = sorted(set(datetime.date.fromordinal(d).year for d in days))
    if ys and ys[-1] - ys[0] + 1 > len(ys):
        f.add("year-without-rows")
    if any(b - a >= 200 for a, b in zip(days, days[1:])):
        f.add("long-gap")
    if len(o["ds"]) > len(ds):
        f.add("ignored-rows")
    if any(d["af"].startswith("default") and d["af"] not in ("default", "default (R)") for d in o["ds"]):
        f.add("default-prefixed-affiliate")
    tot = collections.Counter()
    for r in orc["total"]:
        tot[(datetime.date.fromordinal(r[0]).year, r[1])] += 1
    if any(v >= 2 for v in tot.values()):
        f.add("equal-daily-totals")
    if any(d["pre"] not in (None, "0") and d["pre"] is not None and Fraction(d["pre"]) != 0 for d in ds[:1]):
        f.add("opening-cost")
    return f


def shrink(exe, case, still_fails, rounds=6):
    """delete rows while the property still fails on the implementation"""
    cur = case
    for _ in range(rounds):
        rows = cur["rows"]
        if len(rows) <= 1:
            break
        cands = [dict(cur, rows=rows[:k] + rows[k + 1:]) for k in range(len(rows))]
        outs = evaluate(exe, [costs.harness_case(c) for c in cands])
        nxt = None
        for c, o in zip(cands, outs):
            if o["skip"] is None and still_fails(o):
                nxt = c
                break
        if nxt is None:
            break
        cur = nxt
    return cur


def run_batch(res, ctx, cases, label):
    exe = ctx["exe"]
    st = ctx["stats"]
    outs = evaluate(exe, [costs.harness_case(c) for c in cases])
    for c, o in zip(cases, outs):
        st["evaluations"] += 1
        st["source-" + label] += 1
        if o["skip"]:
            st[o["skip"]] += 1
            if o["skip"] == "impl-render-panic":
                ctx["panics"].append((c, o))
            continue
        st["tables"] += 1
        ctx["days"].update(r[0] for r in o["impl"]["total"])
        st["rows_checked"] += len(o["impl"]["total"])
        if not o["chronological"]:
            st["not-chronological"] += 1
            ctx["precond"].append((c, o))
        fs = features(o)
        for f in fs:
            st["feature-" + f] += 1
        h = hashlib.sha1(o["input"]["files"][0].encode() + repr(o["input"]["init"]).encode()).hexdigest()
        if "carry-forward" in fs and "multi-security" in fs and h not in ctx["seen"]:
            ctx["seen"].add(h)
            st["distinct_nontrivial"] += 1
            if len(ctx["samples"]) < 3:
                ctx["samples"].append(o["input"])
        d = diff_spec_oracle(o)
        if d:
            ctx["oracle_diffs"].append((c, o, d))
        d = diff_model(o)
        if d:
            st["correspondence_diffs"] += 1
            ctx["corr_diffs"].append((c, o, d))
        v = check_property(o)
        if v:
            st["property_failures"] += 1
            ctx["failures"].append((c, o, v))


def finding_matches(f, o):
    """executable class predicates of the known findings of C17"""
    cls = f.get("id")
    if cls == "carry-forward-day-maximum":
        return "carried-after-round-trip" in features(o)
    if cls == "default-prefix-affiliate":
        return "default-prefixed-affiliate" in features(o)
    return False


def run(res, ctx):
    tier, seed = ctx["tier"], ctx["seed"]
    rng = random.Random(seed * 104729 + 17)
    ctx.update(stats=collections.Counter(), seen=set(), samples=[], corr_diffs=[], failures=[],
               oracle_diffs=[], precond=[], panics=[], days=set())
    av = validate_arith(ctx["exe"], rng, 8000 if tier == "quick" else 100000)
    if av["mismatches"]:
        res.violation("broken-correspondence", "rust_decimal does not behave like Base/Fit.v fit: %s" % av["examples"],
                      {"theorem_or_projection": "arith validation (dec instance of the model)", "examples": av["examples"]},
                      found_input=False)
    run_batch(res, ctx, corpus(), "corpus")
    n = 1500 if tier == "quick" else 12000
    done = 0
    while done < n:
        k = min(500, n - done)
        cases = []
        for _ in range(k):
            r = rng.random()
            if r < 0.15:
                # dense: few days, many rows per day
                cases.append(costs.gen_case(rng, gaps=[0, 0, 0, 0, 1], n_events=rng.randint(4, 30)))
            elif r < 0.25:
                cases.append(costs.gen_case(rng, gaps=[0, 1, 200, 400, 800, 1500], nsec=rng.choice([2, 3, 4])))
            else:
                cases.append(costs.gen_case(rng))
        run_batch(res, ctx, cases, "random")
        done += k
    long_cases = [costs.gen_case(rng, n_events=rng.choice([80, 150, 300]), nsec=rng.choice([3, 5, 8]))
                  for _ in range(4 if tier == "quick" else 30)]
    run_batch(res, ctx, long_cases, "long")
    st = ctx["stats"]
    import props.c17_cli as c17_cli
    c17_cli.run(res, ctx, rng, st)

    # year_of against the calendar
    sweep = [BASE_DAY - 800000 + 36525 * k + rng.randint(0, 400) for k in range(0, 40)] + \
            [datetime.date(y, m, d).toordinal() for y in (1600, 1900, 2000, 2023, 2024, 2100) for (m, d) in ((1, 1), (2, 28), (3, 1), (12, 31))]
    sweep = [d for d in sweep if d >= 1]
    ny, bad = validate_years(list(ctx["days"]) + sweep)
    if bad:
        res.violation("broken-correspondence", "year_of disagrees with the calendar: %s" % bad[:3],
                      {"theorem_or_projection": "Model/Costs.v year_of", "examples": bad[:5]}, found_input=False)

    known = costs.load_findings("C17")
    reported = set()
    for c, o, v in ctx["failures"]:
        hit = [f for f in known if finding_matches(f, o)]
        if hit:
            for f in hit:
                reported.add(f["id"])
            st["known-finding-cases"] += 1
            continue
        if st["reported"] >= 3:
            continue
        st["reported"] += 1

        def still(o2, what=v[0].split(" ")[0]):
            v2 = check_property(o2)
            return v2 is not None and not any(finding_matches(f, o2) for f in known)
        small = shrink(ctx["exe"], c, still)
        so = evaluate(ctx["exe"], [costs.harness_case(small)])[0]
        sv = check_property(so) or v
        res.violation("failing-input",
                      "total-cost tables: %s: expected %s, the implementation shows %s" % (sv[0], sv[1], sv[2]),
                      {"input": costs.harness_case(small), "figure": sv[0], "expected_spec": sv[1], "actual_impl": sv[2],
                       "impl_tables": so["impl_raw"].get("full"), "original_input": costs.harness_case(c)})
    # each listed finding: replay its witness
    for f in known:
        w = f.get("witness")
        if not w:
            continue
        o = evaluate(ctx["exe"], [w])[0]
        if o["skip"] is None and check_property(o) is not None:
            res.known(f["what"])
        st["known_findings_replayed"] += 1
    if ctx["oracle_diffs"]:
        c, o, d = ctx["oracle_diffs"][0]
        res.violation("broken-correspondence", "the Python oracle and the extracted Spec/MaxCost.v differ: " + d,
                      {"theorem_or_projection": "L0 oracle = Spec/MaxCost.v", "input": o["input"]}, found_input=False)
    if ctx["precond"]:
        c, o, _ = ctx["precond"][0], ctx["precond"][0][1], None
        res.violation("broken-correspondence", "a delta list of the implementation is not in chronological order (precondition of C17_tables_refine_spec)",
                      {"theorem_or_projection": "precondition chronological", "input": ctx["precond"][0][1]["input"]}, found_input=False)
    if ctx["panics"] and not res.violations:
        c, o = ctx["panics"][0]
        res.violation("failing-input", "the total-cost computation panicked: %s" % o.get("panic"),
                      {"input": o["input"], "actual_impl": o.get("panic"), "expected_spec": "tables"})
    if ctx["corr_diffs"] and not any(v[1] for v in res.violations):
        c, o, d = ctx["corr_diffs"][0]
        res.violation("broken-correspondence", "model (dec) and implementation differ: " + d,
                      {"theorem_or_projection": "correspondence projection C17 (security columns, dated rows, yearly rows, notes as a multiset)",
                       "input": o["input"], "difference": d, "differing_cases": len(ctx["corr_diffs"])}, found_input=False)
    res.coverage.update({
        "evaluations": st["evaluations"],
        "distinct_nontrivial": st["distinct_nontrivial"],
        "rule": "seeded multi-security histories on one time line (1-8 securities, several settlements per day, same-day round trips, gaps up to 1500 days, other / registered / default-prefixed affiliates, opening positions, splits, RoC, superficial losses, rejected rows) plus a hand-written corpus; non-trivial = tables produced, >= 2 counted securities and at least one figure carried forward to a day without a settlement of that security; distinct by SHA-1 of the CSV text",
        "samples": ctx["samples"],
        "input_distribution": {k: v for k, v in sorted(st.items())},
        "rows_checked_against_spec": st["rows_checked"],
        "arith_validation": av,
        "year_of_validated_days": ny,
        "known_findings_replayed": st["known_findings_replayed"],
        "traces_validated_against_impl": st["tables"],
    })
    res.assumptions += [
        "the model takes the delta lists from the implementation (run_acb_app_to_delta_models on the same input); the bookkeeping that produces them is the subject of C01-C04",
        "figures are compared as numbers in the full-value rendering; the default rendering is checked cell by cell to be the full value rounded to cents (half away from zero)",
        "totals are compared with the exact sum within 1e-9 (the code adds with rust_decimal rounding); per-security figures are compared exactly",
    ]


def replay(res, ctx, path):
    rep = json.load(open(path))
    o = evaluate(ctx["exe"], [rep["input"]])[0]
    if o["skip"]:
        print("replay: implementation outcome %s" % o["skip"])
        return 1 if o["skip"] == "impl-render-panic" else 0
    v = check_property(o)
    d = diff_model(o)
    if v:
        print("replay: FAILS: %s: expected %s, implementation shows %s" % v)
        return 1
    print("replay: property holds on this input%s" % ("; model and implementation differ: " + d if d else ""))
    return 1 if d else 0
