# C04 - balances never negative; rejected iff impossible, visibly.
import collections
import random
from fractions import Fraction

import core
import corecheck
import gen
from common import build_bins, load_known

LISTED = {4, 5, 6, 7, 8, 10, 11, 12, 15, 16}   # rejection classes the property lists
ZERO = Fraction(0)


def nonterminating_split(case):
    for r in case["rows"]:
        if r["act"] == "Split":
            f = Fraction(r["split"][0]) / Fraction(r["split"][1])
            try:
                core.dtext(f)
            except ValueError:
                return True
    return False


def share_sim_oversale(rows_sorted, init_sh=None):
    """declarative share ledger in exact arithmetic (shares do not depend on
    money): is some sale larger than the holdings / does a whole-number
    reverse split leave a fraction?"""
    bal = collections.defaultdict(Fraction)
    # the holders a split for all affiliates applies to: every affiliate with a row of its own
    # (a blank affiliate cell is the default affiliate, except on the split row itself)
    afs = sorted(set(core.af_id(r["af"] if r.get("af") is not None else "")[0] for r in rows_sorted
                     if not (r["act"] == "Split" and r.get("af") is None)))
    if not afs:
        afs = ["default"]
    if init_sh is not None:
        # an opening position: the default affiliate holds shares before the first row
        bal[core.af_id("")[0]] += init_sh
        if core.af_id("")[0] not in afs:
            afs = sorted(afs + [core.af_id("")[0]])
    for r in rows_sorted:
        a = r["act"]
        af = core.af_id(r["af"] if r.get("af") is not None else "")[0]
        if a == "Buy":
            bal[af] += r["sh"][1]
        elif a == "Sell":
            if r["sh"][1] > bal[af]:
                return "oversale"
            bal[af] -= r["sh"][1]
        elif a == "Split":
            f = Fraction(r["split"][0]) / Fraction(r["split"][1])
            targets = afs if r.get("af") is None else [af]
            for t in targets:
                bal[t] *= f
                if core.split_int_only(*r["split"]) and bal[t].denominator != 1:
                    return "fraction"
    return None


def row_invariants(r, res):
    i = r["impl"]
    if i["status"] != "ok":
        return 0
    n = 0
    for s, so in i["secs"].items():
        latest = {}
        sname = corecheck.sec_name(r, s)
        init = r["case"].get("inits", {}).get(sname)
        if init:
            latest[1000] = init[0][1]
        for k, d in enumerate(so["deltas"]):
            n += 1
            sh, allb, acb = d["post"]
            bad = None
            if sh < 0 or allb < 0 or (acb is not None and acb < 0):
                bad = "negative figure %s" % (d["post"],)
            elif d["reg"] and (acb is not None or d["gain"] is not None):
                bad = "registered affiliate shows a cost base or gain"
            elif not d["reg"] and acb is None:
                bad = "non-registered affiliate without cost base"
            latest[d["af"]] = sh
            tot = sum(latest.values(), ZERO)
            if bad is None and abs(allb - tot) > Fraction(1, 10 ** 9):
                bad = "all-affiliate balance %s is not the sum of latest balances %s" % (allb, tot)
            if bad:
                res.violation("failing-input", "row %d of %s: %s" % (k, sname, bad),
                              {"input": r["hc"], "security": sname, "row": k})
                return n
    return n


def common_run_witness(ctx, csv_text):
    from common import run_harness
    return run_harness(ctx["exe"], "core", [{"files": [csv_text], "init": []}], nproc=1)[0]


def run(res, ctx):
    tier, seed = ctx["tier"], ctx["seed"]
    rng = random.Random(seed * 104729 + 4)
    st = collections.Counter()
    seen = set()
    samples = []
    known = load_known("C04")
    known_ids = {k["id"] for k in known}
    known_hit = collections.Counter()
    corr = []
    n = 400 if tier == "quick" else 5000
    done = 0
    first = True
    while done < n:
        cases = []
        if first:
            first = False
            # crafted (regression of fix 397da52 and its neighbours): a loss sale, then a split, then the
            # sale of EXACTLY the whole position inside the 30-day look-ahead of the loss sale - valid,
            # whatever the ratio; and the same with one share too many - impossible
            for _ in range(40 if tier == "quick" else 400):
                d0 = core.BASE_DAY + rng.randint(10, 300)
                post, pre = rng.choice([("3", "2"), ("1.5", "1"), ("5", "4"), ("2", "1"), ("1", "2"), ("5", "2"), ("1", "4"),
                                        ("25", "2"), ("1", "8"), ("6", "4"), ("10", "1")])
                f = Fraction(post) / Fraction(pre)
                af = rng.choice([None, None, "B"])
                hold = rng.choice([2, 3, 4, 6, 8, 12, 40, 100, 250]) * Fraction(pre) * rng.choice([1, 1, 2])
                lossn = rng.choice([1, 1, 2])
                def _r(day, act, **kw):
                    x = {"sec": "FOO", "td": d0 + day, "sd": d0 + day, "act": act, "com": None, "cur": None, "rate": None, "af": af}
                    x.update(kw)
                    return x
                try:
                    whole = core.dtext(hold * f)
                    over = core.dtext(hold * f + Fraction(1, 1000))
                except ValueError:
                    continue
                rows = [_r(0, "Buy", sh=core.D(int(hold + lossn)), aps=core.D(10)),
                        _r(40, "Sell", sh=core.D(lossn), aps=core.D(5)),
                        _r(40 + rng.randint(1, 20), "Split", split=(post, pre)),
                        _r(40 + rng.randint(21, 30), "Sell", sh=(whole if rng.random() < 0.7 else over, hold * f), aps=core.D(12))]
                rows[3]["sh"] = (rows[3]["sh"][0], Fraction(rows[3]["sh"][0]))
                if rng.random() < 0.3:
                    # a return of capital between the split and the last sale
                    roc = _r(0, "RoC", aps=core.D(1, 2))
                    roc["sd"] = roc["td"] = rows[3]["td"]
                    rows.insert(3, roc)
                cases.append({"rows": rows, "inits": {}})
        for _ in range(min(400, n - done)):
            cases.append(gen.gen_case(rng, p_invalid=rng.choice([0.0, 0.05, 0.3]),
                                      p_sfl_spec=rng.choice([0.0, 0.1]), p_roc=0.12, p_split=0.12))
        done += len(cases)
        for r in corecheck.run_cases(ctx, cases, want_exact=True):
            st["evaluations"] += 1
            i, md, mx = r["impl"], r["dec"], r["exact"]
            d = core.diff_exact(md, i)
            if d is not None:
                corr.append((r, d))
            st["rows"] += row_invariants(r, res)
            if i["status"] == "panic":
                st["impl-panic"] += 1
                continue
            # ---- rejected iff impossible: implementation vs exact-arithmetic decisions
            if i["status"] == "err":
                st["general-error"] += 1
                cls = i["rej"]
                if cls == 17 and "global-split-near" in known_ids:
                    known_hit["global-split-near"] += 1
                else:
                    res.violation("failing-input", "run aborted with a general error (class %s): %s" % (cls, i.get("msg")),
                                  {"input": r["hc"], "actual_impl": i.get("msg")})
                continue
            nontriv = False
            for s, so in i["secs"].items():
                sname = corecheck.sec_name(r, s)
                rejected = so["stop"][0] == 1
                cls = so["stop"][1]
                if rejected:
                    st["rejected-%s" % core.REJ_NAMES.get(cls, cls)] += 1
                    nontriv = True
                else:
                    st["accepted"] += 1
                xs = mx["secs"].get(s) if mx["status"] in ("ok", "panic") and "secs" in mx else None
                if xs is None:
                    continue
                x_rej = xs["stop"][0] == 1
                if rejected and cls == 17 and "global-split-near" in known_ids:
                    known_hit["global-split-near"] += 1
                elif rejected and cls == 1 and nonterminating_split(r["case"]) and "split-residue" in known_ids:
                    known_hit["split-residue"] += 1
                elif rejected and cls not in LISTED:
                    res.violation("failing-input", "security %s rejected for a reason the property does not list (%s): %s" % (sname, core.REJ_NAMES.get(cls, cls), so.get("msg")),
                                  {"input": r["hc"], "security": sname, "actual_impl": so.get("msg")})
                elif rejected != x_rej or (rejected and xs["stop"][1] != cls) or (rejected and len(xs["deltas"]) != len(so["deltas"])):
                    what = "security %s: implementation %s (%s, %d rows) but in exact arithmetic the history is %s (%s, %d rows)" % (
                        sname, "rejects" if rejected else "accepts", core.REJ_NAMES.get(cls, cls), len(so["deltas"]),
                        "rejected" if x_rej else "accepted", core.REJ_NAMES.get(xs["stop"][1], xs["stop"][1]), len(xs["deltas"]))
                    if nonterminating_split(r["case"]) and "split-residue" in known_ids:
                        known_hit["split-residue"] += 1
                    else:
                        res.violation("failing-input", what, {"input": r["hc"], "security": sname,
                                                              "actual_impl": so.get("msg"), "expected_spec": "exact-arithmetic ledger: " + str(xs["stop"])})
                # independent share-ledger oracle for over-sales / fractions
                if rejected and cls in (4, 5, 10, 15, 16) and not nonterminating_split(r["case"]):
                    rows = [x for x in r["case"]["rows"] if x["sec"] == sname]
                    rows_sorted = [x for _, x in sorted(enumerate(rows), key=lambda p: (p[1]["sd"], p[0]))]
                    init0 = r["case"].get("inits", {}).get(sname)
                    if share_sim_oversale(rows_sorted, init0[0][1] if init0 else None) is None:
                        res.violation("failing-input", "security %s rejected (%s) although no sale exceeds the holdings and no whole-number reverse split leaves a fraction" % (sname, core.REJ_NAMES.get(cls)),
                                      {"input": r["hc"], "security": sname, "actual_impl": so.get("msg")})
            if nontriv and r["hash"] not in seen:
                seen.add(r["hash"])
                st["distinct_nontrivial"] += 1
                if len(samples) < 3:
                    samples.append({"csv": r["hc"]["files"][0], "init": r["hc"]["init"]})

    # ---- visibility in every output mode
    bindir, blog = build_bins()
    vis = collections.Counter()
    if bindir is None:
        res.violation("broken-correspondence", "the acb binary does not build", {"theorem_or_projection": "CLI build", "log": blog[-2000:]}, found_input=False)
    else:
        nvis = 25 if tier == "quick" else 150
        tried = 0
        # fixed corpus first: a security rejected at its very FIRST transaction (its table has no
        # data rows), alone, next to a healthy security, and rejected at a later row
        def _row(sec, day, act, sh, aps):
            return {"sec": sec, "td": core.BASE_DAY + day, "sd": core.BASE_DAY + day + 2, "act": act, "sh": core.D(sh),
                    "aps": core.D(aps), "com": None, "cur": None, "rate": None, "af": None}
        corpus = [
            {"rows": [_row("FIRST", 10, "Sell", 5, 3)], "inits": {}},
            {"rows": [_row("FIRST", 10, "Sell", 5, 3), _row("GOOD", 11, "Buy", 5, 3), _row("GOOD", 50, "Sell", 2, 4)], "inits": {}},
            {"rows": [_row("LATE", 10, "Buy", 5, 3), _row("LATE", 20, "Sell", 2, 4), _row("LATE", 30, "Sell", 9, 4)], "inits": {}},
            {"rows": [_row("AAA", 10, "Sell", 1, 1), _row("BBB", 10, "Sell", 1, 1)], "inits": {}},
        ]
        while (corpus or vis["cases"] < nvis) and tried < nvis * 20:
            tried += 1
            c = corpus.pop(0) if corpus else gen.gen_case(rng, p_invalid=rng.choice([0.5, 0.15]))
            r = corecheck.run_cases(ctx, [c], render=True)[0]
            i = r["impl"]
            if i["status"] != "ok":
                continue
            bad = [(s, so) for s, so in i["secs"].items() if so["stop"][0] == 1]
            if not bad:
                continue
            vis["cases"] += 1
            files = r["hc"]["files"]
            initargs = sum((["-b", x] for x in r["hc"]["init"]), [])
            rc1, out1, err1, _ = corecheck.run_acb_cli(bindir, files, ["--print-full-values"] + initargs)
            rc2, out2, err2, outs2 = corecheck.run_acb_cli(bindir, files, ["--print-full-values", "-d", "@OUT@"] + initargs)
            rm = r["raw"].get("render_full", {})
            for s, so in bad:
                sname = corecheck.sec_name(r, s)
                msg = so["msg"]
                first = msg.split("\n")[0]
                if first not in out1 + err1:
                    res.violation("failing-input", "text mode does not show the error of %s" % sname,
                                  {"input": r["hc"], "mode": "text", "message": msg})
                cells = []
                for txt in outs2.values():
                    import csv as _csv, io as _io
                    for rec in _csv.reader(_io.StringIO(txt)):
                        cells += rec
                alltext2 = out2 + err2 + "\n".join(cells)
                if first not in alltext2:
                    if "csv-mode-drops-error" in known_ids:
                        known_hit["csv-mode-drops-error"] += 1
                    else:
                        res.violation("failing-input", "--csv-output-dir mode: the error message of %s reaches neither stdout, stderr nor any output file" % sname,
                                      {"input": r["hc"], "mode": "csv-output-dir", "args": ["-d", "<dir>"], "message": msg,
                                       "stdout": out2[-500:], "files": sorted(outs2)})
                errs = rm.get("secs", {}).get(sname, {}).get("errors", [])
                if msg not in errs:
                    res.violation("failing-input", "render model does not carry the error of %s" % sname,
                                  {"input": r["hc"], "mode": "render-model", "message": msg})
            # the security is left out of every total: its own table shows a zero total and no years
            for s, so in bad:
                sname = corecheck.sec_name(r, s)
                foot = rm.get("secs", {}).get(sname, {}).get("footer")
                if foot and len(foot) > 9:
                    labels = foot[8].split("\n")
                    vals = foot[9].split("\n")
                    if labels != ["Total"] or vals[0].replace("$", "").replace("-", "").strip("0.") != "":
                        res.violation("failing-input", "the rejected security %s still shows capital-gain totals %s / %s" % (sname, labels, vals),
                                      {"input": r["hc"], "security": sname})
            # the security is left out of every total
            agg = rm.get("agg", {}).get("rows", [])
            good_total = ZERO
            for s, so in i["secs"].items():
                if so["stop"][0] == 0:
                    good_total += sum((d["gain"] for d in so["deltas"] if d["gain"] is not None), ZERO)
            if agg:
                m = agg[-1][1].replace("$", "").replace(",", "")
                if abs(Fraction(m) - good_total) > Fraction(1, 10 ** 9):
                    res.violation("failing-input", "aggregate 'Since inception' %s differs from the sum over error-free securities %s" % (m, good_total),
                                  {"input": r["hc"]})

    # replay the witness of every listed finding on the current tree
    for k in known:
        w = k.get("witness", {})
        still = False
        if "csv" in w:
            o = common_run_witness(ctx, w["csv"])
            exp = k.get("expect", {})
            if "general_error_class" in exp:
                still = o["status"] == "err" and core.rej_class(o.get("err", "")) == exp["general_error_class"]
            elif "security_rejected_class" in exp:
                still = o["status"] == "ok" and any(
                    v["err"] is not None and core.rej_class(v["err"]) == exp["security_rejected_class"]
                    for v in o["secs"].values())
        if still or known_hit[k["id"]]:
            res.known("%s (witness %s; seen in %d generated cases this run)" % (
                k["what"], "still fails" if still else "no longer fails", known_hit[k["id"]]))
    if corr and not res.violations:
        r, d = corr[0]
        res.violation("broken-correspondence", "model (dec) and implementation differ: " + d,
                      {"theorem_or_projection": "correspondence projection C04 (outcome class, emitted prefix rows)",
                       "input": r["hc"], "difference": d, "differing_cases": len(corr)}, found_input=False)
    res.coverage.update({
        "evaluations": st["evaluations"] + vis["cases"],
        "distinct_nontrivial": st["distinct_nontrivial"],
        "rule": "seeded random histories, valid and invalid (over-sales, RoC above ACB, RoC/SfLA on registered, whole-number reverse splits, declared SfL); non-trivial = at least one rejected security; distinct by SHA-1 of the CSV text; plus CLI runs in text and --csv-output-dir mode and the render model for rejecting inputs",
        "samples": samples,
        "input_distribution": dict(sorted(st.items())),
        "visibility_cases": vis["cases"],
        "known_findings_replayed": dict(known_hit),
        "traces_validated_against_impl": st["evaluations"],
    })
    res.assumptions += [
        "'rejected iff impossible' is decided by comparing the implementation's decision with the exact-arithmetic model and an independent exact share ledger, not by a theorem",
        "visibility is observed on the real binary / render model per mode; the writers (tabled, csv) are not modelled",
    ]
