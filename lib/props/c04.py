# C04 - balances never negative; rejected iff impossible, visibly.
import collections
import random
from fractions import Fraction

import core
from rates import fit as rates_fit
import corecheck
import gen
from common import build_bins, load_known, run_model, Reader

LISTED = {4, 5, 6, 7, 8, 10, 11, 12, 15, 16}   # rejection classes the property lists
ZERO = Fraction(0)


def nonterminating_split(case):
    for r in case["rows"]:
        if r["act"] == "Split":
            f = Fraction(r["split"][0]) / Fraction(r["split"][1])
            try:
                core.dtext(f)
            except ValueError:
                return True
    return False


def load_fragment(prop):
    """(findings, fixed) of a property from its fragment known-findings.d/<prop>.json - the source
    known-findings.json is assembled from.  A finding of the fragment replaces the assembled entry of the
    same id (class text / witness narrowed by a repair), whatever an older assembled file says."""
    import json
    import os
    from common import VERIF
    p = os.path.join(VERIF, "known-findings.d", prop + ".json")
    if not os.path.exists(p):
        return [], []
    j = json.load(open(p))
    return ([k for k in j.get("findings", []) if k.get("property") == prop],
            [k for k in j.get("fixed", []) if k.get("property") == prop])


def residue_known(case, sname):
    """the narrowed class split-residue: a split with a non-terminating factor AND rows of at least two
    affiliates of the security (the all-affiliate balance is a running rounded value that can drift from
    the sum of the affiliates' balances).  For a single affiliate the repair 50e93b7 makes the
    all-affiliate balance equal the affiliate's own balance exactly: a sanity rejection there is a
    violation."""
    import residuegen
    return nonterminating_split(case) and residuegen.n_affiliates(case, sname) >= 2


def share_sim_oversale(rows_sorted, init_sh=None):
    """declarative share ledger in exact arithmetic (shares do not depend on
    money): is some sale larger than the holdings / does a whole-number
    reverse split leave a fraction?"""
    bal = collections.defaultdict(Fraction)
    # the holders a split for all affiliates applies to: every affiliate with a row of its own
    # (a blank affiliate cell is the default affiliate, except on the split row itself)
    afs = sorted(set(core.af_id(r["af"] if r.get("af") is not None else "")[0] for r in rows_sorted
                     if not (r["act"] == "Split" and r.get("af") is None)))
    if not afs:
        afs = ["default"]
    if init_sh is not None:
        # an opening position: the default affiliate holds shares before the first row
        bal[core.af_id("")[0]] += init_sh
        if core.af_id("")[0] not in afs:
            afs = sorted(afs + [core.af_id("")[0]])
    for r in rows_sorted:
        a = r["act"]
        af = core.af_id(r["af"] if r.get("af") is not None else "")[0]
        if a == "Buy":
            bal[af] += r["sh"][1]
        elif a == "Sell":
            if r["sh"][1] > bal[af]:
                return "oversale"
            bal[af] -= r["sh"][1]
        elif a == "Split":
            f = Fraction(r["split"][0]) / Fraction(r["split"][1])
            targets = afs if r.get("af") is None else [af]
            for t in targets:
                bal[t] *= f
                if core.split_int_only(*r["split"]) and bal[t].denominator != 1:
                    return "fraction"
    return None


# ---- the declarative walk of Spec/Possible.v (extraction group "possible") ----
OFFENCE_OF_REJ = {4: 4, 5: 4, 6: 6, 7: 7, 8: 8, 10: 10, 11: 11, 12: 12}   # rejection class -> offence class


def parse_possible(ints):
    """output of Exec/CodecPossible.dispatch -> {security number: verdict}"""
    rd = Reader(ints)
    if rd.z() != 1:
        return None
    secs = {}
    for _ in range(rd.z()):
        s, rstat, flag, cls, ng = rd.z(), rd.z(), rd.z(), rd.z(), rd.z()
        groups = []
        for _ in range(ng):
            g = []
            for _ in range(rd.z()):
                act, af, denied, sh, aps = core.ACTS[rd.z()], rd.z(), rd.q(), rd.q(), rd.q()
                g.append({"act": act, "af": af, "denied": denied, "amount": sh * aps})
            groups.append(g)
        secs[s] = {"rstat": rstat, "offence": (ng, cls) if flag else None, "groups": groups}
    assert rd.done()
    return secs


def possible_corpus():
    """hand-written boundary histories: one accepted (superficial loss shared by two buying
    affiliates), one per rejection class, over-sales reported early by the look-ahead (alone, and
    with another impossible transaction in between), a global split with an opening position"""
    def row(day, act, sh=None, aps=None, af=None, sfl=None, split=None, sec="CRP"):
        r = {"sec": sec, "td": core.BASE_DAY + day, "sd": core.BASE_DAY + day, "act": act,
             "com": None, "cur": None, "rate": None, "af": af}
        if sh is not None:
            r["sh"] = core.D(sh)
        if aps is not None:
            r["aps"] = core.D(aps)
        if sfl is not None:
            r["sfl"] = (core.D(sfl[0]), sfl[1])
        if split is not None:
            r["split"] = split
        return r
    H = [
        [row(90, "Buy", 20, 10, "Spouse"), row(100, "Buy", 10, 10), row(110, "Sell", 4, 5), row(112, "Buy", 3, 5, "Spouse"),
         row(115, "Buy", 1, 5), row(120, "Sell", 3, 5), row(150, "RoC", None, 1)],
        [row(10, "Buy", 10, 3), row(20, "Sell", 4, 5), row(30, "Sell", 7, 5)],
        [row(10, "Buy", 10, 3), row(20, "RoC", None, 5)],
        [row(10, "Buy", 10, 3, "(R)"), row(20, "RoC", None, 1, "(R)")],
        [row(10, "Buy", 10, 3, "(R)"), row(20, "SfLA", 1, 1, "(R)")],
        [row(10, "Buy", 10, 3), row(20, "Split", af="Default", split=("1", "3"))],
        [row(10, "Buy", 10, 3), row(20, "Sell", 4, 5, sfl=(-1, False))],
        [row(10, "Buy", 10, 10), row(20, "Sell", 4, 5, sfl=(-1, False))],
        [row(10, "Buy", 10, 10), row(20, "Sell", 4, 5, sfl=(-1, True))],
        [row(100, "Buy", 10, 10), row(110, "Sell", 4, 5), row(115, "Buy", 1, 5), row(120, "Sell", 8, 5)],
        [row(90, "Buy", 20, 10, "Spouse"), row(100, "Buy", 10, 10), row(110, "Sell", 4, 5), row(115, "Buy", 1, 5), row(120, "Sell", 8, 5)],
        [row(100, "Buy", 10, 10), row(110, "Sell", 4, 5), row(112, "RoC", None, 50), row(120, "Sell", 8, 5)],
        [row(100, "Buy", 10, 10), row(110, "Sell", 4, 5), row(112, "Split", af="Default", split=("2", "1")), row(120, "Sell", 13, 5)],
        [row(100, "Buy", 10, 10), row(110, "Sell", 4, 5), row(112, "Split", af="Default", split=("2", "1")), row(120, "Sell", 12, 5)],
        [row(10, "Buy", 10, 3, "(R)"), row(20, "Sell", 4, 5, "(R)", sfl=(-1, False))],
    ]
    cases = [{"rows": h, "inits": {}} for h in H]
    cases.append({"rows": [row(100, "Buy", 20, 10, "Spouse"), row(120, "Split", split=("2", "1")), row(130, "Sell", 10, 4, "Spouse")],
                  "inits": {"CRP": (core.D(10), core.D(100))}})
    # denied amounts that round to zero effective cents (accepted since the fix of C05 eff-cent-zero; the walk
    # of Spec/Possible.v: nothing denied, no adjustment rows) and just above the tolerance
    for dust in (core.D(1, 10), core.D(3, 10)):
        cases.append({"rows": [row(10, "Buy", 10, 10), row(100, "Sell", 1, None), dict(row(105, "Buy", None, 10), sh=dust)], "inits": {}})
        cases[-1]["rows"][1]["aps"] = core.D(95, 1)
    cases.append({"rows": [dict(row(10, "Buy", 2, None), aps=core.D(10000000001, 10)), dict(row(20, "Sell", None, 1), sh=core.D(5, 1))], "inits": {}})
    return cases


def possible_pass(r, poss, res, st, known_ids, known_hit):
    """the implementation's accept/reject decision, rejection class, number of emitted rows and
    the emitted rows' kind / affiliate / denied amount / adjustment amount against first_offence
    and possible_rows evaluated by the extracted declarative walk (theorems
    C04_rejection_matches_offence, C04_rejected_iff_offending, C04_accepted_iff_possible)"""
    i, mx = r["impl"], r.get("exact")
    if poss is None:
        res.violation("broken-correspondence", "the extracted declarative walk did not evaluate the case",
                      {"theorem_or_projection": "Exec/CodecPossible.dispatch", "input": r["hc"]}, found_input=False)
        return
    if i["status"] != "ok":
        return
    residue = nonterminating_split(r["case"])
    tol = Fraction(1, 10 ** 6)
    for s, so in i["secs"].items():
        sname = corecheck.sec_name(r, s)
        ps = poss.get(s)
        if ps is None:
            continue
        xs = mx["secs"].get(s) if mx and "secs" in mx else None
        if (mx and mx["status"] == "panic") or (xs is not None and xs["stop"][0] == 2):
            st["possible-skipped-exact-panic"] += 1      # hypothesis of the theorems: no effective-cent panic
            continue
        rejected, cls = so["stop"][0] == 1, so["stop"][1]
        nimpl = len(so["deltas"])
        flat = [x for g in ps["groups"] for x in g]
        cum = [0]
        for g in ps["groups"]:
            cum.append(cum[-1] + len(g))
        off = ps["offence"]
        bad = None
        if ps["rstat"] == 1:
            if not (rejected and cls == 17):
                bad = "the global-split expansion rejects the security but the implementation %s" % (
                    "rejects it with class %s" % core.REJ_NAMES.get(cls, cls) if rejected else "accepts it")
        elif rejected and cls not in LISTED:
            continue                                      # reported (or known) by the decision check above
        elif not rejected:
            if off is not None:
                bad = "accepted, but input row %d is impossible (class %s)" % (off[0], core.REJ_NAMES.get(off[1], off[1]))
            elif nimpl != len(flat):
                bad = "accepted with %d rows, the declarative walk has %d effective rows" % (nimpl, len(flat))
        elif off is None:
            bad = "rejected (%s) although the history contains no impossible transaction" % core.REJ_NAMES.get(cls, cls)
        elif cls in (15, 16):
            st["possible-early-report"] += 1
            ok = [k for k in range(off[0] + 1) if cum[k] == nimpl and (k == off[0] or ps["groups"][k][0]["act"] == "Sell")]
            if not ok:
                bad = "over-sale reported early with %d rows emitted: not the effective rows before a sale at or before the first impossible row %d (group sizes %s)" % (
                    nimpl, off[0], [len(g) for g in ps["groups"]])
        else:
            if OFFENCE_OF_REJ[cls] != off[1]:
                bad = "rejected as %s but the first impossible transaction (input row %d) is of class %s" % (
                    core.REJ_NAMES.get(cls, cls), off[0], core.REJ_NAMES.get(off[1], off[1]))
            elif nimpl != len(flat):
                bad = "rejected (%s) after %d rows, but %d effective rows precede the first impossible transaction (input row %d)" % (
                    core.REJ_NAMES.get(cls, cls), nimpl, len(flat), off[0])
        if bad is None and ps["rstat"] == 0:
            for k, d in enumerate(so["deltas"]):
                if k >= len(flat):
                    break
                e = flat[k]
                st["possible-rows-compared"] += 1
                denied = d["sfl"][0] if d["sfl"] else ZERO
                if d["act"] != e["act"] or d["af"] != e["af"]:
                    bad = "emitted row %d is %s of affiliate %s, the declarative walk has %s of %s" % (k, d["act"], d["af"], e["act"], e["af"])
                elif abs(denied - e["denied"]) > tol:
                    bad = "emitted row %d: denied (superficial) amount %s, the declarative rule gives %s" % (k, denied, e["denied"])
                elif d["act"] == "SfLA" and d["sfla"] is not None and abs(d["sfla"][0] * d["sfla"][1] - e["amount"]) > tol:
                    bad = "emitted row %d: cost-base adjustment %s, the declarative rule gives %s" % (k, d["sfla"][0] * d["sfla"][1], e["amount"])
                if bad:
                    break
        st["possible-compared"] += 1
        if bad:
            if residue and "split-residue" in known_ids:
                known_hit["split-residue"] += 1
            else:
                res.violation("failing-input", "security %s: %s" % (sname, bad),
                              {"input": r["hc"], "security": sname, "actual_impl": so.get("msg"),
                               "expected_spec": "first_offence / possible_rows (Spec/Possible.v): offence %s, group sizes %s" % (
                                   off, [len(g) for g in ps["groups"]])})


def row_invariants(r, res):
    i = r["impl"]
    if i["status"] != "ok":
        return 0
    n = 0
    for s, so in i["secs"].items():
        latest = {}
        sname = corecheck.sec_name(r, s)
        init = r["case"].get("inits", {}).get(sname)
        if init:
            latest[1000] = init[0][1]
        for k, d in enumerate(so["deltas"]):
            n += 1
            sh, allb, acb = d["post"]
            bad = None
            if sh < 0 or allb < 0 or (acb is not None and acb < 0):
                bad = "negative figure %s" % (d["post"],)
            elif d["reg"] and (acb is not None or d["gain"] is not None):
                bad = "registered affiliate shows a cost base or gain"
            elif not d["reg"] and acb is None:
                bad = "non-registered affiliate without cost base"
            latest[d["af"]] = sh
            tot = sum(latest.values(), ZERO)
            if bad is None and abs(allb - tot) > Fraction(1, 10 ** 9):
                bad = "all-affiliate balance %s is not the sum of latest balances %s" % (allb, tot)
            if bad:
                res.violation("failing-input", "row %d of %s: %s" % (k, sname, bad),
                              {"input": r["hc"], "security": sname, "row": k})
                return n
    return n


def common_run_witness(ctx, csv_text):
    from common import run_harness
    return run_harness(ctx["exe"], "core", [{"files": [csv_text], "init": []}], nproc=1)[0]


def run(res, ctx):
    tier, seed = ctx["tier"], ctx["seed"]
    rng = random.Random(seed * 104729 + 4)
    st = collections.Counter()
    seen = set()
    samples = []
    frag, fixed = load_fragment("C04")
    frag_ids = {k["id"]: k for k in frag}
    known = [frag_ids.get(k["id"], k) for k in load_known("C04")]
    known_ids = {k["id"] for k in known}
    known_hit = collections.Counter()
    corr = []
    n = 400 if tier == "quick" else 25000
    done = 0
    first = True
    while done < n:
        cases = []
        if first:
            first = False
            cases += possible_corpus()      # hand-written boundary histories for the first_offence pass
            # regression of fix 50e93b7 (the repaired part of the finding split-residue): after a split with a
            # non-terminating factor the all-affiliate balance of a single affiliate equals its own balance, so
            # the next valid row is not rejected by the sanity check; the old witness first
            import residuegen
            d0 = core.BASE_DAY + 400
            def _s(day, act, **kw):
                x = {"sec": "FOO", "td": d0 + day, "sd": d0 + day, "act": act, "com": None, "cur": None, "rate": None, "af": None}
                x.update(kw)
                return x
            cases.append({"rows": [_s(0, "Buy", sh=core.D(205, 1), aps=core.D(1)), _s(30, "Split", split=("1.0", "3.0")),
                                   _s(60, "RoC", aps=core.D(1, 2))], "inits": {}, "residue_fixed": True})
            cases.append({"rows": [_s(0, "Buy", sh=core.D(10), aps=core.D(1)), _s(30, "Split", split=("4", "3")),
                                   _s(60, "Buy", sh=core.D(1), aps=core.D(1)), _s(70, "Sell", sh=core.D(2), aps=core.D(3)),
                                   _s(80, "RoC", aps=core.D(1, 2))], "inits": {}, "residue_fixed": True})
            for _ in range(60 if tier == "quick" else 1500):
                single = rng.random() < 0.6
                afs = rng.choice([[None], ["B"], ["Spouse"]]) if single else None
                cases.append({"rows": residuegen.residue_history(rng, afs=afs), "inits": {}, "residue_fixed": single})
                st["residue-histories"] += 1
            # crafted (regression of fix 397da52 and its neighbours): a loss sale, then a split, then the
            # sale of EXACTLY the whole position inside the 30-day look-ahead of the loss sale - valid,
            # whatever the ratio; and the same with one share too many - impossible
            for _ in range(40 if tier == "quick" else 400):
                d0 = core.BASE_DAY + rng.randint(10, 300)
                post, pre = rng.choice([("3", "2"), ("1.5", "1"), ("5", "4"), ("2", "1"), ("1", "2"), ("5", "2"), ("1", "4"),
                                        ("25", "2"), ("1", "8"), ("6", "4"), ("10", "1")])
                f = Fraction(post) / Fraction(pre)
                af = rng.choice([None, None, "B"])
                hold = rng.choice([2, 3, 4, 6, 8, 12, 40, 100, 250]) * Fraction(pre) * rng.choice([1, 1, 2])
                lossn = rng.choice([1, 1, 2])
                def _r(day, act, **kw):
                    x = {"sec": "FOO", "td": d0 + day, "sd": d0 + day, "act": act, "com": None, "cur": None, "rate": None, "af": af}
                    x.update(kw)
                    return x
                try:
                    whole = core.dtext(hold * f)
                    over = core.dtext(hold * f + Fraction(1, 1000))
                except ValueError:
                    continue
                rows = [_r(0, "Buy", sh=core.D(int(hold + lossn)), aps=core.D(10)),
                        _r(40, "Sell", sh=core.D(lossn), aps=core.D(5)),
                        _r(40 + rng.randint(1, 20), "Split", split=(post, pre)),
                        _r(40 + rng.randint(21, 30), "Sell", sh=(whole if rng.random() < 0.7 else over, hold * f), aps=core.D(12))]
                rows[3]["sh"] = (rows[3]["sh"][0], Fraction(rows[3]["sh"][0]))
                if rng.random() < 0.3:
                    # a return of capital between the split and the last sale
                    roc = _r(0, "RoC", aps=core.D(1, 2))
                    roc["sd"] = roc["td"] = rows[3]["td"]
                    rows.insert(3, roc)
                cases.append({"rows": rows, "inits": {}})
            # crafted boundaries of the listed rejections: a return of capital of EXACTLY the cost base (valid),
            # one cent more (impossible), a return of capital while nothing is held (0 of 0: valid), a sale of
            # exactly the holdings / a hair more
            for _ in range(30 if tier == "quick" else 300):
                d0 = core.BASE_DAY + rng.randint(10, 300)
                nsh, px = rng.choice([1, 4, 10, 25]), rng.choice([2, 5, 20])
                af = rng.choice([None, None, "B"])
                def _q(day, act, **kw):
                    x = {"sec": "FOO", "td": d0 + day, "sd": d0 + day, "act": act, "com": None, "cur": None, "rate": None, "af": af}
                    x.update(kw)
                    return x
                kind = rng.choice(["roc-equal", "roc-over", "roc-zero-held", "sell-exact", "sell-over", "roc-fx-under", "roc-fx-over",
                                   "reverse-split-whole", "reverse-split-whole"])
                rows = [_q(0, "Buy", sh=core.D(nsh), aps=core.D(px))]
                if kind == "roc-equal":
                    rows += [_q(10, "RoC", aps=core.D(px)), _q(20, "Sell", sh=core.D(nsh), aps=core.D(px + 1))]
                elif kind == "roc-over":
                    rows += [_q(10, "RoC", aps=core.D(px * 100 + 1, 2)), _q(20, "Sell", sh=core.D(1), aps=core.D(px))]
                elif kind == "roc-fx-under":
                    # foreign currency below par: more than the cost base in USD, less in CAD (valid)
                    rows += [_q(10, "RoC", aps=core.D(px * 101, 2), cur="USD", rate=core.D(98, 2)),
                             _q(20, "Sell", sh=core.D(nsh), aps=core.D(px + 1))]
                elif kind == "roc-fx-over":
                    # foreign currency above par: less than the cost base in USD, more in CAD (impossible)
                    rows += [_q(10, "RoC", aps=core.D(px * 80, 2), cur="USD", rate=core.D(135, 2)),
                             _q(20, "Sell", sh=core.D(1), aps=core.D(px))]
                elif kind == "reverse-split-whole":
                    # a whole-number reverse split with a factor that is not a finite decimal, of a holding it divides
                    # evenly (valid: 6 shares through 1-for-3 are 2 shares), then a sale of what is left
                    den = rng.choice([3, 7, 6, 9])
                    mult = rng.choice([1, 2, 5])
                    rows = [_q(0, "Buy", sh=core.D(den * mult), aps=core.D(px)),
                            dict(_q(30, "Split"), split=("1", str(den))),
                            _q(60, "Sell", sh=core.D(mult), aps=core.D(px * den + 1))]
                elif kind == "roc-zero-held":
                    rows += [_q(10, "Sell", sh=core.D(nsh), aps=core.D(px + 1)), _q(50, "RoC", aps=core.D(1)),
                             _q(60, "Buy", sh=core.D(1), aps=core.D(px))]
                elif kind == "sell-exact":
                    rows += [_q(10, "Buy", sh=core.D(5, 1), aps=core.D(px)), _q(20, "Sell", sh=core.D(nsh * 10 + 5, 1), aps=core.D(px + 1))]
                else:
                    rows += [_q(20, "Sell", sh=core.D(nsh * 10000 + 1, 4), aps=core.D(px + 1))]
                cases.append({"rows": rows, "inits": {}})
        for _ in range(min(400, n - done)):
            cases.append(gen.gen_case(rng, p_invalid=rng.choice([0.0, 0.05, 0.3]),
                                      p_sfl_spec=rng.choice([0.0, 0.1]), p_roc=0.12, p_split=0.12))
        done += len(cases)
        poss_raw = run_model([core.to_ints(c, 0)[0] for c in cases], group="possible")
        for k, r in enumerate(corecheck.run_cases(ctx, cases, want_exact=True)):
            st["evaluations"] += 1
            i, md, mx = r["impl"], r["dec"], r["exact"]
            possible_pass(r, parse_possible(poss_raw[k]), res, st, known_ids, known_hit)
            d = core.diff_exact(md, i)
            if d is not None:
                corr.append((r, d))
            st["rows"] += row_invariants(r, res)
            if i["status"] == "panic":
                st["impl-panic"] += 1
                if r["case"].get("residue_fixed") is not None:
                    res.violation("failing-input", "panic on a history with a non-terminating split factor (fix 50e93b7): %s" % i["panic"][:300],
                                  {"input": r["hc"], "actual_impl": i["panic"]})
                continue
            if r["case"].get("residue_fixed") and i["status"] == "ok":
                # single affiliate: C04_single_affiliate_no_residue - the all-affiliate balance IS the
                # affiliate's balance on every row, and no row is rejected by the sanity check
                st["residue-single-affiliate"] += 1
                for s_, so_ in i["secs"].items():
                    badrow = [d for d in so_["deltas"] if d["post"][0] != d["post"][1]]
                    sanity = so_["stop"][0] == 1 and so_["stop"][1] == 1     # other rejections: the regular passes judge them
                    if badrow or sanity:
                        res.violation("failing-input", "single affiliate, non-terminating split factor: %s" % (
                            "rejected by the sanity check: %s" % so_.get("msg") if sanity else
                            "all-affiliate balance %s differs from the affiliate's balance %s" % (badrow[0]["post"][1], badrow[0]["post"][0])),
                                      {"input": r["hc"], "actual_impl": so_.get("msg")})
            # ---- rejected iff impossible: implementation vs exact-arithmetic decisions
            if i["status"] == "err":
                st["general-error"] += 1
                cls = i["rej"]
                if cls == 17 and "global-split-near" in known_ids:
                    known_hit["global-split-near"] += 1
                else:
                    res.violation("failing-input", "run aborted with a general error (class %s): %s" % (cls, i.get("msg")),
                                  {"input": r["hc"], "actual_impl": i.get("msg")})
                continue
            nontriv = False
            for s, so in i["secs"].items():
                sname = corecheck.sec_name(r, s)
                rejected = so["stop"][0] == 1
                cls = so["stop"][1]
                if rejected:
                    st["rejected-%s" % core.REJ_NAMES.get(cls, cls)] += 1
                    nontriv = True
                else:
                    st["accepted"] += 1
                xs = mx["secs"].get(s) if mx["status"] in ("ok", "panic") and "secs" in mx else None
                if xs is None:
                    continue
                x_rej = xs["stop"][0] == 1
                if rejected and cls == 17 and "global-split-near" in known_ids:
                    known_hit["global-split-near"] += 1
                elif rejected and cls == 1 and residue_known(r["case"], sname) and "split-residue" in known_ids:
                    known_hit["split-residue"] += 1
                elif rejected and cls not in LISTED:
                    res.violation("failing-input", "security %s rejected for a reason the property does not list (%s): %s" % (sname, core.REJ_NAMES.get(cls, cls), so.get("msg")),
                                  {"input": r["hc"], "security": sname, "actual_impl": so.get("msg")})
                elif rejected != x_rej or (rejected and xs["stop"][1] != cls) or (rejected and len(xs["deltas"]) != len(so["deltas"])):
                    what = "security %s: implementation %s (%s, %d rows) but in exact arithmetic the history is %s (%s, %d rows)" % (
                        sname, "rejects" if rejected else "accepts", core.REJ_NAMES.get(cls, cls), len(so["deltas"]),
                        "rejected" if x_rej else "accepted", core.REJ_NAMES.get(xs["stop"][1], xs["stop"][1]), len(xs["deltas"]))
                    # the known class is about balances that are themselves ROUNDED: when every share balance of the
                    # exact run is a 28-digit decimal (6 shares through 1-for-3 are exactly 2) nothing excuses a
                    # different decision
                    # ... (6 shares through 1-for-3 are exactly 2) - and likewise when the decision of the MODEL under
                    # rust_decimal rounding is not the implementation's: then rounding of the modelled arithmetic
                    # does not explain the difference (a look-ahead through such a split rounds too, with decimal balances)
                    rounded_balance = any(rates_fit(v) != v for d_ in xs["deltas"] for v in (d_["post"][0], d_["post"][1]) if v is not None)
                    md_ = r["dec"]["secs"].get(s) if r["dec"].get("status") in ("ok", "panic") and "secs" in r["dec"] else None
                    dec_explains = md_ is not None and list(md_["stop"][:2]) == list(so["stop"][:2]) and len(md_["deltas"]) == len(so["deltas"])
                    if nonterminating_split(r["case"]) and (rounded_balance or dec_explains) and "split-residue" in known_ids:
                        known_hit["split-residue"] += 1
                    else:
                        res.violation("failing-input", what, {"input": r["hc"], "security": sname,
                                                              "actual_impl": so.get("msg"), "expected_spec": "exact-arithmetic ledger: " + str(xs["stop"])})
                # independent share-ledger oracle for over-sales / fractions
                if rejected and cls in (4, 5, 10, 15, 16) and not nonterminating_split(r["case"]):
                    rows = [x for x in r["case"]["rows"] if x["sec"] == sname]
                    rows_sorted = [x for _, x in sorted(enumerate(rows), key=lambda p: (p[1]["sd"], p[0]))]
                    init0 = r["case"].get("inits", {}).get(sname)
                    if share_sim_oversale(rows_sorted, init0[0][1] if init0 else None) is None:
                        res.violation("failing-input", "security %s rejected (%s) although no sale exceeds the holdings and no whole-number reverse split leaves a fraction" % (sname, core.REJ_NAMES.get(cls)),
                                      {"input": r["hc"], "security": sname, "actual_impl": so.get("msg")})
            if nontriv and r["hash"] not in seen:
                seen.add(r["hash"])
                st["distinct_nontrivial"] += 1
                if len(samples) < 3:
                    samples.append({"csv": r["hc"]["files"][0], "init": r["hc"]["init"]})

    # ---- visibility in every output mode
    bindir, blog = build_bins()
    vis = collections.Counter()
    if bindir is None:
        res.violation("broken-correspondence", "the acb binary does not build", {"theorem_or_projection": "CLI build", "log": blog[-2000:]}, found_input=False)
    else:
        nvis = 25 if tier == "quick" else 150
        tried = 0
        # fixed corpus first: a security rejected at its very FIRST transaction (its table has no
        # data rows), alone, next to a healthy security, and rejected at a later row
        def _row(sec, day, act, sh, aps):
            return {"sec": sec, "td": core.BASE_DAY + day, "sd": core.BASE_DAY + day + 2, "act": act, "sh": core.D(sh),
                    "aps": core.D(aps), "com": None, "cur": None, "rate": None, "af": None}
        corpus = [
            {"rows": [_row("FIRST", 10, "Sell", 5, 3)], "inits": {}},
            {"rows": [_row("FIRST", 10, "Sell", 5, 3), _row("GOOD", 11, "Buy", 5, 3), _row("GOOD", 50, "Sell", 2, 4)], "inits": {}},
            {"rows": [_row("LATE", 10, "Buy", 5, 3), _row("LATE", 20, "Sell", 2, 4), _row("LATE", 30, "Sell", 9, 4)], "inits": {}},
            {"rows": [_row("AAA", 10, "Sell", 1, 1), _row("BBB", 10, "Sell", 1, 1)], "inits": {}},
        ]
        while (corpus or vis["cases"] < nvis) and tried < nvis * 20:
            tried += 1
            c = corpus.pop(0) if corpus else gen.gen_case(rng, p_invalid=rng.choice([0.5, 0.15]))
            r = corecheck.run_cases(ctx, [c], render=True)[0]
            i = r["impl"]
            if i["status"] != "ok":
                continue
            bad = [(s, so) for s, so in i["secs"].items() if so["stop"][0] == 1]
            if not bad:
                continue
            vis["cases"] += 1
            files = r["hc"]["files"]
            initargs = sum((["-b", x] for x in r["hc"]["init"]), [])
            rc1, out1, err1, _ = corecheck.run_acb_cli(bindir, files, ["--print-full-values"] + initargs)
            rc2, out2, err2, outs2 = corecheck.run_acb_cli(bindir, files, ["--print-full-values", "-d", "@OUT@"] + initargs)
            rm = r["raw"].get("render_full", {})
            for s, so in bad:
                sname = corecheck.sec_name(r, s)
                msg = so["msg"]
                first = msg.split("\n")[0]
                if first not in out1 + err1:
                    res.violation("failing-input", "text mode does not show the error of %s" % sname,
                                  {"input": r["hc"], "mode": "text", "message": msg})
                cells = []
                for txt in outs2.values():
                    import csv as _csv, io as _io
                    for rec in _csv.reader(_io.StringIO(txt)):
                        cells += rec
                alltext2 = out2 + err2 + "\n".join(cells)
                if first not in alltext2:
                    if "csv-mode-drops-error" in known_ids:
                        known_hit["csv-mode-drops-error"] += 1
                    else:
                        res.violation("failing-input", "--csv-output-dir mode: the error message of %s reaches neither stdout, stderr nor any output file" % sname,
                                      {"input": r["hc"], "mode": "csv-output-dir", "args": ["-d", "<dir>"], "message": msg,
                                       "stdout": out2[-500:], "files": sorted(outs2)})
                errs = rm.get("secs", {}).get(sname, {}).get("errors", [])
                if msg not in errs:
                    res.violation("failing-input", "render model does not carry the error of %s" % sname,
                                  {"input": r["hc"], "mode": "render-model", "message": msg})
            # the security is left out of every total: its own table shows a zero total and no years
            for s, so in bad:
                sname = corecheck.sec_name(r, s)
                foot = rm.get("secs", {}).get(sname, {}).get("footer")
                if foot and len(foot) > 9:
                    labels = foot[8].split("\n")
                    vals = foot[9].split("\n")
                    if labels != ["Total"] or vals[0].replace("$", "").replace("-", "").strip("0.") != "":
                        res.violation("failing-input", "the rejected security %s still shows capital-gain totals %s / %s" % (sname, labels, vals),
                                      {"input": r["hc"], "security": sname})
            # the security is left out of every total
            agg = rm.get("agg", {}).get("rows", [])
            good_total = ZERO
            for s, so in i["secs"].items():
                if so["stop"][0] == 0:
                    good_total += sum((d["gain"] for d in so["deltas"] if d["gain"] is not None), ZERO)
            if agg:
                m = agg[-1][1].replace("$", "").replace(",", "")
                if abs(Fraction(m) - good_total) > Fraction(1, 10 ** 9):
                    res.violation("failing-input", "aggregate 'Since inception' %s differs from the sum over error-free securities %s" % (m, good_total),
                                  {"input": r["hc"]})

    # the writers inside the model (Model/Output.v): files, records, sections and closing line of the real binary
    import outputmodel
    outputmodel.check_pass(res, ctx, "C04", rng)
    # fixed findings with a witness: regression cases that must now be ACCEPTED
    for k in fixed:
        w = k.get("witness", {})
        if "csv" not in w:
            continue
        o = common_run_witness(ctx, w["csv"])
        st["fixed-witness-replayed"] += 1
        if o["status"] != "ok" or any(v["err"] is not None for v in o["secs"].values()):
            res.violation("failing-input", "the witness of the fixed finding %s (%s) is not accepted: %s" % (
                k.get("id"), k["commit"], str(o.get("err") or o.get("panic") or [v["err"] for v in o.get("secs", {}).values()])[:300]),
                          {"input": {"files": [w["csv"]]}, "actual_impl": str(o)[:1500]})
    # replay the witness of every listed finding on the current tree
    for k in known:
        w = k.get("witness", {})
        still = False
        if "csv" in w:
            o = common_run_witness(ctx, w["csv"])
            exp = k.get("expect", {})
            if "general_error_class" in exp:
                still = o["status"] == "err" and core.rej_class(o.get("err", "")) == exp["general_error_class"]
            elif "security_rejected_class" in exp:
                still = o["status"] == "ok" and any(
                    v["err"] is not None and core.rej_class(v["err"]) == exp["security_rejected_class"]
                    for v in o["secs"].values())
        if still or known_hit[k["id"]]:
            res.known("%s (witness %s; seen in %d generated cases this run)" % (
                k["what"], "still fails" if still else "no longer fails", known_hit[k["id"]]))
    if corr and not res.violations:
        r, d = corr[0]
        res.violation("broken-correspondence", "model (dec) and implementation differ: " + d,
                      {"theorem_or_projection": "correspondence projection C04 (outcome class, emitted prefix rows)",
                       "input": r["hc"], "difference": d, "differing_cases": len(corr)}, found_input=False)
    res.coverage.update({
        "evaluations": st["evaluations"] + vis["cases"],
        "distinct_nontrivial": st["distinct_nontrivial"],
        "rule": "seeded random histories, valid and invalid (over-sales, RoC above ACB, RoC/SfLA on registered, whole-number reverse splits, declared SfL); non-trivial = at least one rejected security; distinct by SHA-1 of the CSV text; plus CLI runs in text and --csv-output-dir mode and the render model for rejecting inputs",
        "samples": samples,
        "input_distribution": dict(sorted(st.items())),
        "visibility_cases": vis["cases"],
        "known_findings_replayed": dict(known_hit),
        "traces_validated_against_impl": st["evaluations"],
        "first_offence_comparisons": st["possible-compared"],
        "first_offence_rows_compared": st["possible-rows-compared"],
        "first_offence_early_reports": st["possible-early-report"],
    })
    res.assumptions += [
        "'rejected iff impossible' is a theorem about the exact-arithmetic model (C04_rejection_matches_offence, C04_rejected_iff_offending, C04_accepted_iff_possible); the implementation (rust_decimal arithmetic) is compared on every generated case with the exact-arithmetic model, with first_offence / possible_rows of the extracted declarative walk and with an independent exact share ledger",
        "visibility is observed on the real binary / render model per mode; the writers (tabled, csv) are not modelled",
    ]


def replay(res, ctx, path):
    return corecheck.replay(res, ctx, path)
