# C16 - --symbol-base equals an opening purchase.
import collections
import random
from fractions import Fraction

import core
import corecheck
import gen
from common import run_harness, load_known


def opening_row(sec, first_sd, n, c, rng):
    day = first_sd - 31 - rng.choice([0, 1, 5, 300])
    return {"sec": sec, "td": day, "sd": day, "act": "Buy", "sh": n, "aps": core.D(0),
            "com": c, "cur": None, "rate": None, "af": rng.choice([None, "Default"])}


def rows_equal(a, b):
    """compare report rows of the security (after the opening row)"""
    if len(a) != len(b):
        return "row count %d vs %d" % (len(a), len(b))
    for k, (x, y) in enumerate(zip(a, b)):
        for f in ("act", "af", "post", "gain", "sfl", "sfla"):
            if x[f] != y[f]:
                return "row %d field %s: with -b %s, with opening purchase %s" % (k, f, x[f], y[f])
    return None


def run(res, ctx):
    tier, seed = ctx["tier"], ctx["seed"]
    rng = random.Random(seed * 49979687 + 16)
    st = collections.Counter()
    seen, samples, corr = set(), [], []
    known = load_known("C16")
    known_ids = {k["id"] for k in known}
    known_hit = collections.Counter()
    n = 300 if tier == "quick" else 20000
    cases_a, cases_b, cases_c, meta = [], [], [], []
    for _ in range(n):
        k = rng.random()
        afs = None
        if k < 0.25:
            afs = rng.sample(["Spouse", "Zed", "(R)", "B"], rng.choice([1, 2]))   # no row of the default affiliate
        c = gen.gen_case(rng, p_invalid=0.02, p_split=0.15, window_focus=(rng.random() < 0.5), afs=afs)
        secs = sorted(set(r["sec"] for r in c["rows"]))
        if not secs:
            continue
        target = rng.choice(secs)
        kk = rng.random()
        if kk < 0.15:
            nsh, cost = core.D(0), core.D(0)
        elif kk < 0.3:
            nsh, cost = core.D(rng.randint(1, 500), rng.choice([1, 2, 3])), core.D(0)
        else:
            # total cost with cents, or with a sub-cent part (carried over from a full-precision printout,
            # or a foreign-currency cost)
            sc = rng.choice([2, 2, 3, 4, 8])
            nsh, cost = core.D(rng.randint(1, 300)), core.D(rng.randint(0, 5 * 10 ** (3 + sc)), sc)
        inits = {target: (nsh, cost)}
        other = {}
        if rng.random() < 0.4:
            other = {"ZZZ": (core.D(5), core.D(100))}       # position of a security without rows
            if len(secs) > 1 and rng.random() < 0.5:
                o2 = [s for s in secs if s != target][0]
                other[o2] = (core.D(7), core.D(70))
        first_sd = min(r["sd"] for r in c["rows"] if r["sec"] == target)
        a = {"rows": c["rows"], "inits": dict(inits, **other)}
        b_rows = list(c["rows"])
        if nsh[1] > 0:
            b_rows = [opening_row(target, first_sd, nsh, cost, rng)] + b_rows
        b = {"rows": b_rows, "inits": dict(other)}
        cases_a.append(a)
        cases_b.append(b)
        cases_c.append({"rows": c["rows"], "inits": {}})      # no opening position at all
        meta.append((target, nsh[1] > 0, afs is not None, sorted(other)))
    ra = corecheck.run_cases(ctx, cases_a)
    rb = corecheck.run_cases(ctx, cases_b)
    rc = corecheck.run_cases(ctx, cases_c)
    for x, y, z, (target, has_open, no_default, others) in zip(ra, rb, rc, meta):
        st["evaluations"] += 1
        for r in (x, y):
            d = core.diff_exact(r["dec"], r["impl"])
            if d is not None:
                corr.append((r, d))
        ia, ib = x["impl"], y["impl"]
        if ia["status"] != "ok" or ib["status"] != "ok":
            st["skipped-%s-%s" % (ia["status"], ib["status"])] += 1
            if ia["status"] != ib["status"]:
                res.violation("failing-input", "outcome with -b is %s, with the opening purchase %s" % (ia["status"], ib["status"]),
                              {"input_with_symbol_base": x["hc"], "input_with_purchase": y["hc"]})
            continue
        sa = ia["secs"].get(x["st"][target])
        sb = ib["secs"].get(y["st"][target])
        if sa is None or sb is None:
            continue
        rows_b = sb["deltas"][1:] if has_open else sb["deltas"]
        rows_a = sa["deltas"]
        if not has_open:
            # SYM:0:c is compared with "no opening row": the zero holding of the default
            # affiliate may show as an extra 0 -> 0 split row, which is no figure of any
            # transaction of the input
            rows_a = [d for d in rows_a if not (d["act"] == "Split" and d["af"] == 1000 and d["post"][0] == 0 and d["pre"][0] == 0)]
            rows_b = [d for d in rows_b if not (d["act"] == "Split" and d["af"] == 1000 and d["post"][0] == 0 and d["pre"][0] == 0)]
        has_glob = any(r["act"] == "Split" and r.get("af") is None and r["sec"] == target for r in x["case"]["rows"])
        d = None
        if sa["stop"][:2] != sb["stop"][:2]:
            d = "outcome %s vs %s" % (sa["stop"], sb["stop"])
        else:
            d = rows_equal(rows_a, rows_b)
        nontriv = has_open and len(sa["deltas"]) >= 2
        if d is not None:
            if has_glob and no_default and "global-split-skips-opening" in known_ids:
                known_hit["global-split-skips-opening"] += 1
            else:
                res.violation("failing-input", "security %s: %s" % (target, d),
                              {"input_with_symbol_base": x["hc"], "input_with_purchase": y["hc"], "security": target})
        # other securities: opening positions of OTHER securities have no effect on a security
        iz = z["impl"]
        if iz["status"] == "ok":
            st["other-positions-compared"] += 1
            for sname, num in x["st"].items():
                if sname == target or sname in others or num not in ia["secs"] or sname not in z["st"]:
                    continue
                sz = iz["secs"].get(z["st"][sname])
                sx = ia["secs"][num]
                if sz is None:
                    continue
                dd = ("outcome %s vs %s" % (sx["stop"], sz["stop"])) if sx["stop"][:2] != sz["stop"][:2] else rows_equal(sx["deltas"], sz["deltas"])
                if dd is not None:
                    res.violation("failing-input", "security %s changes when opening positions of other securities (%s) are given: %s" % (sname, ", ".join([target] + others), dd),
                                  {"input_with_other_positions": x["hc"], "input_without": z["hc"], "security": sname})
        if nontriv and x["hash"] not in seen:
            seen.add(x["hash"])
            st["distinct_nontrivial"] += 1
            if has_glob:
                st["with-global-split"] += 1
            if no_default:
                st["no-default-affiliate-rows"] += 1
            if len(samples) < 3:
                samples.append({"csv": x["hc"]["files"][0], "init": x["hc"]["init"]})
    # blanks around the symbol do not change which security the position belongs to
    wcase = {"rows": [{"sec": "FOO", "td": core.BASE_DAY + 50, "sd": core.BASE_DAY + 50, "act": "Sell", "sh": core.D(4), "aps": core.D(5),
                       "com": None, "cur": None, "rate": None, "af": None}], "inits": {}}
    ref = run_harness(ctx["exe"], "core", [{"files": [core.to_csv(wcase["rows"])], "init": ["FOO:10:100"]}], nproc=1)[0]
    for spec in (" FOO:10:100", "FOO :10:100", "\tFOO:10:100"):
        o = run_harness(ctx["exe"], "core", [{"files": [core.to_csv(wcase["rows"])], "init": [spec]}], nproc=1)[0]
        st["malformed"] += 1
        if o.get("status") != ref.get("status") or o.get("secs") != ref.get("secs"):
            res.violation("failing-input", "opening position %r does not behave like 'FOO:10:100': %s" % (spec, o.get("panic") or o.get("err") or "different rows"),
                          {"symbol_base": spec, "input": core.to_csv(wcase["rows"]), "actual_impl": o.get("panic") or o.get("err")})
    # malformed specifications are rejected before any processing
    bad_specs = ["FOO", "FOO:1", "FOO:1:2:3", ":1:2", " :1:2", "FOO:x:2", "FOO:1:y", "FOO:-1:2", "FOO:1:-2", "FOO::", "FOO:1.2.3:4"]
    outs = run_harness(ctx["exe"], "core", [{"files": ["security,trade date\nnot,a,valid,csv\n"], "init": [s]} for s in bad_specs], nproc=2)
    for s, o in zip(bad_specs, outs):
        st["malformed"] += 1
        if o["status"] != "initerr":
            res.violation("failing-input", "malformed --symbol-base %r was not rejected before processing (status %s)" % (s, o["status"]),
                          {"symbol_base": s, "actual_impl": o.get("err")})
    for k in known:
        w = k.get("witness")
        if w:
            o = corecheck.run_cases(ctx, [{"files": [w["csv"]], "rows": [], "inits": {}}])
        if known_hit[k["id"]]:
            res.known("%s (seen in %d generated cases this run)" % (k["what"], known_hit[k["id"]]))
    if corr and not res.violations:
        r, d = corr[0]
        res.violation("broken-correspondence", "model (dec) and implementation differ: " + d,
                      {"theorem_or_projection": "correspondence projection C16 (rows with opening status)",
                       "input": r["hc"], "difference": d}, found_input=False)
    # the --symbol-base text layer (parse_initial_status, cmd.rs, approot.rs lookup): lib/props/c16_text.py
    import props.c16_text as c16_text
    tst, tsamples = c16_text.run(res, ctx)
    res.coverage.update({
        "evaluations": st["evaluations"] + st["malformed"] + tst["text-evaluations"] + tst["lookup"]
        + sum(v for k, v in tst.items() if k.startswith("cli-")),
        "symbol_base_text_layer": {
            "rule": "specification lists (hand-written corpus: every example of the theorems, every White_Space character and look-alike around every part, empty parts, extra colons, signs, exponent forms, underscores, 17-31 digit numbers, duplicate symbols, case variants; seeded generated and character-mutated lists; instances of C16_spec_roundtrip) through acb::app::input_parse::parse_initial_status, the extracted Model/InitSpec.v (group initspec) and an oracle written from the sources; positions and full error messages compared; lookup by security name through run_acb_app_to_delta_models; malformed specifications through the real acb binary with a valid, an invalid and a missing file",
            "outcomes": dict(sorted(tst.items())),
            "samples": tsamples,
        },
        "distinct_nontrivial": st["distinct_nontrivial"],
        "rule": "seeded random inputs run twice on the implementation: with SYM:n:c and with a prepended purchase (price 0, commission c) dated 31+ days before the first row; zero / fractional shares, zero cost, several securities with their own positions, securities whose rows all belong to other affiliates, global splits, windows near the start; non-trivial = positive opening shares and >= 2 report rows; distinct by SHA-1",
        "samples": samples,
        "input_distribution": dict(sorted(st.items())),
        "known_findings_replayed": dict(known_hit),
        "traces_validated_against_impl": 2 * st["evaluations"],
    })


def replay(res, ctx, path):
    """replays of the --symbol-base text layer are re-run alone; any other replay re-runs the check"""
    import json
    import common
    import props.c16_text as c16_text
    rep = json.load(open(path))
    if "symbol_base" in rep and "input" not in rep:
        c16_text.replay(res, ctx, rep)
    else:
        run(res, ctx)
    return res.finish(common.check_proofs("C16"))
