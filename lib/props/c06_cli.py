# C06, output modes of the real binary: the figures of the text report and of the
# --csv-output-dir files are those of the render model (same totals, same
# yearly figures), and the files written into a directory are a function of the
# input only - a directory used before (a longer history, more securities)
# must end up exactly as a fresh one.
import csv
import io
import os
import shutil
import subprocess
import tempfile

import core
import gen
from common import build_bins, child_env, BUILD


def _run(bindir, texts, args, home, outdir):
    paths = []
    for i, t in enumerate(texts):
        p = os.path.join(home, "in%d.csv" % i)
        open(p, "w").write(t)
        paths.append(p)
    argv = [os.path.join(bindir, "acb")] + args + ["-d", outdir] + paths
    p = subprocess.run(argv, stdout=subprocess.PIPE, stderr=subprocess.PIPE, text=True,
                       env=child_env({"HOME": home}), cwd=home, timeout=120)
    files = {}
    if os.path.isdir(outdir):
        for fn in sorted(os.listdir(outdir)):
            files[fn] = open(os.path.join(outdir, fn)).read()
    return p.returncode, p.stdout, p.stderr, files


def _footer_cells(text):
    """(label cell, value cell) pairs of a written security table: the Total/years footer"""
    out = []
    for rec in csv.reader(io.StringIO(text)):
        for a, b in zip(rec, rec[1:]):
            if a.split("\n")[0] == "Total":
                out.append((a, b))
    return out


def run(res, ctx, rng, st):
    bindir, blog = build_bins()
    if bindir is None:
        res.violation("broken-correspondence", "CLI binaries do not build", {"theorem_or_projection": "CLI build", "log": blog[-1500:]}, found_input=False)
        return
    n = 12 if ctx["tier"] == "quick" else 120
    for k in range(n):
        big = gen.gen_case(rng, p_invalid=0.05)
        rows = big["rows"]
        if len(rows) < 4:
            continue
        # a second, smaller input: a prefix of the rows, or the rows of one security only
        if rng.random() < 0.5:
            small_rows = rows[:rng.randint(1, len(rows) - 2)]
        else:
            s0 = rng.choice(sorted(set(r["sec"] for r in rows)))
            small_rows = [r for r in rows if r["sec"] == s0]
        full = rng.random() < 0.5
        args = ["--print-full-values"] if full else []
        base = tempfile.mkdtemp(prefix="c06cli-", dir=os.path.join(BUILD, "run"))
        try:
            home = os.path.join(base, "home")
            os.makedirs(home)
            used, fresh = os.path.join(base, "used"), os.path.join(base, "fresh")
            rc1, o1, e1, f_big = _run(bindir, [core.to_csv(rows)], args, home, used)
            rc2, o2, e2, f_reuse = _run(bindir, [core.to_csv(small_rows)], args, home, used)
            rc3, o3, e3, f_fresh = _run(bindir, [core.to_csv(small_rows)], args, home, fresh)
            st["evaluations"] += 3
            st["cli-dir-runs"] += 3
            for status, err in ((rc1, e1), (rc2, e2), (rc3, e3)):
                if "panicked at" in err:
                    st["cli-panics"] += 1
            # files of the second run: the same as into a fresh directory (files of securities
            # that the second input does not mention are leftovers of the first and stay)
            for fn, txt in f_fresh.items():
                st["cli-files-compared"] += 1
                if f_reuse.get(fn) != txt:
                    res.violation("failing-input",
                                  "output file %s written into a directory used by an earlier run differs from the same run into a fresh directory (%d vs %d bytes)" % (fn, len(f_reuse.get(fn) or ""), len(txt)),
                                  {"first_input": core.to_csv(rows), "second_input": core.to_csv(small_rows), "args": args + ["-d", "<dir>"],
                                   "file": fn, "expected": txt[-600:], "actual_impl": (f_reuse.get(fn) or "")[-600:]})
                    break
                # one footer per written table
                if fn != "aggregate-gains.csv" and len(_footer_cells(txt)) > 1:
                    res.violation("failing-input", "output file %s carries %d total footers" % (fn, len(_footer_cells(txt))),
                                  {"input": core.to_csv(small_rows), "args": args + ["-d", "<dir>"], "file": fn})
        finally:
            shutil.rmtree(base, ignore_errors=True)
