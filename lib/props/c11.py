# C11 - writing transactions to CSV and reading them back is the identity.
#
# Correspondence: the model (Model/CsvFields.v, Model/CsvTable.v, extracted)
# and the implementation are run on the same transaction lists; compared are
# the written table (header + cells, byte for byte, and the CSV text against
# the model's cells under RFC-4180 quoting), the re-read transactions (exact
# sign/mantissa/scale of every decimal) and the second-generation bytes.
# Field codecs (Decimal Display / to_string_min_precision / from_str /
# from_str_exact, dates, split ratios, currency, trim, the affiliate table)
# are compared separately on generated texts.
# Oracle (independent of the model): the re-read transactions of the
# implementation are the original ones up to the stated exceptions, and the
# second write reproduces the first bytes.
import collections
import csv as pycsv
import hashlib
import io
import json
import os
import random

import common
import csvcase as cc
from common import run_harness, run_model

TENS = [10 ** i for i in range(40)]


# ---------------------------------------------------------------- generators
def gen_mant(rng):
    k = rng.random()
    if k < 0.30:
        return rng.randint(1, 9999)
    if k < 0.55:
        return rng.randint(1, 10 ** rng.randint(5, 15))
    if k < 0.75:
        return rng.randint(10 ** 28, cc.MAX_MANT)          # 29 digits
    if k < 0.85:
        return rng.choice([cc.MAX_MANT, cc.MAX_MANT - 1, 10 ** 28, 10 ** 28 - 1, 10 ** 27, 10 ** 28 + 1,
                           7922816251426433759354395033, 7922816251426433759354395034, 1, 5, 10, 100])
    return rng.randint(1, 10 ** rng.randint(16, 28))


def gen_dec(rng, kind="pos", stats=None):
    """(neg, mantissa, scale); kind: pos | gez | lez"""
    scale = rng.choice(list(range(29)) + [0, 0, 1, 2, 2, 4, 28, 28])
    if kind != "pos" and rng.random() < 0.15:
        d = (False, 0, scale)
    else:
        m = gen_mant(rng)
        if rng.random() < 0.35:          # trailing zeros (cut by to_string_min_precision)
            z = rng.randint(1, 12)
            while m * 10 ** z > cc.MAX_MANT:
                z -= 1
            m *= 10 ** z
        d = (kind == "lez", m, scale)
    if stats is not None:
        stats["scale-%02d" % d[2]] += 1
        if d[1] >= 10 ** 28:
            stats["mantissa-29-digits"] += 1
    return d


AF_BASE = ["Spouse", "B", "zed", "My Spouse", "Child-1", "Def ault"]
DEFAULT_SPELLINGS = ["", " ", "Default", " Default ", "default", "DEFAULT"]
DEFAULT_R_SPELLINGS = ["(R)", "(r)", " (R) ", "Default (R)", "default(R)", "(R)Default(r)", "Default  (r)"]


def gen_af(rng, pool):
    name = rng.choice(pool)
    if name == "":
        return rng.choice(DEFAULT_SPELLINGS)
    if name == "(R)":
        return rng.choice(DEFAULT_R_SPELLINGS)
    if name == "__global__":
        return rng.choice(["__global__", " __global__ "])
    reg = name.endswith(" (R)")
    base = name[:-4] if reg else name
    if " " in base and rng.random() < 0.3:
        base = base.replace(" ", "   ")
    if not reg:
        return rng.choice([base, " " + base, base + "  ", "  " + base + " "])
    return rng.choice([base + " (R)", "(R)" + base, base + "(r)", " " + base + "  (R) ", "(r) " + base,
                       base + " (R)(r)"])


CURS = ["USD", "EUR", "XBT", "U$D", "A B", "C,D", "GBP"]
SECS = ["FOO", "BAR", "BRK.B", "X Y", "\u00c9TF", "A,B", 'Q"Q', "\u65e5\u672c", "a", "VFV.TO"]
MEMOS = ["", "", "plain", " lead", "trail ", "a,b", 'say "hi"', "line1\nline2", "cr\r\nlf", "h\u00e9llo w\u00f6rld",
         "\u00a0nbsp\u00a0", "\u2003em", "tab\t", "!", ",", '"', "\n", "  ", "x\u3000", "Summary", "2021 gain summary (sell)",
         '""', "a\rb", " \u00e9 ", "\u200b zwsp", "\u2028ls", "ogham\u1680", "\u0085nel",
         # cells a lenient reader could take for "no value" or for something else
         "-", " - ", "--", "n/a", "None", "null", "0", "#", "# c", "=1+1", "'", "-5 correction",
         # backslashes, alone and in cells that need quoting
         "C:\\accts\\rrsp", "moved from C:\\accts\\rrsp, see note", "trailing backslash, \\", '\\"x\\"', "\\", 'a\\"b, c']


def gen_car(rng, stats):
    k = rng.random()
    if k < 0.4:
        return {"cur": "CAD", "rate": rng.choice([(False, 1, 0), (False, 10, 1), (False, 100, 2), (False, 1, 0)])}
    return {"cur": rng.choice(CURS), "rate": gen_dec(rng, "pos", stats)}


def gen_date(rng):
    y = rng.choice([rng.randint(1, 9999), rng.randint(1990, 2030), rng.randint(1990, 2030), 1, 9999, 2000, 1900, 2024, 999])
    m = rng.randint(1, 12)
    dim = [31, 29 if (y % 4 == 0 and y % 100 != 0) or y % 400 == 0 else 28, 31, 30, 31, 30, 31, 31, 30, 31, 30, 31][m - 1]
    d = rng.choice([1, dim, rng.randint(1, dim)])
    return (y, m, d)


def with_scale(v, s):
    return (False, v * 10 ** s, s)


def gen_ratio(rng, stats):
    k = rng.random()
    if k < 0.2:
        a, c = rng.randint(2, 50), rng.randint(1, 49)
        r = (with_scale(max(a, c + 1), 0), with_scale(min(a - 1, c) or 1, 0), False)
        stats["ratio-int-forward"] += 1
    elif k < 0.4:
        pre, post = rng.randint(2, 50), rng.randint(1, 49)
        post = min(post, pre - 1)
        r = (with_scale(post, 0), with_scale(pre, 0), True)
        stats["ratio-int-reverse-integer-only"] += 1
    elif k < 0.55:
        pre, post = rng.randint(2, 50), rng.randint(1, 49)
        post = min(post, pre - 1)
        s1, s2 = rng.choice([0, 0, 1, 3]), rng.choice([0, 0, 1, 2])
        r = (with_scale(post, s1), with_scale(pre, s2), False)
        stats["ratio-int-reverse-fractional-allowed"] += 1
    elif k < 0.7:
        s1, s2 = rng.choice([1, 2, 5]), rng.choice([0, 1, 4])
        r = (with_scale(rng.randint(1, 30), s1), with_scale(rng.randint(1, 30), s2), rng.random() < 0.3)
        if not (cc.dval(r[1]) > cc.dval(r[0])):
            r = (r[0], r[1], False)
        stats["ratio-int-valued-with-scale"] += 1
    elif k < 0.9:
        r = (gen_dec(rng, "pos"), gen_dec(rng, "pos"), False)
        stats["ratio-decimal"] += 1
    else:
        big = rng.randint(10 ** 26, 7 * 10 ** 27)
        small = rng.randint(1, 10 ** 20)
        r = ((False, small, 0), (False, big, 0), rng.random() < 0.5) if rng.random() < 0.5 else ((False, big, 0), (False, small, 0), False)
        stats["ratio-huge"] += 1
    return r


def gen_tx(rng, pool, stats, p_odd=0.0):
    a = rng.choice(cc.ACTS)
    t = {"sec": rng.choice(SECS), "td": gen_date(rng), "sd": gen_date(rng), "memo": rng.choice(MEMOS),
         "af": gen_af(rng, pool), "ri": rng.randint(0, 50), "act": a}
    stats["action-" + a] += 1
    if a in ("Buy", "Sell"):
        t["sh"] = gen_dec(rng, "pos", stats)
        t["aps"] = gen_dec(rng, "gez", stats)
        t["com"] = gen_dec(rng, "gez", stats)
        t["cr"] = gen_car(rng, stats)
        t["ccr"] = gen_car(rng, stats) if rng.random() < 0.3 else None
        if a == "Sell":
            t["sfl"] = (gen_dec(rng, "lez", stats), rng.random() < 0.5) if rng.random() < 0.4 else None
    elif a == "RoC":
        t["aps"] = gen_dec(rng, "gez", stats)
        t["cr"] = gen_car(rng, stats)
    elif a == "SfLA":
        t["sh"] = gen_dec(rng, "pos", stats)
        t["aps"] = gen_dec(rng, "pos", stats)
    else:
        t["ratio"] = gen_ratio(rng, stats)
    if rng.random() < p_odd:
        # outside valid_tx (model and implementation must still agree)
        k = rng.choice(["negzero", "sec-ws", "rio-forward"])
        stats["odd-" + k] += 1
        if k == "negzero" and "com" in t:
            t["com"] = (True, 0, rng.choice([0, 2]))
        elif k == "sec-ws":
            t["sec"] = " " + t["sec"]
        elif k == "rio-forward" and a == "Split":
            t["ratio"] = ((False, 3, 0), (False, 1, 0), True)
    return t


def gen_case(rng, stats, p_odd=0.0):
    n = rng.choice([1, 1, 2, 3, 4, 6])
    k = rng.random()
    if k < 0.3:
        pool = [""]
    elif k < 0.5:
        pool = ["", "(R)"]
    else:
        pool = rng.sample(["", "(R)", "Spouse", "B", "zed", "My Spouse", "Child-1", "Spouse (R)", "Def ault (R)", "__global__"],
                          rng.choice([1, 2, 3]))
    return [gen_tx(rng, pool, stats, p_odd) for _ in range(n)]


def buy(sec="FOO", af="", memo="", sh=(False, 10, 0), aps=(False, 150, 2), com=(False, 0, 2), cr=None, ccr=None, ri=0,
        td=(2021, 3, 4), sd=(2021, 3, 6)):
    return {"sec": sec, "td": td, "sd": sd, "memo": memo, "af": af, "ri": ri, "act": "Buy", "sh": sh, "aps": aps,
            "com": com, "cr": cr or {"cur": "CAD", "rate": (False, 1, 0)}, "ccr": ccr}


def split(post, pre, rio, af="", sec="FOO", memo=""):
    return {"sec": sec, "td": (2021, 5, 1), "sd": (2021, 5, 1), "memo": memo, "af": af, "ri": 7, "act": "Split",
            "ratio": (post, pre, rio)}


def corpus():
    D = lambda m, s=0, neg=False: (neg, m, s)
    usd = {"cur": "USD", "rate": D(13, 1)}
    sell = dict(buy(), act="Sell", sfl=(D(1234, 2, True), True))
    return [
        [buy()],
        [split(D(2), D(1), False)],                                  # default-affiliate split, no other affiliate
        [split(D(1), D(2), True), buy(af="Spouse")],                 # another affiliate is named
        [split(D(1), D(2), False)], [split(D(1), D(2), True)], [split(D(10, 1), D(20, 1), False)],
        [split(D(15, 1), D(1), False)], [split(D(2), D(1), False, af="__global__")],
        # the affiliate column (fix e44bc72): not needed by a split for all affiliates alone or next to default
        # rows; needed next to a split addressed to the default affiliate, and for __global__ on a non-split row
        [split(D(2), D(1), False, af="__global__"), buy()], [split(D(2), D(1), False, af="__global__"), buy(af="Default")],
        [split(D(2), D(1), False, af="__global__"), split(D(3), D(1), False, af="")],
        [split(D(2), D(1), False, af="__global__"), buy(af="Spouse")], [buy(af="__global__")],
        [buy(af="__global__"), split(D(2), D(1), False)],
        [buy(aps=D(cc.MAX_MANT))], [buy(aps=D(cc.MAX_MANT, 28))], [buy(sh=D(cc.MAX_MANT, 1), aps=D(10 ** 28, 27))],
        [buy(aps=D(7922816251426433759354395033)), buy(aps=D(7922816251426433759354395034))],
        [buy(aps=D(0, 0)), buy(aps=D(0, 5), com=D(0, 0))],
        [buy(aps=D(1500, 3)), buy(aps=D(1500000, 6), sh=D(1000, 3))],
        [buy(cr=usd, ccr={"cur": "CAD", "rate": D(100, 2)})], [buy(cr=usd, ccr={"cur": "EUR", "rate": D(15, 1)})],
        [sell], [dict(sell, sfl=(D(0, 0), False))], [dict(sell, sfl=(D(5, 3, True), False))],
        [buy(memo=' a,"b"\nc\r\n ')], [buy(memo="\u00a0x\u2003")], [buy(memo=" x")],
        [buy(sec="\u00c9TF, inc", af="(R)")], [buy(af="Spouse (R)"), buy(af="(r)Spouse")],
        [buy(af="default"), buy(af="Default")],
        [{"sec": "FOO", "td": (1, 1, 1), "sd": (9999, 12, 31), "memo": "", "af": "", "ri": 3, "act": "RoC",
          "aps": D(5, 1), "cr": usd}],
        [{"sec": "FOO", "td": (2024, 2, 29), "sd": (2000, 2, 29), "memo": "m", "af": "B", "ri": 3, "act": "SfLA",
          "sh": D(1), "aps": D(125, 2)}],
    ]


# ---------------------------------------------------------------- round trip
def named_other(txs):
    """some row names an affiliate other than the default one (a split for all affiliates names none)"""
    return any(cc.af_id_of(t["af"]) != "default" and not (t["act"] == "Split" and cc.af_id_of(t["af"]) == "__global__")
               for t in txs)


def memo_untrimmed(txs):
    return any(cc.rtrim(t["memo"]) != t["memo"] for t in txs)


def default_split_goes_global(txs):
    return (not named_other(txs)) and any(t["act"] == "Split" and cc.af_id_of(t["af"]) == "default" for t in txs)


def unstable_classes(txs):
    """executable classes on which the second-generation bytes are known to differ: none since the fixes
    84ca472 (memo written trimmed) and e44bc72 (a split for all affiliates does not need the affiliate
    column); the two former classes are still counted, to show that they are exercised"""
    return []


def nontrivial(txs, impl):
    """the round trip exercises more than plain copying: a decimal is
    re-scaled, an optional column is omitted, or a cell needs quoting"""
    if len(impl.get("header", [])) < 15:
        return True
    return any('"' in line for line in impl.get("csv", "").split("\n")[1:])


def check_roundtrip(res, ctx, cases, label):
    st = ctx["stats"]
    impl = run_harness(ctx["exe"], "roundtrip", [{"txs": [cc.j_tx(t) for t in c]} for c in cases])
    mod = run_model([cc.roundtrip_ints(c) for c in cases], group="csv")
    for txs, io_, mo in zip(cases, impl, mod):
        st["evaluations"] += 1
        st["roundtrip-" + label] += 1
        if io_.get("status") == "panic":
            res.violation("failing-input", "write/read round trip panics: %s" % io_["panic"],
                          {"input": {"txs": [cc.j_tx(t) for t in txs]}, "actual_impl": io_["panic"],
                           "expected_spec": "the transactions are written and read back"})
            continue
        m = cc.parse_roundtrip_model(mo, len(txs))
        if m["status"] != "ok":
            ctx["diffs"].append(("model did not evaluate the case (code %s)" % m.get("code"), txs))
            continue
        st["valid" if m["valid"] else "outside-valid_tx"] += 1
        h = hashlib.sha1(io_["csv"].encode("utf-8", "surrogateescape")).hexdigest()
        if m["valid"] and nontrivial(txs, io_) and h not in ctx["seen"]:
            ctx["seen"].add(h)
            st["distinct_nontrivial"] += 1
            if len(ctx["samples"]) < 3:
                ctx["samples"].append({"txs": [cc.j_tx(t) for t in txs], "csv": io_["csv"]})
        st["columns-%02d" % len(io_["header"])] += 1
        # ---- correspondence: model vs implementation
        d = None
        iafs = [tuple(a) for a in io_["afs"]]
        if iafs != m["afs"]:
            d = "interned affiliates: model %s impl %s" % (m["afs"], iafs)
        elif io_["header"] != m["header"]:
            d = "header: model %s impl %s" % (m["header"], io_["header"])
        elif io_["rows"] != m["rows"]:
            bad = [(r, c) for r in range(len(m["rows"])) for c in range(len(m["header"])) if io_["rows"][r][c] != m["rows"][r][c]][0]
            d = "cell row %d column %r: model %r impl %r" % (bad[0], m["header"][bad[1]], m["rows"][bad[0]][bad[1]], io_["rows"][bad[0]][bad[1]])
        elif io_["csv"] != cc.csv_text(m["header"], m["rows"]):
            d = "written bytes differ from the model's cells under RFC-4180 quoting: impl %r" % io_["csv"][:300]
        elif io_["read"]["ok"] != m["read"]["ok"]:
            d = "re-read outcome: model %s impl %s" % (m["read"], {k: v for k, v in io_["read"].items() if k != "txs"})
        elif m["read"]["ok"]:
            it = [cc.impl_tx(t) for t in io_["read"]["txs"]]
            if it != m["read"]["txs"]:
                k = [i for i in range(max(len(it), len(m["read"]["txs"]))) if i >= len(it) or i >= len(m["read"]["txs"]) or it[i] != m["read"]["txs"][i]][0]
                d = "re-read transaction %d: model %s impl %s" % (k, m["read"]["txs"][k:k + 1], it[k:k + 1])
            elif io_["csv2"] != cc.csv_text(m["header2"], m["rows2"]):
                d = "second-generation bytes differ from the model's: impl %r" % io_["csv2"][:300]
        if d:
            st["correspondence_diffs"] += 1
            ctx["diffs"].append((d, txs))
        # python's own RFC-4180 reader on the implementation's bytes (csv layer)
        try:
            recs = list(pycsv.reader(io.StringIO(io_["csv"], newline="")))
            if recs != [io_["header"]] + io_["rows"]:
                ctx["diffs"].append(("csv layer: the written bytes do not parse back to the written cells (python csv reader)", txs))
        except pycsv.Error:
            pass
        if not m["valid"]:
            continue
        # ---- oracle: the property on the implementation's own output
        bad = None
        if not io_["read"]["ok"]:
            bad = ("re-read", "the written CSV is rejected: %s" % io_["read"].get("err"))
        else:
            it = [cc.impl_tx(t) for t in io_["read"]["txs"]]
            if len(it) != len(txs):
                bad = ("re-read", "%d transactions written, %d read" % (len(txs), len(it)))
            else:
                no = named_other(txs)
                for k, (t, t2) in enumerate(zip(txs, it)):
                    w = cc.tx_same(t, t2, k, no)
                    if w:
                        bad = ("re-read", "transaction %d comes back with a different %s: %s" % (k, w, json.dumps(io_["read"]["txs"][k], ensure_ascii=False)))
                        break
                    st["txs_checked"] += 1
            if bad is None and io_["csv2"] != io_["csv"]:
                cls = unstable_classes(txs)
                if cls:
                    for c in cls:
                        st["second-write-differs(class %s)" % c] += 1
                        ctx["class_hits"].setdefault(c, txs)
                else:
                    bad = ("second write", "writing the re-read list gives different bytes")
            if bad is None and memo_untrimmed(txs):
                st["stable-with-memo-whitespace(former class)"] += 1
            if bad is None and default_split_goes_global(txs):
                st["stable-with-default-split-read-back-global(former class)"] += 1
        if m["read"]["ok"] and m["same"] is False and bad is None:
            ctx["diffs"].append(("model says the re-read list is not the same (tx_same false) but the oracle accepts it", txs))
        if bad:
            res.violation("failing-input", bad[1],
                          {"input": {"txs": [cc.j_tx(t) for t in txs]}, "stage": bad[0],
                           "actual_impl": {"csv": io_["csv"], "csv2": io_.get("csv2"), "read": io_["read"]},
                           "expected_spec": "read (write txs) = txs up to read_index / memo trimming / default split may be global; write (read (write txs)) = write txs"})


# ---------------------------------------------------------------- field codecs
def check_dec_show(res, ctx, rng, n):
    st = ctx["stats"]
    cases = []
    for _ in range(n):
        kind = rng.choice(["pos", "gez", "lez"])
        d = gen_dec(rng, kind)
        if rng.random() < 0.05:
            d = (True, 0, d[2])
        cases.append((d, rng.choice([-1, -1, 0, 1, 2, rng.randint(0, 30)]), rng.choice([0, 0, 2, 2, 1, 5, 28])))
    impl = run_harness(ctx["exe"], "dec_show", [{"d": cc.j_dec(d), "p": p, "k": k} for d, p, k in cases])
    mod = run_model([[10] + cc.e_dec(d) + [p, k] for d, p, k in cases], group="csv")
    for (d, p, k), io_, mo in zip(cases, impl, mod):
        st["dec_show"] += 1
        rd = cc.Rd(mo)
        assert rd.z() == 1
        mp = bool(rd.z())
        f, t = rd.bytes(), rd.bytes()
        if mp or io_.get("status") == "panic":
            st["dec_show-display-buffer-overflow"] += 1
            if not (mp and io_.get("status") == "panic"):
                ctx["diffs"].append(("Decimal %s Display p=%d / to_string_min_precision(%d): model panics=%s impl %s" % (d, p, k, mp, io_), None))
            continue
        if False:
            ctx["diffs"].append(("Decimal %s Display p=%d / to_string_min_precision(%d) panics: %s" % (d, p, k, io_["panic"]), None))
            continue
        if io_.get("fmt") != f or io_.get("tsmp") != t:
            ctx["diffs"].append(("Decimal %s: Display p=%d model %r impl %r; to_string_min_precision(%d) model %r impl %r"
                                 % (d, p, f, io_.get("fmt"), k, t, io_.get("tsmp")), None))
        # oracle for the codec: the rendered text denotes the same number and has >= k decimals
        s = io_.get("tsmp", "")
        frac = s.split(".")[1] if "." in s else ""
        from fractions import Fraction
        if Fraction(s) != cc.dval(d) or len(frac) < k or (len(frac) > k and frac.endswith("0")):
            res.violation("failing-input", "to_string_min_precision(%s, %d) = %r is not the shortest exact rendering with at least %d decimals" % (d, k, s, k),
                          {"input": {"d": cc.j_dec(d), "k": k}, "actual_impl": s, "expected_spec": "exact value, max(k, needed) decimals"})


DEC_JUNK = ["", ".", "-", "+", "1..2", "1.2.3", "1e5", " 1", "1 ", "abc", "--1", "+-1", ".5", "5.", "-.5", "+5", "007", "0.0",
            "-0", "-0.00", "+0", "1_000", "_1", "1_", "79228162514264337593543950335", "79228162514264337593543950336",
            "79228162514264337593543950335.0", "79228162514264337593543950335.5", "7922816251426433759354395033.55",
            "0.00000000000000000000000000001", "0.00000000000000000000000000005", "1.00000000000000000000000000005",
            "0.1234567890123456789012345678", "0.12345678901234567890123456789", "99999999999999999999999999999",
            "792281625142643375935439503350", "1.2x", "1.00000000000000000000000000001x"]


def mutate_text(rng, s):
    k = rng.random()
    if k < 0.4 or not s:
        return s
    i = rng.randrange(len(s))
    if k < 0.6:
        return s[:i] + rng.choice("0123456789") + s[i:]
    if k < 0.75:
        return s[:i] + s[i + 1:]
    if k < 0.9:
        return s + rng.choice(["0", "5", "9", "00", "49", "50", "."])
    return s[:i] + rng.choice(".-+ x_") + s[i:]


def check_field_parse(res, ctx, rng, n):
    st = ctx["stats"]
    cases = [(k, s) for s in DEC_JUNK for k in (0, 1)]
    for _ in range(n):
        d = gen_dec(rng, rng.choice(["pos", "gez", "lez"]))
        s = cc.D_text(d) if hasattr(cc, "D_text") else None
        neg, m, sc = d
        digs = str(m).rjust(sc + 1, "0")
        s = ("-" if neg else "") + (digs[:-sc] + "." + digs[-sc:] if sc else digs)
        cases.append((rng.choice([0, 0, 1]), mutate_text(rng, s)))
    # dates
    for s in ["2021-03-04", "0001-01-01", "9999-12-31", "2023-02-29", "2024-02-29", "1900-02-29", "2000-02-29", "2021-13-01",
              "2021-00-10", "2021-04-31", "2021-4-01", "21-04-01", "2021/04/01", "2021-04-01 ", "", "2021-04-0a", "0000-01-01"]:
        cases.append((2, s))
    for _ in range(n // 8):
        y, m, d = gen_date(rng)
        cases.append((2, mutate_text(rng, "%04d-%02d-%02d" % (y, m, min(31, d + rng.choice([0, 0, 0, 1, 2]))))))
    # split ratios
    for s in ["2-for-1", "1-for-2", "1.0-for-2.0", "1-FOR-2", " 3-for-2 ", "1.5-for-1", "1-for-2.0", "1.-for-2", "1-for-2.",
              "-for-2", "2-for-", "2for1", "2-for-1x", "0-for-1", "1-for-0", "1..5-for-2", "a-for-b", "2-for-1-for-3",
              "0.5-for-1.5", "10-for-1", "1-for-10", "7922816251426433759354395033.0-for-79228162514264337593543950335.0",
              "1.00000000000000000000000000001-for-2", "2 -for-1", "\t2-for-1\n"]:
        cases.append((5, s))
    for _ in range(n // 8):
        r = gen_ratio(rng, collections.Counter())
        t = lambda d: (str(d[1]).rjust(d[2] + 1, "0")[:len(str(d[1]).rjust(d[2] + 1, "0")) - d[2]] + ("." + str(d[1]).rjust(d[2] + 1, "0")[-d[2]:] if d[2] else ""))
        cases.append((5, mutate_text(rng, t(r[0]) + "-for-" + t(r[1]))))
    for s in ["", "cad", "CAD", "usd", "Usd", "eur", "x y", " cad", "U$D"]:
        cases.append((6, s))
    for s in cc_trim_samples():
        cases.append((7, s))
    impl = run_harness(ctx["exe"], "field_parse", [{"kind": k, "s": s} for k, s in cases])
    mod = run_model([[11, k] + cc.e_bytes(s) for k, s in cases], group="csv")
    names = {0: "Decimal::from_str", 1: "Decimal::from_str_exact", 2: "parse_date", 5: "SplitRatio::parse", 6: "Currency::new", 7: "str::trim"}
    for (k, s), io_, mo in zip(cases, impl, mod):
        st["field_parse-" + names[k]] += 1
        rd = cc.Rd(mo)
        assert rd.z() == 1
        tag = rd.z()
        if tag == 1:
            rej = rd.rej()
            if rej[0] == 2:            # not modelled ('_' separators)
                st["field_parse-not-modelled"] += 1
                continue
            if io_.get("ok") and not (k == 2 and len(s) != 10):
                ctx["diffs"].append(("%s(%r): model rejects, impl gives %s" % (names[k], s, io_.get("v")), None))
            continue
        if not io_.get("ok"):
            ctx["diffs"].append(("%s(%r): impl rejects (%s), model accepts" % (names[k], s, io_.get("err")), None))
            continue
        if k in (0, 1):
            mv, iv = rd.dec(), cc.jd(io_["v"])
        elif k == 2:
            mv, iv = rd.date(), tuple(io_["v"])
        elif k == 5:
            mv, iv = (rd.dec(), rd.dec(), bool(rd.z())), (cc.jd(io_["v"][0]), cc.jd(io_["v"][1]), bool(io_["v"][2]))
        else:
            mv, iv = rd.bytes(), io_["v"]
        if mv != iv:
            ctx["diffs"].append(("%s(%r): model %s impl %s" % (names[k], s, mv, iv), None))


def cc_trim_samples():
    ws = ["", " ", "\t", "\n", "\r\n", "\u00a0", "\u0085", "\u1680", "\u2000", "\u2005", "\u200a", "\u2028", "\u2029",
          "\u202f", "\u205f", "\u3000", "\u200b", "\u00e9", "\u2010", "\u3001", "\u00c2", "x", "\u200b ", "\u00c2\u00a0"]
    out = []
    for a in ws:
        for c in ws:
            out.append(a + "m\u00e9mo x" + c)
            out.append(a + c)
    return out


AFF_TEXTS = ["", " ", "Default", "default", "DEFAULT", "(R)", "(r)", " (R) ", "default(R)", "(R)Default(r)", "Def(r)ault",
             " My Spouse ", " My     Spouse ", " My  (r)   Spouse ", " __global__ ", " Global ", "((R))", "(R)(R)", "( R)", "(R",
             "R)", "((r)R)", "(R) (R)", "a(R)b(r)c", "a  (R)  b", "\tSpouse", "Spouse\t(R)", "x (R) ", "(r", "()", "(R)x", "A(R)",
             "spouse", "Spouse", "SPOUSE", "spouse (R)", "Spouse(r)", "a b", "a  b", "a   b", " a ", "(", ")", "( r )"]


def check_aff_seq(res, ctx, rng, n):
    st = ctx["stats"]
    cases = [[s] for s in AFF_TEXTS]
    for _ in range(n):
        cases.append([rng.choice(AFF_TEXTS) if rng.random() < 0.7 else mutate_text(rng, rng.choice(AFF_TEXTS)) for _ in range(rng.randint(1, 6))])
    impl = run_harness(ctx["exe"], "aff_seq", [{"names": c} for c in cases])
    mod = run_model([[12] + cc.e_strs(c) for c in cases], group="csv")
    import core
    for c, io_, mo in zip(cases, impl, mod):
        st["aff_seq"] += 1
        rd = cc.Rd(mo)
        assert rd.z() == 1
        mv = [rd.aff() for _ in c]
        iv = [tuple(a) for a in io_]
        if mv != iv:
            ctx["diffs"].append(("AffiliateDedupTable on %r: model %s impl %s" % (c, mv, iv), None))
        # oracle: from_strep (name a) = a
        for s, a in zip(c, iv):
            if core.af_id(a[1])[0] != a[0]:
                res.violation("failing-input", "affiliate %r is written as %r, which reads back as id %r instead of %r" % (s, a[1], core.af_id(a[1])[0], a[0]),
                              {"input": {"names": c}, "actual_impl": list(a), "expected_spec": "from_strep(name(a)) = a"})


# ---------------------------------------------------------------- reading hand-written tables
H9 = ["security", "trade date", "settlement date", "action", "shares", "amount/share", "commission", "currency", "memo"]
HALL = ["security", "trade date", "settlement date", "action", "shares", "amount/share", "commission", "currency", "exchange rate",
        "commission currency", "commission exchange rate", "superficial loss", "split ratio", "affiliate", "memo"]


def read_corpus():
    row = ["FOO", "2021-03-04", "2021-03-06", "Buy", "10", "1.50", "0.00", "CAD", "m"]
    t = []
    t.append((H9, [row]))
    t.append(([" Security ", "TRADE DATE", "Settlement Date", "action", "shares", "amount/share", "commission", "currency", "memo"], [row]))
    t.append((["security", "trade date", "date", "action", "shares", "amount/share", "commission", "currency", "memo"], [row]))
    t.append((["security", "trade date", "settlement date", "action", "shares", "amount/share", "commission", "date", "memo"], [row]))
    t.append((["security", "trade date", "settlement date", "action", "shares", "amount/share", "commission", "bogus", "memo"], [row]))
    t.append((["security", "trade date", "settlement date", "action", "shares", "amount/share", "shares", "currency", "memo"], [row]))
    t.append((["security", "trade date", "settlement date", "action", "shares", "amount/share", "shares", "currency", "memo"],
              [["FOO", "2021-03-04", "2021-03-06", "Buy", "10", "1.50", "", "CAD", "m"]]))
    for a in [" BUY ", "sell", "Sold", "roc", "RoC", "SFLA", "split", "", "buy\u00a0"]:
        t.append((H9, [["FOO", "2021-03-04", "2021-03-06", a, "10", "1.50", "0.00", "", "m"]]))
    full = lambda **kw: [[kw.get(h, "") for h in HALL]]
    base = {"security": "FOO", "trade date": "2021-03-04", "settlement date": "2021-03-06", "action": "Sell", "shares": "10",
            "amount/share": "1.50"}
    for sfl in ["-1.5!", "-1.5 !", "!", "1.5", "0", "-0", "-1.5", "-1.5!!", "- 1.5", "-1_0", "0!"]:
        t.append((HALL, full(**dict(base, **{"superficial loss": sfl}))))
    for cur, fx in [("cad", ""), ("CAD", "1.0"), ("CAD", "1.1"), ("", "1.3"), ("USD", ""), ("usd", "1.3"), ("USD", "0"), ("USD", "-1"),
                    ("CAD", "1"), ("eur", "1.00")]:
        t.append((HALL, full(**dict(base, currency=cur, **{"exchange rate": fx}))))
        t.append((HALL, full(**dict(base, **{"commission currency": cur, "commission exchange rate": fx}))))
    for af in ["", " ", "Default", "(R)", " Spouse", "Spouse (R)", "__global__"]:
        t.append((HALL, full(**dict(base, affiliate=af))))
        t.append((HALL, full(**{"security": "FOO", "trade date": "2021-03-04", "settlement date": "2021-03-06", "action": "Split",
                                "split ratio": "2-for-1", "affiliate": af})))
    for k in ["security", "trade date", "settlement date", "action", "shares", "amount/share"]:
        t.append((HALL, full(**{a: v for a, v in base.items() if a != k})))
    t.append((HALL, full(**dict(base, action="RoC"))))
    t.append((HALL, full(**dict(base, action="RoC", shares=""))))
    t.append((HALL, full(**dict(base, action="SfLA"))))
    t.append((HALL, full(**dict(base, action="SfLA", currency="USD", **{"exchange rate": "1.2"}))))
    t.append((HALL, full(**dict(base, action="SfLA", currency="CAD"))))
    t.append((HALL, full(**dict(base, action="SfLA", shares="0"))))
    t.append((HALL, full(**dict(base, action="Split"))))
    t.append((HALL, full(**dict(base, shares="-1"))))
    t.append((HALL, full(**dict(base, shares="0"))))
    t.append((HALL, full(**dict(base, **{"amount/share": "-1"}))))
    t.append((HALL, full(**dict(base, commission="-1"))))
    t.append((HALL, full(**dict(base, commission="x"))))
    t.append((HALL, full(**dict(base, **{"trade date": "2021-02-30"}))))
    t.append((HALL, full(**dict(base, **{"split ratio": "junk"}))))
    t.append((H9, [row, row[:-1]]))
    t.append((H9, []))
    return t


def check_read(res, ctx, rng, n):
    st = ctx["stats"]
    tables = read_corpus()
    # mutations of valid written tables: blank or corrupt one cell
    for h, rows in list(ctx["written"])[:n]:
        rows = [list(r) for r in rows]
        if rows:
            r, c = rng.randrange(len(rows)), rng.randrange(len(h))
            # (no case change in the affiliate column: the display name of an id is fixed by its first
            #  spelling in the process-wide table, which the model does not share across cases)
            up = rows[r][c] if h[c] == "affiliate" else rows[r][c].upper()
            rows[r][c] = rng.choice(["", " ", "x", "0", "-1", rows[r][c] + " ", " " + rows[r][c], up, "1.5", "CAD", "2-for-1"])
            if h[c] == "affiliate" and rows[r][c] in ("x", "0", "-1", "1.5", "CAD", "2-for-1"):
                rows[r][c] = "Q7"
        tables.append((h, rows))
    texts = [cc.csv_text(h, rows) if h else "" for h, rows in tables]
    impl = run_harness(ctx["exe"], "read_csv", [{"csv": t} for t in texts])
    ints = []
    for h, rows in tables:
        x = [14] + cc.e_strs(cc.PRE) + cc.e_strs(h) + [len(rows)]
        for r in rows:
            x += cc.e_strs(r)
        ints.append(x)
    mod = run_model(ints, group="csv")
    for (h, rows), txt, io_, mo in zip(tables, texts, impl, mod):
        st["read_csv"] += 1
        rd = cc.Rd(mo)
        assert rd.z() == 1
        tag = rd.z()
        if io_.get("status") == "panic":
            ctx["diffs"].append(("reading %r panics: %s" % (txt, io_["panic"]), None))
            continue
        if tag == 0:
            n_ = rd.z()
            mt = [rd.tx() for _ in range(n_)]
            if not io_["ok"]:
                ctx["diffs"].append(("reading %r: model accepts, impl rejects: %s" % (txt, io_["err"]), None))
            elif [cc.impl_tx(t) for t in io_["txs"]] != mt:
                ctx["diffs"].append(("reading %r: model %s impl %s" % (txt, mt, io_["txs"]), None))
            st["read_csv-accepted"] += 1
        else:
            rej = rd.rej() if tag == 1 else ("panic", 0)
            if rej[0] == 2:
                continue
            stage = "parse" if rej[1] in (1, 2, 3, 4, 5, 20, 21) else "try_from"
            if io_["ok"]:
                ctx["diffs"].append(("reading %r: model rejects (%s), impl accepts" % (txt, rej), None))
            elif io_["stage"] != stage:
                ctx["diffs"].append(("reading %r: model rejects at %s (%s), impl at %s: %s" % (txt, stage, rej, io_["stage"], io_["err"]), None))
            st["read_csv-rejected"] += 1


# ---------------------------------------------------------------- known findings
def replay_known(res, ctx):
    """each listed finding whose witness still fails on the implementation is printed as KNOWN-FINDING"""
    p = os.path.join(common.VERIF, "known-findings.d", "C11.json")
    known = json.load(open(p)).get("findings", []) if os.path.exists(p) else []
    listed = {k["id"]: k for k in known if k.get("property") == "C11"}
    for k in listed.values():
        out = run_harness(ctx["exe"], "roundtrip", [k["witness"]], nproc=1)[0]
        if out.get("read", {}).get("ok") and out.get("csv2") != out.get("csv"):
            res.known(k["what"])
            ctx["stats"]["known-finding-witness-still-fails"] += 1
    return listed


def replay(res, ctx, path):
    """re-run one recorded failing input on the current tree"""
    rep = json.load(open(path))
    inp = rep.get("input") or {}
    ctx.update(stats=collections.Counter(), seen=set(), samples=[], diffs=[], written=[], class_hits={})
    r2 = common.Result("C11", ctx["tier"], ctx["seed"])
    if "txs" in inp:
        txs = [cc.tx_from_json(t) for t in inp["txs"]]
        check_roundtrip(r2, ctx, [txs], "replay")
        fails = [v[0]["what"] for v in r2.violations]
        if ctx["class_hits"] and (rep.get("class") or rep.get("what", "").startswith("memo witness")):
            fails.append("writing the re-read list gives different bytes (class %s)" % ", ".join(ctx["class_hits"]))
        elif ctx["class_hits"]:
            print("replay: note: second-generation bytes differ, input is in known class %s" % ", ".join(ctx["class_hits"]))
    elif "names" in inp:
        check_aff_seq(r2, ctx, random.Random(0), 0)
        fails = [v[0]["what"] for v in r2.violations]
    elif "d" in inp:
        out = run_harness(ctx["exe"], "dec_show", [{"d": inp["d"], "p": -1, "k": inp["k"]}], nproc=1)[0]
        from fractions import Fraction
        fails = [] if Fraction(out.get("tsmp", "nan") if out.get("tsmp") else 0) == cc.dval(cc.jd(inp["d"])) else ["to_string_min_precision changes the value: %s" % out]
    else:
        print("replay: this replay file names no input (%s)" % rep.get("what", "")[:200])
        return 1
    if fails:
        print("replay: FAILS: " + fails[0][:600])
        return 1
    if ctx["diffs"]:
        print("replay: the property holds on this input, but model and implementation differ: " + ctx["diffs"][0][0][:400])
        return 1
    print("replay: the property holds on this input")
    return 0


def run(res, ctx):
    tier, seed = ctx["tier"], ctx["seed"]
    rng = random.Random(seed * 104729 + 11)
    ctx.update(stats=collections.Counter(), seen=set(), samples=[], diffs=[], written=[], class_hits={})
    st = ctx["stats"]
    listed = replay_known(res, ctx)
    check_roundtrip(res, ctx, corpus(), "corpus")
    n = 6000 if tier == "quick" else 60000
    done = 0
    while done < n:
        k = min(1000, n - done)
        cases = [gen_case(rng, st, p_odd=0.04) for _ in range(k)]
        check_roundtrip(res, ctx, cases, "random")
        done += k
    # tables written by the implementation, for the read mutations
    sample = [gen_case(rng, collections.Counter()) for _ in range(150 if tier == "quick" else 2000)]
    for o in run_harness(ctx["exe"], "roundtrip", [{"txs": [cc.j_tx(t) for t in c]} for c in sample]):
        if "header" in o:
            ctx["written"].append((o["header"], o["rows"]))
    check_dec_show(res, ctx, rng, 6000 if tier == "quick" else 60000)
    check_field_parse(res, ctx, rng, 4000 if tier == "quick" else 40000)
    check_aff_seq(res, ctx, rng, 600 if tier == "quick" else 10000)
    check_read(res, ctx, rng, 150 if tier == "quick" else 2000)
    # a second-generation difference outside the listed class is reported by the oracle above; inside the
    # class it must be listed
    for c, txs in ctx["class_hits"].items():
        if c not in listed:
            res.violation("failing-input", "writing the re-read list gives different bytes (class %s)" % c,
                          {"input": {"txs": [cc.j_tx(t) for t in txs]}, "class": c,
                           "expected_spec": "write (read (write txs)) = write txs",
                           "actual_impl": "second-generation bytes differ"})
    if ctx["diffs"] and not res.violations:
        d, txs = ctx["diffs"][0]
        res.violation("broken-correspondence", "model and implementation differ: " + d,
                      {"theorem_or_projection": "correspondence projection C11 (cells, bytes, re-read transactions, field codecs)",
                       "input": {"txs": [cc.j_tx(t) for t in txs]} if txs else None, "difference": d,
                       "differing_cases": len(ctx["diffs"])}, found_input=False)
    res.coverage.update({
        "evaluations": st["evaluations"] + st["dec_show"] + st["aff_seq"] + st["read_csv"]
        + sum(v for k, v in st.items() if k.startswith("field_parse-")),
        "distinct_nontrivial": st["distinct_nontrivial"],
        "rule": "round-trip cases (1-6 transactions: every action, decimal scales 0-28, 29-digit mantissas, trailing zeros, "
                "CAD/foreign/separate commission currencies, superficial-loss markers with and without '!', every split-ratio form, "
                "affiliate spellings incl. (R) variants and __global__, memos with commas/quotes/newlines/non-ASCII/Unicode spaces); "
                "non-trivial = valid case whose table omits an optional column or needs quoting; distinct by SHA-1 of the written CSV",
        "samples": ctx["samples"],
        "input_distribution": {k: v for k, v in sorted(st.items())},
        "roundtrip_cases": st["evaluations"],
        "transactions_checked_by_oracle": st["txs_checked"],
        "traces_validated_against_impl": st["evaluations"],
        "known_class_hits": {k: v for k, v in st.items() if k.startswith("second-write-differs")},
    })
    res.assumptions += [
        "RFC-4180 layer (csv crate writer/reader) is a hypothesis of C11_roundtrip/C11_idempotent (csv_read (csv_write recs) = Ok recs); "
        "validated here: the implementation's bytes equal the model's cells under RFC-4180 quoting, parse back to the same cells with "
        "Python's csv reader, and the implementation re-reads its own bytes to the transactions the model reads from the cells",
        "rust_decimal Display/from_str/from_str_exact, time Date Display/parse, regex and str::trim/to_lowercase/to_uppercase are modelled "
        "in Model/CsvFields.v (ASCII case folding only) and compared on generated texts on every run",
        "valid_tx excludes: negative zero, securities with surrounding white space, non-ASCII currency/affiliate text, split-ratio terms "
        "above 7.9e27 in the '1.0-for-2.0' form, integer-only flag on non-reverse or fractional ratios (not produced by SplitRatio::parse)",
    ]
