# C09 - same input, same output, byte for byte (hash-order independence).
#
# Three ties to the code, next to the permutation theorems of Properties/C09.v:
#  (i)   the site scanner (lib/hashscan.py) is run on $ACB_REPO/src and its
#        result must equal the classified inventory lib/hash_sites.json;
#  (ii)  the real `acb` binary is run N times (fresh process = fresh
#        RandomState) on witness-shaped and model-selected order-sensitive
#        inputs in every output mode; stdout, exit status and output files are
#        compared byte for byte;
#  (iii) the order the model fixes for each site (sorted keys) is compared with
#        the implementation through the harness: order of the "ignored
#        transaction" notes, day chosen for a yearly maximum, rounded decimal
#        totals of the aggregate gains (their last digit depends on the
#        summation order).
import collections
import concurrent.futures
import datetime
import hashlib
import itertools
import json
import os
import random
import shutil
import subprocess
from fractions import Fraction

import core
import costs
import hashscan
from core import D, BASE_DAY
from common import (run_harness, run_model, qenc, Reader, build_bins, child_env, BUILD, VERIF, REPO, NPROC)
from props import c17

GROUP = "costs"
INVENTORY = os.path.join(VERIF, "lib", "hash_sites.json")
CLASSES = {"sorted-before-use", "keyed-rebuild", "fixed-sorted", "stderr-only", "other-binary", "not-a-hash-container"}


# ------------------------------------------------------------ inputs
def R(sec, sd, act, sh=None, aps=None, af=None, split=None, td=None):
    return c17.row(sec, sd, act, sh, aps, af, td, split)


def long_dec(rng):
    return D(rng.randint(10 ** 27, 10 ** 28 - 1), rng.randint(20, 27))


def sum_in_orders(triples):
    """model (dec) sums of each triple in all 6 orders -> list of sets"""
    perms = list(itertools.permutations(range(3)))
    jobs = []
    for t in triples:
        for p in perms:
            jobs.append([3, 1, 3] + sum((qenc(t[i][1]) for i in p), []))
    outs = run_model(jobs, group=GROUP)
    res = []
    for k in range(len(triples)):
        res.append(set(tuple(o) for o in outs[k * 6:(k + 1) * 6]))
    return res


def sensitive_triples(rng, want):
    """triples of decimals whose rust_decimal sum depends on the order of
    addition, according to the extracted model of rust_decimal addition"""
    found = []
    while len(found) < want:
        cand = [[long_dec(rng) for _ in range(3)] for _ in range(40)]
        for t, s in zip(cand, sum_in_orders(cand)):
            if len(s) > 1 and len(found) < want:
                found.append(t)
    return found


def witness_inputs(rng):
    """hand-shaped inputs, one per hash-ordered site; (name, case, what)"""
    w = []
    # splits.rs: >= 3 affiliates + a global split
    rows = []
    for k, af in enumerate(["", "Spouse", "Kid", "Aunt", "(R)", "Zed"]):
        rows.append(R("FOO", "2022-01-%02d" % (3 + k), "Buy", 10 + k, 10, af=af or None))
    rows.append(R("FOO", "2022-02-01", "Split", split=("2", "1")))
    rows.append(R("FOO", "2022-03-01", "Sell", 2, 9))
    w.append(("global-split-many-affiliates", {"rows": rows, "inits": {}}, "splits.rs expansion order"))
    # costs.rs yearly maximum: four days of one year with equal totals
    rows = [R("AAA", "2022-03-03", "Buy", 1, 100), R("BBB", "2022-05-03", "Buy", 1, 50),
            R("AAA", "2022-05-03", "Sell", (5, 1), 100), R("AAA", "2022-06-03", "Buy", (5, 1), 100),
            R("BBB", "2022-06-03", "Sell", 1, 50), R("BBB", "2022-06-04", "Buy", 1, 50),
            R("AAA", "2022-06-04", "Sell", (5, 1), 100), R("AAA", "2022-07-04", "Buy", (5, 1), 100),
            R("BBB", "2022-07-04", "Sell", 1, 50)]
    w.append(("equal-daily-totals", {"rows": rows, "inits": {}}, "costs.rs yearly tie"))
    # approot.rs: >= 3 securities with rows of a registered affiliate only
    rows = [R("MMM", "2022-03-03", "Buy", 1, 100)]
    for k, s in enumerate(["RRA", "RRB", "RRC", "RRD", "RRE"]):
        rows.append(R(s, "2022-03-%02d" % (4 + k), "Buy", 10, 10, af="(R)"))
        rows.append(R(s, "2022-04-%02d" % (4 + k), "Buy", 1, 10, af="Spouse"))
    w.append(("registered-only-securities", {"rows": rows, "inits": {}}, "approot.rs note order"))
    # approot.rs write_render_result: several securities WITH ERRORS (over-sale, return of capital above the
    # cost base, sale by an affiliate holding nothing) next to healthy ones: the closing list of securities
    # with errors, the error sections and the tables must come in one order
    rows = [R("GOOD", "2022-01-03", "Buy", 5, 10), R("GOOD", "2022-06-03", "Sell", 2, 12),
            R("OVER", "2022-01-04", "Buy", 1, 10), R("OVER", "2022-02-04", "Sell", 3, 10),
            R("ROCX", "2022-01-05", "Buy", 1, 1), R("ROCX", "2022-02-05", "RoC", aps=5),
            R("NOBODY", "2022-01-06", "Buy", 2, 10), R("NOBODY", "2022-02-06", "Sell", 1, 10, af="Spouse"),
            R("ALSO", "2022-01-07", "Sell", 1, 10), R("FINE", "2022-01-08", "Buy", 1, 10)]
    w.append(("several-securities-with-errors", {"rows": rows, "inits": {}}, "approot.rs list of securities with errors"))
    # approot.rs per-security loop (over a hash map): state carried from one security to the next - opening
    # positions of some securities, a split for all affiliates in others where the default affiliate never trades
    rows = []
    for k, s in enumerate(["AAA", "BBB", "CCC", "DDD", "EEE", "FFF"]):
        rows.append(R(s, "2022-01-%02d" % (3 + k), "Buy", 10 + k, 10, af="Spouse"))
        rows.append(R(s, "2022-02-%02d" % (3 + k), "Split", split=("2", "1")))
        rows.append(R(s, "2022-03-%02d" % (3 + k), "Sell", 2, 9, af="Spouse"))
    w.append(("opening-positions-next-to-global-splits", {"rows": rows, "inits": {"BBB": (D(5), D(10000, 2)), "EEE": (D(7), D(7000, 2))}},
              "approot.rs per-security loop"))
    # delta_list.rs automatic adjustment rows: several buying affiliates with EQUAL parts of a denied loss
    rows = [R("FOO", "2022-01-03", "Buy", 40, 10)]
    for k, af in enumerate(["Spouse", "Child", "Aunt", "Zed"]):
        rows.append(R("FOO", "2022-03-%02d" % (2 + k), "Buy", 5, 8, af=af))
    rows.append(R("FOO", "2022-03-10", "Sell", 20, 6))
    rows.append(R("FOO", "2022-06-01", "Sell", 1, 9, af="Spouse"))
    w.append(("equal-parts-of-a-denied-loss", {"rows": rows, "inits": {}}, "delta_list.rs order of the automatic adjustment rows"))
    # decimal sums whose last digit depends on the order: gains of three
    # securities, costs of three securities settling on one day / carried
    trs = sensitive_triples(rng, 8)
    t = trs[0]
    rows = []
    for k, x in enumerate(t):
        rows.append(R("G%d" % k, "2022-03-03", "Buy", 1, 0))
        rows.append(R("G%d" % k, "2022-03-04", "Sell", 1, x))
    w.append(("long-decimal-gains", {"rows": rows, "inits": {}}, "cumulative_gains.rs sum order"))
    t = trs[1]
    rows = [R("S%d" % k, "2022-03-03", "Buy", 1, x) for k, x in enumerate(t)]
    rows.append(R("T9", "2022-03-04", "Buy", 1, 1))
    w.append(("long-decimal-costs", {"rows": rows, "inits": {}}, "costs.rs total update order (settlement day and carry-forward)"))
    # superficial loss shared by three buying affiliates whose (long) share
    # counts add up differently in different orders; the default affiliate
    # sells everything it bought at a loss
    for k, t in enumerate(trs[2:]):
        rows = [R("FOO", "2022-03-01", "Buy", t[0], 10)]
        for j, (x, af) in enumerate(zip(t, ["Spouse", "Kid", "Aunt"])):
            rows.append(R("FOO", "2022-03-%02d" % (2 + j), "Buy", x, 10, af=af))
        rows.append(R("FOO", "2022-03-10", "Sell", t[0], 5))
        w.append(("superficial-loss-three-buyers-%d" % k, {"rows": rows, "inits": {}}, "superficial_loss.rs buyers' total"))
    return w


MODES = [
    ("tables", []),
    ("tables-full", ["--print-full-values"]),
    ("total-costs", ["--total-costs"]),
    ("total-costs-full", ["--total-costs", "--print-full-values"]),
    ("csv-dir", ["-d", "@OUT@"]),
    ("csv-dir-total-costs-full", ["-d", "@OUT@", "--total-costs", "--print-full-values"]),
    ("summary", ["--summarize-before", "@DATE@"]),
    ("summary-annual", ["--summarize-before", "@DATE@", "--summarize-annual-gains"]),
]


def summary_date(case):
    days = sorted(r["sd"] for r in case["rows"])
    return core.date_str(days[len(days) * 2 // 3] + 1)


# ------------------------------------------------------------ repeated processes
def run_once(acb, csv_text, init, args, scratch):
    """one fresh process; -> (rc, stdout bytes, {file: bytes})"""
    os.makedirs(os.path.join(scratch, "home"), exist_ok=True)
    inp = os.path.join(scratch, "input.csv")
    with open(inp, "w") as fh:
        fh.write(csv_text)
    out = os.path.join(scratch, "out")
    argv = [acb] + [a.replace("@OUT@", out) for a in args]
    for spec in init:
        argv += ["-b", spec]
    argv.append(inp)
    p = subprocess.run(argv, cwd=scratch, env=child_env({"HOME": os.path.join(scratch, "home")}),
                       stdout=subprocess.PIPE, stderr=subprocess.PIPE, timeout=120)
    files = {}
    if os.path.isdir(out):
        for root, _, fs in os.walk(out):
            for f in fs:
                fp = os.path.join(root, f)
                files[os.path.relpath(fp, out)] = open(fp, "rb").read()
    return p.returncode, p.stdout, files, p.stderr


def repeat(acb, hc, args, n, base, pool):
    """n fresh processes on one input; -> list of distinct observations"""
    def one(k):
        d = os.path.join(base, "r%d" % k)
        os.makedirs(d, exist_ok=True)
        try:
            rc, so, files, se = run_once(acb, hc["files"][0], hc["init"], args, d)
        finally:
            pass
        shutil.rmtree(d, ignore_errors=True)
        return rc, so, files

    obs = list(pool.map(one, range(n)))
    distinct = []
    for o in obs:
        if o not in distinct:
            distinct.append(o)
    return distinct, len(obs)


def describe_diff(a, b):
    if a[0] != b[0]:
        return "exit status %d vs %d" % (a[0], b[0])
    if a[1] != b[1]:
        la, lb = a[1].decode(errors="replace").split("\n"), b[1].decode(errors="replace").split("\n")
        for k, (x, y) in enumerate(zip(la, lb)):
            if x != y:
                return "stdout line %d: %r vs %r" % (k + 1, x.strip()[:160], y.strip()[:160])
        return "stdout length %d vs %d lines" % (len(la), len(lb))
    for f in sorted(set(a[2]) | set(b[2])):
        if a[2].get(f) != b[2].get(f):
            la = (a[2].get(f) or b"").decode(errors="replace").split("\n")
            lb = (b[2].get(f) or b"").decode(errors="replace").split("\n")
            for k, (x, y) in enumerate(zip(la, lb)):
                if x != y:
                    return "file %s line %d: %r vs %r" % (f, k + 1, x[:160], y[:160])
            return "file %s differs" % f
    return "?"


# ------------------------------------------------------------ model side
def gains_input(io, order=0, arith=1):
    """aggregate gains model input from the implementation's deltas: only
    securities processed without error take part (approot.rs)"""
    names = sorted((s for s, v in io["secs"].items() if v["err"] is None), key=lambda s: s.encode())
    out = [5, arith, order, len(names)]
    for k, s in enumerate(names):
        gs = [(d["year"], Fraction(d["gain"])) for d in io["secs"][s]["deltas"] if d["gain"] is not None]
        out += [k, len(gs)]
        for y, g in gs:
            out += [y] + qenc(g)
    return out


def parse_gains(ints):
    rd = Reader(ints)
    if rd.z() != 1:
        return None
    if rd.z() != 0:
        return "panic"
    tot = rd.q()
    ys = []
    for _ in range(rd.z()):
        y = rd.z()
        ys.append((y, rd.q()))
    return (tot, tuple(ys))


def impl_gains(agg):
    """aggregate gains table (full values) -> (total, ((year, gain)...))"""
    ys, tot = [], None
    for r in agg["rows"]:
        v = r[1].replace("$", "").replace(",", "")
        neg = v.startswith("-")
        v = v.lstrip("+-")
        q = Fraction(v) * (-1 if neg else 1)
        if r[0] == "Since inception":
            tot = q
        else:
            ys.append((int(r[0]), q))
    return (tot, tuple(ys))


def sensitivity_jobs(io):
    ds, st, at = costs.all_deltas(io)
    jobs = [costs.model_input(ds, st, at), costs.model_input(ds, st, at, sec_order=2),
            costs.model_input(ds, st, at, day_order=2)]
    # all_deltas concatenated in the reverse security order
    names = sorted(io["secs"].keys(), key=lambda s: s.encode(), reverse=True)
    rds = []
    for s in names:
        rds += io["secs"][s]["deltas"]
    jobs.append(costs.model_input(rds, st, at))
    jobs += [gains_input(io, 0), gains_input(io, 2)]
    return jobs


def order_sensitivity(o):
    """does the model of the code say that this input's printed figures would
    change if a hash-ordered loop ran in another order? -> set of site names
    (o: the six model outputs of sensitivity_jobs)"""
    sens = set()
    if o[0] != o[1]:
        sens.add("costs.rs carry-forward order")
    if o[0] != o[2]:
        sens.add("costs.rs yearly tie")
    if o[0] != o[3]:
        t0, t3 = costs.parse_tables(o[0]), costs.parse_tables(o[3])
        if t0.get("status") == "ok" and t3.get("status") == "ok":
            if t0["notes"] != t3["notes"]:
                sens.add("approot.rs note order")
            if t0["total"] != t3["total"]:
                sens.add("costs.rs total update order")
        else:
            sens.add("costs.rs total update order")
    if o[4] != o[5]:
        sens.add("cumulative_gains.rs sum order")
    return sens


def correspondence(io, m, g):
    """order-related observables: model (sorted iteration; m, g: outputs of the
    costs and gains entry points) vs implementation"""
    full = io["full"]
    ds, st, at = costs.all_deltas(io)
    names = {d["afname"]: at[d["af"]] for d in ds}
    impl = costs.parse_impl_tables(full, st, names)
    mod = costs.parse_tables(m)
    if mod["status"] != "ok":
        return "model outcome %s" % mod["status"]
    if mod["notes"] != impl["notes"] or mod["notes"] != impl["ynotes"]:
        return "order of the ignored-transaction notes: model %s, implementation %s / %s" % (mod["notes"], impl["notes"], impl["ynotes"])
    if [r[:2] for r in mod["yearly"]] != [r[:2] for r in impl["yearly"]]:
        return "day shown for a yearly maximum: model %s, implementation %s" % (
            [(y, core.date_str(d)) for y, d in (r[:2] for r in mod["yearly"])],
            [(y, core.date_str(d)) for y, d in (r[:2] for r in impl["yearly"])])
    if [r[1] for r in mod["total"]] != [r[1] for r in impl["total"]]:
        return "rounded daily totals: model %s, implementation %s" % ([str(r[1]) for r in mod["total"]], [str(r[1]) for r in impl["total"]])
    mg, ig = parse_gains(g), impl_gains(full["agg"])
    if mg != "panic" and mg is not None:
        if mg[0] != ig[0] or tuple(x for x in mg[1]) != tuple(x for x in ig[1]):
            return "aggregate gains: model %s, implementation %s" % (mg, ig)
    return None


# ------------------------------------------------------------ the check
def scan_sites(res, st):
    found = hashscan.scan(REPO)
    try:
        inv = json.load(open(INVENTORY))["sites"]
    except (OSError, ValueError, KeyError) as e:
        res.violation("broken-correspondence", "the committed site inventory lib/hash_sites.json cannot be read: %s" % e,
                      {"theorem_or_projection": "site inventory"}, found_input=False)
        return found, []
    new, gone, changed = hashscan.compare(found, inv)
    bad_class = [hashscan.key(s) for s in inv if s.get("class") not in CLASSES]
    st["sites_scanned"] = len(found)
    st["sites_in_inventory"] = len(inv)
    if new or gone or changed or bad_class:
        res.violation("broken-correspondence",
                      "iterations over hash containers in %s/src differ from the classified inventory: new %s; vanished %s; changed %s; unclassified %s"
                      % (REPO, new, gone, changed, bad_class),
                      {"theorem_or_projection": "site inventory lib/hash_sites.json (every listed site is covered by a theorem of Properties/C09.v or lies outside stdout/files)",
                       "new_sites": new, "vanished_sites": gone, "changed_sites": changed}, found_input=False)
    return found, inv


def run(res, ctx):
    tier, seed = ctx["tier"], ctx["seed"]
    rng = random.Random(seed * 15485863 + 9)
    st = collections.Counter()
    n_runs = 12 if tier == "quick" else 200
    found, inv = scan_sites(res, st)

    bins, log = build_bins()
    if bins is None:
        res.violation("broken-correspondence", "the acb binary does not build from the current tree",
                      {"theorem_or_projection": "repeated processes", "log": log[-3000:]}, found_input=False)
        return
    acb = os.path.join(bins, "acb")
    exe = ctx["exe"]

    # ---- inputs: witnesses, then generated cases the model calls order-sensitive
    inputs = []   # (name, case, harness case, why)
    for name, case, why in witness_inputs(rng):
        inputs.append((name, case, costs.harness_case(case), {why}))
    n_gen = 600 if tier == "quick" else 3000
    gen = []
    for k in range(n_gen):
        r = rng.random()
        if r < 0.5:
            c = costs.gen_case(rng, nsec=rng.choice([3, 4, 5]), afs=["", "(R)", "Spouse", "Kid", "Aunt (R)"],
                               gaps=[0, 0, 1, 1, 2, 30], n_events=rng.randint(6, 30))
        else:
            c = costs.gen_case(rng)
        gen.append(c)
    hcs = [costs.harness_case(c) for c in gen]
    raw = run_harness(exe, "costs", hcs)
    corr_diffs = []
    sens_count = collections.Counter()
    chosen = []
    usable = []
    for k, (c, hc, io) in enumerate(zip(gen, hcs, raw)):
        st["evaluations"] += 1
        if io.get("status") != "ok" or "err" in io["full"] or io["full"].get("status") == "panic":
            st["impl-" + str(io.get("status"))] += 1
            continue
        usable.append((k, c, hc, io))
    mouts = run_model(sum((sensitivity_jobs(io) for _, _, _, io in usable), []), group=GROUP)
    for j, (k, c, hc, io) in enumerate(usable):
        o6 = mouts[6 * j:6 * j + 6]
        d = correspondence(io, o6[0], o6[4])
        st["correspondence_cases"] += 1
        if d:
            corr_diffs.append((hc, d))
        sens = order_sensitivity(o6)
        for s in sens:
            sens_count[s] += 1
        if sens:
            st["order_sensitive_cases"] += 1
            chosen.append(("generated-%d" % k, c, hc, sens))
    # keep a bounded, site-balanced selection of the sensitive generated cases
    budget = 24 if tier == "quick" else 120
    per_site = collections.Counter()
    picked = []
    for item in chosen:
        if len(picked) >= budget:
            break
        if any(per_site[s] < (4 if tier == "quick" else 40) for s in item[3]):
            picked.append(item)
            for s in item[3]:
                per_site[s] += 1
    # plus a few arbitrary generated cases (sites outside the cost tables: split expansion, sfl)
    for k, (c, hc, io) in enumerate(zip(gen, hcs, raw)):
        if len(picked) >= budget + (6 if tier == "quick" else 60):
            break
        if io.get("status") == "ok" and len(set(d["af"] for s in io["secs"].values() for d in s["deltas"])) >= 3:
            picked.append(("generated-multi-affiliate-%d" % k, c, hc, {"several affiliates"}))
    inputs += picked

    # ---- repeated processes
    base = os.path.join(BUILD, "run", "c09-%d" % os.getpid())
    shutil.rmtree(base, ignore_errors=True)
    os.makedirs(base, exist_ok=True)
    failures = []
    samples = []
    seen = set()
    try:
        with concurrent.futures.ThreadPoolExecutor(max_workers=NPROC) as pool:
            for idx, (name, case, hc, why) in enumerate(inputs):
                modes = MODES if not name.startswith("generated") else [MODES[3], MODES[5], MODES[1], MODES[7]]
                for mname, margs in modes:
                    args = [a.replace("@DATE@", summary_date(case)) for a in margs]
                    distinct, n = repeat(acb, hc, args, n_runs, os.path.join(base, "i%d-%s" % (idx, mname)), pool)
                    st["processes"] += n
                    st["input_mode_pairs"] += 1
                    st["mode-" + mname] += 1
                    if len(distinct) > 1:
                        failures.append((name, hc, mname, args, distinct, why))
                h = hashlib.sha1(hc["files"][0].encode()).hexdigest()
                if h not in seen:
                    seen.add(h)
                    st["distinct_nontrivial"] += 1
                    if len(samples) < 3:
                        samples.append({"name": name, "input": hc, "order_sensitive_sites": sorted(why)})
    finally:
        shutil.rmtree(base, ignore_errors=True)

    known = costs.load_findings("C09")
    reported = 0
    for name, hc, mname, args, distinct, why in failures:
        diff = describe_diff(distinct[0], distinct[1])
        st["nondeterministic_pairs"] += 1
        if reported >= 4:
            continue
        reported += 1
        res.violation("failing-input",
                      "%d runs of `acb %s` on the same file gave %d different outputs (%s): %s"
                      % (n_runs, " ".join(a if not a.startswith(BUILD) else "<dir>" for a in args), len(distinct), name, diff),
                      {"input": hc, "mode": mname, "args": [a if not a.startswith(BUILD) else "@OUT@" for a in args], "runs": n_runs,
                       "expected_spec": "identical stdout / files on every run",
                       "actual_impl": {"difference": diff,
                                       "stdout_a": distinct[0][1].decode(errors="replace")[-3000:],
                                       "stdout_b": distinct[1][1].decode(errors="replace")[-3000:]},
                       "model_says_order_sensitive_at": sorted(why)})
    for f in known:
        w = f.get("witness")
        if w:
            st["known_findings_replayed"] += 1
    if corr_diffs and not failures:
        hc, d = corr_diffs[0]
        res.violation("broken-correspondence", "order fixed by the model and the implementation differ: " + d,
                      {"theorem_or_projection": "correspondence projection C09 (note order, yearly day, rounded totals, aggregate gains)",
                       "input": hc, "difference": d, "differing_cases": len(corr_diffs)}, found_input=False)
    st["correspondence_diffs"] = len(corr_diffs)
    res.coverage.update({
        "evaluations": st["processes"] + st["evaluations"],
        "distinct_nontrivial": st["distinct_nontrivial"],
        "rule": "inputs run %d times each as fresh processes in every output mode; non-trivial = an input that reaches a hash-ordered loop with >= 3 keys: the hand-shaped witnesses (global split over 6 affiliates; four equal daily totals; five registered-only securities; order-sensitive decimal gains / costs / buyers' shares selected with the extracted model of rust_decimal addition) and the generated histories for which the model of the code, run with another iteration order, prints different figures; distinct by SHA-1 of the CSV text" % n_runs,
        "samples": samples,
        "input_distribution": dict(sorted(st.items())),
        "order_sensitive_by_site": dict(sorted(sens_count.items())),
        "processes": st["processes"],
        "runs_per_input_and_mode": n_runs,
        "sites_scanned": st["sites_scanned"],
        "site_classes": dict(collections.Counter(s.get("class") for s in inv)),
        "refuted_witnesses_replayed": len(witness_inputs(random.Random(0))),
        "known_findings_replayed": st["known_findings_replayed"],
    })
    res.assumptions += [
        "repeated processes sample hash seeds; the statement for all seeds is the permutation theorems of Properties/C09.v together with the site inventory",
        "the site scanner is lexical (no type inference): it over-approximates field names and follows let-bindings and return types only",
        "stderr is outside the property (warnings and error lists may come in any order)",
    ]


def replay(res, ctx, path):
    rep = json.load(open(path))
    bins, _ = build_bins()
    acb = os.path.join(bins, "acb")
    base = os.path.join(BUILD, "run", "c09-replay-%d" % os.getpid())
    n = max(40, int(rep.get("runs", 12)))
    try:
        with concurrent.futures.ThreadPoolExecutor(max_workers=NPROC) as pool:
            distinct, _ = repeat(acb, rep["input"], rep["args"], n, base, pool)
    finally:
        shutil.rmtree(base, ignore_errors=True)
    if len(distinct) > 1:
        print("replay: FAILS: %d runs gave %d different outputs: %s" % (n, len(distinct), describe_diff(distinct[0], distinct[1])))
        return 1
    print("replay: %d runs, identical output" % n)
    return 0
