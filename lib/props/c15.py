# C15 - stock splits are value-neutral.
import collections
import random
from fractions import Fraction

import core
import corecheck
import gen

TOL = Fraction(1, 10 ** 9)
# ratios whose factor and inverse are both finite decimals (so that later rows can be restated exactly)
RATIOS = [("2", "1"), ("1.0", "2.0"), ("4", "1"), ("1.0", "4.0"), ("5", "1"), ("1.0", "5.0"), ("10", "1"),
          ("1.0", "10.0"), ("5", "4"), ("4.0", "5.0"), ("5", "2"), ("2.0", "5.0"), ("2.5", "1"), ("8", "1"), ("1.0", "8.0"),
          # long factors and two-digit sides; reverse splits are written with a decimal point: a reverse
          # split of whole numbers is whole-number-only and refuses odd lots on purpose (C04)
          ("1.0", "32.0"), ("1.0", "64.0"), ("1.0", "160.0"), ("32", "1"), ("1.0", "16.0"), ("25", "2"), ("12.5", "1"), ("20", "1")]


def scale_row(r, f):
    r = dict(r)
    a = r["act"]
    if a in ("Buy", "Sell"):
        r["sh"] = (core.dtext(r["sh"][1] * f), r["sh"][1] * f)
        r["aps"] = (core.dtext(r["aps"][1] / f), r["aps"][1] / f)
    elif a == "RoC":
        r["aps"] = (core.dtext(r["aps"][1] / f), r["aps"][1] / f)
    return r


def run(res, ctx):
    tier, seed = ctx["tier"], ctx["seed"]
    rng = random.Random(seed * 160481183 + 15)
    st = collections.Counter()
    seen, samples, corr = set(), [], []
    n = 900 if tier == "quick" else 20000
    orig, split, meta = [], [], []
    tries = 0
    while len(orig) < n and tries < n * 5:
        tries += 1
        rows = gen.gen_history(rng, p_invalid=0.0, p_split=0.05, p_sfl_spec=0.0, terminating_only=True,
                               window_focus=(rng.random() < 0.7), p_roc=0.08)
        if len(rows) < 2:
            continue
        k = rng.randint(0, len(rows) - 1)
        ratio = rng.choice(RATIOS)
        f = Fraction(ratio[0]) / Fraction(ratio[1])
        try:
            tail = [scale_row(r, f) for r in rows[k:]]
        except ValueError:
            continue
        day = rows[k]["sd"]
        byid = {}
        for r in rows:
            if r["act"] == "Split" and r.get("af") is None:
                continue
            name = r["af"] if r.get("af") is not None else "Default"
            byid.setdefault(core.af_id(name)[0], name)
        inits = {}
        if rng.random() < 0.2:
            # an opening position: the default affiliate holds shares, possibly without a row of its own
            inits["FOO"] = (core.D(rng.randint(1, 40)), core.D(rng.randint(0, 50000), 2))
            byid.setdefault(core.af_id("Default")[0], "Default")
        afs = [byid[i] for i in sorted(byid)]
        glob = rng.random() < 0.5
        if glob:
            ins = [{"sec": "FOO", "td": day, "sd": day, "act": "Split", "split": ratio, "af": None}]
            if rng.random() < 0.3:
                # two splits in a row (2-for-1 then 3-for-1 is 6-for-1): the later rows are restated by the product
                ratio2 = rng.choice([("2", "1"), ("3", "1"), ("3", "2"), ("1.0", "2.0"), ("5", "4")])
                f2 = Fraction(ratio2[0]) / Fraction(ratio2[1])
                try:
                    tail = [scale_row(r, f2) for r in tail]
                except ValueError:
                    continue
                ins.append({"sec": "FOO", "td": day, "sd": day, "act": "Split", "split": ratio2, "af": None})
                f = f * f2
                ratio = (ratio[0] + "x" + ratio2[0], ratio[1] + "x" + ratio2[1])
                st["two-splits-in-a-row"] += 1
        else:
            order = list(afs)
            rng.shuffle(order)
            ins = [{"sec": "FOO", "td": day, "sd": day, "act": "Split", "split": ratio, "af": a} for a in order]
        # a per-affiliate split within one day of a global one is refused by the tool (C04 known finding): avoid
        near = [r for r in rows if r["act"] == "Split" and (abs(r["td"] - day) <= 3 or abs(r["sd"] - day) <= 3)]
        if near:
            continue
        orig.append({"rows": rows, "inits": inits})
        split.append({"rows": rows[:k] + ins + tail, "inits": inits})
        meta.append((k, len(ins), f, ratio, glob))
    ra = corecheck.run_cases(ctx, orig)
    rb = corecheck.run_cases(ctx, split)
    for x, y, (k, nins, f, ratio, glob) in zip(ra, rb, meta):
        st["evaluations"] += 1
        for r in (x, y):
            d = core.diff_exact(r["dec"], r["impl"])
            if d is not None:
                corr.append((r, d))
        ia, ib = x["impl"], y["impl"]
        if ia["status"] == "ok" and ib["status"] == "err" and ia["secs"][0]["stop"][0] == 0:
            # the only difference between the inputs is the inserted split row(s): an input that is
            # read and accepted without them and refused as unreadable with them is not value-neutral
            res.violation("failing-input", "history accepted, but the input is refused after inserting a %s-for-%s split row: %s" % (ratio[0], ratio[1], str(ib.get("msg") or ib.get("error") or "")[:200]),
                          {"input_original": x["hc"], "input_with_split": y["hc"], "position": k})
            continue
        if ia["status"] != "ok" or ib["status"] != "ok":
            st["skipped-status"] += 1
            continue
        sa, sb = ia["secs"][0], ib["secs"][0]
        if sa["stop"][0] != 0:
            st["original-rejected"] += 1
            continue
        st["global" if glob else "per-affiliate"] += 1
        odd_lot_ahead = any(r["act"] == "Split" and "." not in r["split"][0] + r["split"][1]
                            and Fraction(r["split"][0]) < Fraction(r["split"][1]) for r in x["case"]["rows"][k:]) \
            if "case" in x else False
        if sb["stop"][0] != 0 and odd_lot_ahead and "non-integer share balance" in (sb.get("msg") or ""):
            # a later whole-number-only reverse split: restating the shares before it can leave an odd
            # lot, which the tool refuses on purpose (C04 lists it as an impossible history; the
            # theorem C15_inserted_split excludes such rows: no_int_only) - outside the statement
            st["restated-history-has-odd-lot"] += 1
            continue
        if sb["stop"][0] != 0:
            res.violation("failing-input", "history accepted, but rejected after inserting a %s-for-%s split and restating later rows: %s" % (ratio[0], ratio[1], sb.get("msg")),
                          {"input_original": x["hc"], "input_with_split": y["hc"], "position": k})
            continue
        # drop the inserted split rows (read indices k .. k+len(ins)-1 of the new input)
        lo, hi = k, k + nins - 1
        rows_b = [d for d in sb["deltas"] if not (d["act"] == "Split" and lo <= d["ri"] <= hi)]
        rows_a = sa["deltas"]
        if len(rows_a) != len(rows_b):
            res.violation("failing-input", "row count differs after inserting a value-neutral split (%d vs %d)" % (len(rows_a), len(rows_b)),
                          {"input_original": x["hc"], "input_with_split": y["hc"], "position": k})
            continue
        bad = None
        had_sfl = False
        for j, (d, e) in enumerate(zip(rows_a, rows_b)):
            after = d["ri"] >= k
            scale = f if after else 1
            if d["act"] != e["act"] or d["afid"] != e["afid"]:
                bad = "row %d kind" % j
            elif not core.close(d["gain"], e["gain"], TOL):
                bad = "row %d capital gain %s vs %s" % (j, d["gain"], e["gain"])
            elif not core.close(d["post"][2], e["post"][2], TOL):
                bad = "row %d total cost base %s vs %s" % (j, d["post"][2], e["post"][2])
            elif (d["sfl"] is None) != (e["sfl"] is None) or (d["sfl"] and not core.close(d["sfl"][0], e["sfl"][0], TOL)):
                bad = "row %d superficial loss %s vs %s" % (j, d["sfl"], e["sfl"])
            elif abs(d["post"][0] * scale - e["post"][0]) > TOL * max(1, scale):
                bad = "row %d share balance %s (x%s) vs %s" % (j, d["post"][0], scale, e["post"][0])
            if d["sfl"] and after:
                had_sfl = True
            if bad:
                break
        if bad:
            res.violation("failing-input", "inserting a %s-for-%s split at position %d (%s) changes the report: %s" % (ratio[0], ratio[1], k, "global" if glob else "per affiliate", bad),
                          {"input_original": x["hc"], "input_with_split": y["hc"], "position": k})
        if had_sfl and x["hash"] not in seen:
            seen.add(x["hash"])
            st["distinct_nontrivial"] += 1
            if len(samples) < 2:
                samples.append({"original": x["hc"]["files"][0], "with_split": y["hc"]["files"][0]})
    if corr and not res.violations:
        r, d = corr[0]
        res.violation("broken-correspondence", "model (dec) and implementation differ: " + d,
                      {"theorem_or_projection": "correspondence projection C15", "input": r["hc"], "difference": d}, found_input=False)
    res.coverage.update({
        "evaluations": 2 * st["evaluations"],
        "distinct_nontrivial": st["distinct_nontrivial"],
        "rule": "seeded random accepted histories; an a-for-b split (forward, reverse, fractional; global row or one row per affiliate in random order) is inserted at a random position and every later share quantity multiplied / per-share amount divided by a/b; non-trivial = a superficial loss after the inserted split; gains, denied amounts and cost bases compared within 1e-9, share balances scaled",
        "samples": samples,
        "input_distribution": dict(sorted(st.items())),
        "traces_validated_against_impl": 2 * st["evaluations"],
    })


def replay(res, ctx, path):
    def pair(runs):
        if "input_original" not in runs or "input_with_split" not in runs:
            return []
        ia, ib = runs["input_original"]["impl"], runs["input_with_split"]["impl"]
        if ia["status"] != "ok" or ia["secs"][0]["stop"][0] != 0:
            return []
        if ib["status"] != "ok":
            return ["history accepted, but the input is refused after inserting the split row(s)"]
        sa, sb = ia["secs"][0], ib["secs"][0]
        if sb["stop"][0] != 0:
            return ["history accepted, but rejected after inserting a value-neutral split: %s" % sb.get("msg")]
        rows_a = [d for d in sa["deltas"] if d["act"] != "Split"]
        rows_b = [d for d in sb["deltas"] if d["act"] != "Split"]
        if len(rows_a) != len(rows_b):
            return ["row count differs after inserting a value-neutral split (%d vs %d)" % (len(rows_a), len(rows_b))]
        for j, (d, e) in enumerate(zip(rows_a, rows_b)):
            if d["act"] != e["act"] or d["afid"] != e["afid"]:
                return ["row %d kind" % j]
            if not core.close(d["gain"], e["gain"], TOL):
                return ["row %d capital gain %s vs %s" % (j, d["gain"], e["gain"])]
            if not core.close(d["post"][2], e["post"][2], TOL):
                return ["row %d total cost base %s vs %s" % (j, d["post"][2], e["post"][2])]
        return []
    return corecheck.replay(res, ctx, path, pair_judge=pair)
