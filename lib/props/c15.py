# C15 - stock splits are value-neutral.
import collections
import random
from fractions import Fraction

import core
import corecheck
import gen

TOL = Fraction(1, 10 ** 9)
# ratios whose factor and inverse are both finite decimals (so that later rows can be restated exactly)
RATIOS = [("2", "1"), ("1.0", "2.0"), ("4", "1"), ("1.0", "4.0"), ("5", "1"), ("1.0", "5.0"), ("10", "1"),
          ("1.0", "10.0"), ("5", "4"), ("4.0", "5.0"), ("5", "2"), ("2.0", "5.0"), ("2.5", "1"), ("8", "1"), ("1.0", "8.0"),
          # long factors and two-digit sides; reverse splits are written with a decimal point: a reverse
          # split of whole numbers is whole-number-only and refuses odd lots on purpose (C04)
          ("1.0", "32.0"), ("1.0", "64.0"), ("1.0", "160.0"), ("32", "1"), ("1.0", "16.0"), ("25", "2"), ("12.5", "1"), ("20", "1")]


def scale_row(r, f):
    r = dict(r)
    a = r["act"]
    if a in ("Buy", "Sell"):
        r["sh"] = (core.dtext(r["sh"][1] * f), r["sh"][1] * f)
        r["aps"] = (core.dtext(r["aps"][1] / f), r["aps"][1] / f)
    elif a == "RoC":
        r["aps"] = (core.dtext(r["aps"][1] / f), r["aps"][1] / f)
    return r


def run(res, ctx):
    tier, seed = ctx["tier"], ctx["seed"]
    rng = random.Random(seed * 160481183 + 15)
    st = collections.Counter()
    seen, samples, corr = set(), [], []
    n = 900 if tier == "quick" else 20000
    orig, split, meta = [], [], []
    tries = 0
    while len(orig) < n and tries < n * 5:
        tries += 1
        rows = gen.gen_history(rng, p_invalid=0.0, p_split=0.05, p_sfl_spec=0.0, terminating_only=True,
                               window_focus=(rng.random() < 0.7), p_roc=0.08)
        if len(rows) < 2:
            continue
        k = rng.randint(0, len(rows) - 1)
        ratio = rng.choice(RATIOS)
        f = Fraction(ratio[0]) / Fraction(ratio[1])
        try:
            tail = [scale_row(r, f) for r in rows[k:]]
        except ValueError:
            continue
        day = rows[k]["sd"]
        byid = {}
        for r in rows:
            if r["act"] == "Split" and r.get("af") is None:
                continue
            name = r["af"] if r.get("af") is not None else "Default"
            byid.setdefault(core.af_id(name)[0], name)
        inits = {}
        if rng.random() < 0.2:
            # an opening position: the default affiliate holds shares, possibly without a row of its own
            inits["FOO"] = (core.D(rng.randint(1, 40)), core.D(rng.randint(0, 50000), 2))
            byid.setdefault(core.af_id("Default")[0], "Default")
        afs = [byid[i] for i in sorted(byid)]
        glob = rng.random() < 0.5
        if glob:
            ins = [{"sec": "FOO", "td": day, "sd": day, "act": "Split", "split": ratio, "af": None}]
            if rng.random() < 0.3:
                # two splits in a row (2-for-1 then 3-for-1 is 6-for-1): the later rows are restated by the product
                ratio2 = rng.choice([("2", "1"), ("3", "1"), ("3", "2"), ("1.0", "2.0"), ("5", "4")])
                f2 = Fraction(ratio2[0]) / Fraction(ratio2[1])
                try:
                    tail = [scale_row(r, f2) for r in tail]
                except ValueError:
                    continue
                ins.append({"sec": "FOO", "td": day, "sd": day, "act": "Split", "split": ratio2, "af": None})
                f = f * f2
                ratio = (ratio[0] + "x" + ratio2[0], ratio[1] + "x" + ratio2[1])
                st["two-splits-in-a-row"] += 1
        else:
            order = list(afs)
            rng.shuffle(order)
            ins = [{"sec": "FOO", "td": day, "sd": day, "act": "Split", "split": ratio, "af": a} for a in order]
        # a per-affiliate split within one day of a global one is refused by the tool (C04 known finding): avoid
        near = [r for r in rows if r["act"] == "Split" and (abs(r["td"] - day) <= 3 or abs(r["sd"] - day) <= 3)]
        if near:
            continue
        orig.append({"rows": rows, "inits": inits})
        split.append({"rows": rows[:k] + ins + tail, "inits": inits})
        meta.append((k, len(ins), f, ratio, glob))
    ra = corecheck.run_cases(ctx, orig)
    rb = corecheck.run_cases(ctx, split)
    bst = {"st": collections.Counter(), "diffs": []}
    proved_bound_corpus(res, ctx, bst)
    proved_bound_pass(res, ctx, ra, rb, meta, bst)
    for x, y, (k, nins, f, ratio, glob) in zip(ra, rb, meta):
        st["evaluations"] += 1
        for r in (x, y):
            d = core.diff_exact(r["dec"], r["impl"])
            if d is not None:
                corr.append((r, d))
        ia, ib = x["impl"], y["impl"]
        if ia["status"] == "ok" and ib["status"] == "err" and ia["secs"][0]["stop"][0] == 0:
            # the only difference between the inputs is the inserted split row(s): an input that is
            # read and accepted without them and refused as unreadable with them is not value-neutral
            res.violation("failing-input", "history accepted, but the input is refused after inserting a %s-for-%s split row: %s" % (ratio[0], ratio[1], str(ib.get("msg") or ib.get("error") or "")[:200]),
                          {"input_original": x["hc"], "input_with_split": y["hc"], "position": k})
            continue
        if ia["status"] != "ok" or ib["status"] != "ok":
            st["skipped-status"] += 1
            continue
        sa, sb = ia["secs"][0], ib["secs"][0]
        if sa["stop"][0] != 0:
            st["original-rejected"] += 1
            continue
        st["global" if glob else "per-affiliate"] += 1
        odd_lot_ahead = any(r["act"] == "Split" and "." not in r["split"][0] + r["split"][1]
                            and Fraction(r["split"][0]) < Fraction(r["split"][1]) for r in x["case"]["rows"][k:]) \
            if "case" in x else False
        if sb["stop"][0] != 0 and odd_lot_ahead and "non-integer share balance" in (sb.get("msg") or ""):
            # a later whole-number-only reverse split: restating the shares before it can leave an odd
            # lot, which the tool refuses on purpose (C04 lists it as an impossible history; the
            # theorem C15_inserted_split excludes such rows: no_int_only) - outside the statement
            st["restated-history-has-odd-lot"] += 1
            continue
        if sb["stop"][0] != 0:
            res.violation("failing-input", "history accepted, but rejected after inserting a %s-for-%s split and restating later rows: %s" % (ratio[0], ratio[1], sb.get("msg")),
                          {"input_original": x["hc"], "input_with_split": y["hc"], "position": k})
            continue
        # drop the inserted split rows (read indices k .. k+len(ins)-1 of the new input)
        lo, hi = k, k + nins - 1
        rows_b = [d for d in sb["deltas"] if not (d["act"] == "Split" and lo <= d["ri"] <= hi)]
        rows_a = sa["deltas"]
        if len(rows_a) != len(rows_b):
            res.violation("failing-input", "row count differs after inserting a value-neutral split (%d vs %d)" % (len(rows_a), len(rows_b)),
                          {"input_original": x["hc"], "input_with_split": y["hc"], "position": k})
            continue
        bad = None
        had_sfl = False
        for j, (d, e) in enumerate(zip(rows_a, rows_b)):
            after = d["ri"] >= k
            scale = f if after else 1
            if d["act"] != e["act"] or d["afid"] != e["afid"]:
                bad = "row %d kind" % j
            elif not core.close(d["gain"], e["gain"], TOL):
                bad = "row %d capital gain %s vs %s" % (j, d["gain"], e["gain"])
            elif not core.close(d["post"][2], e["post"][2], TOL):
                bad = "row %d total cost base %s vs %s" % (j, d["post"][2], e["post"][2])
            elif (d["sfl"] is None) != (e["sfl"] is None) or (d["sfl"] and not core.close(d["sfl"][0], e["sfl"][0], TOL)):
                bad = "row %d superficial loss %s vs %s" % (j, d["sfl"], e["sfl"])
            elif abs(d["post"][0] * scale - e["post"][0]) > TOL * max(1, scale):
                bad = "row %d share balance %s (x%s) vs %s" % (j, d["post"][0], scale, e["post"][0])
            if d["sfl"] and after:
                had_sfl = True
            if bad:
                break
        if bad:
            res.violation("failing-input", "inserting a %s-for-%s split at position %d (%s) changes the report: %s" % (ratio[0], ratio[1], k, "global" if glob else "per affiliate", bad),
                          {"input_original": x["hc"], "input_with_split": y["hc"], "position": k})
        if had_sfl and x["hash"] not in seen:
            seen.add(x["hash"])
            st["distinct_nontrivial"] += 1
            if len(samples) < 2:
                samples.append({"original": x["hc"]["files"][0], "with_split": y["hc"]["files"][0]})
    if corr and not res.violations:
        r, d = corr[0]
        res.violation("broken-correspondence", "model (dec) and implementation differ: " + d,
                      {"theorem_or_projection": "correspondence projection C15", "input": r["hc"], "difference": d}, found_input=False)
    res.coverage.update({
        "evaluations": 2 * st["evaluations"],
        "distinct_nontrivial": st["distinct_nontrivial"],
        "rule": "seeded random accepted histories; an a-for-b split (forward, reverse, fractional; global row or one row per affiliate in random order) is inserted at a random position and every later share quantity multiplied / per-share amount divided by a/b; non-trivial = a superficial loss after the inserted split; gains, denied amounts and cost bases compared within 1e-9, share balances scaled",
        "samples": samples,
        "input_distribution": dict(sorted(st.items())),
        "traces_validated_against_impl": 2 * st["evaluations"],
    })
    proved_bound_report(res, bst)


def replay(res, ctx, path):
    def pair(runs):
        if "input_original" not in runs or "input_with_split" not in runs:
            return []
        ia, ib = runs["input_original"]["impl"], runs["input_with_split"]["impl"]
        if ia["status"] != "ok" or ia["secs"][0]["stop"][0] != 0:
            return []
        if ib["status"] != "ok":
            return ["history accepted, but the input is refused after inserting the split row(s)"]
        sa, sb = ia["secs"][0], ib["secs"][0]
        if sb["stop"][0] != 0:
            return ["history accepted, but rejected after inserting a value-neutral split: %s" % sb.get("msg")]
        rows_a = [d for d in sa["deltas"] if d["act"] != "Split"]
        rows_b = [d for d in sb["deltas"] if d["act"] != "Split"]
        if len(rows_a) != len(rows_b):
            return ["row count differs after inserting a value-neutral split (%d vs %d)" % (len(rows_a), len(rows_b))]
        for j, (d, e) in enumerate(zip(rows_a, rows_b)):
            if d["act"] != e["act"] or d["afid"] != e["afid"]:
                return ["row %d kind" % j]
            if not core.close(d["gain"], e["gain"], TOL):
                return ["row %d capital gain %s vs %s" % (j, d["gain"], e["gain"])]
            if not core.close(d["post"][2], e["post"][2], TOL):
                return ["row %d total cost base %s vs %s" % (j, d["post"][2], e["post"][2])]
        return []
    def pair_with_bound(runs):
        msgs = pair(runs)
        if not msgs and "input_original" in runs and "input_with_split" in runs:
            msgs = _replay_bound(ctx, runs["input_original"], runs["input_with_split"])
        return msgs
    return corecheck.replay(res, ctx, path, pair_judge=pair_with_bound)


def _replay_bound(ctx, x, y):
    """the proved-bound pass on a recorded pair: position and number of the inserted split rows are read off
    the two inputs (the first row that differs is the first inserted one)"""
    rx, ry = x["case"]["rows"], y["case"]["rows"]
    sig = lambda r: (r["act"], r["td"], r["sd"], r.get("af"), (r.get("sh") or (None, None))[1], r.get("split"))
    k = next((i for i in range(len(rx)) if sig(rx[i]) != sig(ry[i])), len(rx))
    nins = len(ry) - len(rx)
    if nins < 1 or any(r["act"] != "Split" for r in ry[k:k + nins]):
        return []
    ratio = ry[k]["split"]
    c = corecheck._Collect()
    proved_bound_pass(c, ctx, [x], [y], [(k, nins, Fraction(ratio[0]) / Fraction(ratio[1]), ratio, False)],
                      {"st": collections.Counter(), "diffs": []})
    return c.msgs


# ---- the PROVED bound under rounding (C15_dec_split_neutral_bound, coq/Proofs/C15Dec.v; class and per-row
# constant from entry 2 of the extraction group "dectransfer", as lib/props/c01.py bound_pass) ----
def _whole_number_reverse(r):
    return r["act"] == "Split" and "." not in r["split"][0] + r["split"][1] and Fraction(r["split"][0]) < Fraction(r["split"][1])


def _structure(sa, sb, k, nins):
    """the two reports decompose as the theorem says: rows of the original input before read index k, then
    the inserted split rows (one per affiliate; read indices k..k+nins-1 of the new input, expanded rows of a
    global split share its index), then the restated rows, in the same order as in the original report.
    Returns [(i, i')] = index in the original / in the restated report of each paired row, or None"""
    da, db = sa["deltas"], sb["deltas"]
    pos = [j for j, d in enumerate(db) if d["act"] == "Split" and k <= d["ri"] <= k + nins - 1]
    if not pos or pos != list(range(pos[0], pos[0] + len(pos))):
        return None
    p, m = pos[0], len(pos)
    if len(da) + m != len(db):
        return None
    if any(d["ri"] >= k for d in da[:p]) or any(d["ri"] < k for d in da[p:]):
        return None
    pairs = [(i, i) for i in range(p)] + [(i, i + m) for i in range(p, len(da))]
    for i, j in pairs:
        a, b = da[i], db[j]
        if a["act"] != b["act"] or a["afid"] != b["afid"] or b["ri"] != a["ri"] + (nins if i >= p else 0):
            return None
    return pairs


def proved_bound_pass(res, ctx, ra, rb, meta, bst, expect=None):
    """pairs (history, history with a split inserted and the later rows restated) whose two members are both
    in the accumulation class in_class k and satisfy the hypotheses of C15_inserted_split (no opening
    position, one split, every affiliate split, no whole-number-only reverse split later, reports decomposed
    as pre / split rows / restated rows): C15_dec_split_neutral_bound bounds the difference of the ROUNDED
    gains and cost bases of paired rows (index i / i') by ((i+1) + (i'+1)) * cR k.  The implementation is held
    to that PROVED bound instead of 1e-9, and so is the extracted rounded model"""
    from common import run_model
    from props.c01 import parse_errclass
    st = bst["st"]

    def classes(rs):
        enc = [core.to_ints(r["case"], 1)[0] for r in rs]
        return [parse_errclass(o) for o in run_model([[2] + e[1:] for e in enc], group="dectransfer")]
    ca, cb = classes(ra), classes(rb)
    for x, y, pa, pb, (k, nins, f, ratio, glob) in zip(ra, rb, ca, cb, meta):
        st["pairs_evaluated"] += 1
        if pa is None or pb is None or 0 not in pa or 0 not in pb:
            continue
        (ka, c_a, rows_ea), (kb, c_b, rows_eb) = pa[0], pb[0]
        if expect is not None and (ka, kb) != expect:
            bst["diffs"].append((y["hc"], "corpus pair: expected classes %s, entry 2 gives %s" % (expect, (ka, kb))))
        if ka < 0 or kb < 0:
            st["outside-class"] += 1
            continue
        if x["case"].get("inits") or "x" in ratio[0] or any(_whole_number_reverse(r) for r in x["case"]["rows"][k:]):
            st["outside-hypotheses"] += 1
            continue
        kk, c = max((ka, c_a), (kb, c_b))
        hit = False
        for who, a, b in (("impl", x["impl"], y["impl"]), ("model", x["dec"], y["dec"])):
            if a.get("status") != "ok" or b.get("status") != "ok" or 0 not in a["secs"] or 0 not in b["secs"]:
                continue
            sa, sb = a["secs"][0], b["secs"][0]
            if who == "model":
                # the extracted model's rows carry no read index: take the structure found on the implementation
                if not hit or len(sa["deltas"]) != len(x["impl"]["secs"][0]["deltas"]) or len(sb["deltas"]) != len(y["impl"]["secs"][0]["deltas"]):
                    continue
            else:
                if sa["stop"][0] != 0 or sb["stop"][0] != 0 or len(sa["deltas"]) > len(rows_ea) or len(sb["deltas"]) > len(rows_eb):
                    st["incomplete"] += 1
                    continue
                pairs = _structure(sa, sb, k, nins)
                if pairs is None:
                    st["not-decomposed"] += 1
                    continue
                hit = True
                st["pairs_inside"] += 1
                st["k=%d" % kk] += 1
            for i, j in pairs:
                d, e = sa["deltas"][i], sb["deltas"][j]
                bnd = ((i + 1) + (j + 1)) * c
                bad = None
                if not core.close(d["gain"], e["gain"], bnd):
                    bad = ("capital gain", d["gain"], e["gain"])
                elif not core.close(d["post"][2], e["post"][2], bnd):
                    bad = ("total cost base", d["post"][2], e["post"][2])
                if who == "impl":
                    st["rows_checked"] += 1
                    dev = max([Fraction(0)] + [abs(u - v) for u, v in ((d["gain"], e["gain"]), (d["post"][2], e["post"][2]))
                                               if u is not None and v is not None])
                    if dev > 0:
                        st["rows_with_different_rounding"] += 1
                    bst["max_ratio"] = max(bst.get("max_ratio", Fraction(0)), dev / bnd)
                    bst["max_bound"] = max(bst.get("max_bound", Fraction(0)), bnd)
                    if bad:
                        res.violation("failing-input",
                                      "inserting a %s-for-%s split at position %d changes the %s of row %d from %s to %s: "
                                      "more than decimal rounding can cause on these histories (proved bound %.3e, k=%d)"
                                      % (ratio[0], ratio[1], k, bad[0], i, bad[1], bad[2], float(bnd), kk),
                                      {"input_original": x["hc"], "input_with_split": y["hc"], "position": k, "row": i,
                                       "proved_bound": str(bnd), "theorem": "C15_dec_split_neutral_bound"})
                        break
                elif bad:
                    bst["diffs"].append((y["hc"], "extracted rounded model: %s of row %d %s vs %s exceeds %s" % (bad[0], i, bad[1], bad[2], bnd)))
                    break


def proved_bound_corpus(res, ctx, bst):
    """the Example C15_dec_nonvacuous of coq/Properties/C15.v through the real CSV reader (per-share cost 10/3,
    5-for-2 split: the gain of the sale of 2 shares is rounded differently in the two reports)"""
    def row(day, act, sh=None, aps=None, com=None, split=None):
        r = {"sec": "FOO", "td": core.BASE_DAY + day - 2, "sd": core.BASE_DAY + day, "act": act,
             "cur": None, "rate": None, "af": "Default"}
        for key, v in (("sh", sh), ("aps", aps), ("com", com)):
            if v is not None:
                r[key] = (v, Fraction(v))
        if split:
            r["split"] = split
        return r
    pre = [row(100, "Buy", "3", "3", "1"), row(200, "Sell", "1", "5", "0")]
    post = [row(300, "Buy", "2", "1", "0"), row(400, "RoC", aps="0.1"), row(500, "Sell", "2", "4", "0.5"),
            row(600, "Sell", "1", "7", "0")]
    f = Fraction(5, 2)
    a = {"rows": pre + post, "inits": {}}
    b = {"rows": pre + [row(250, "Split", split=("5", "2"))] + [scale_row(r, f) for r in post], "inits": {}}
    before = bst["st"]["rows_with_different_rounding"]
    proved_bound_pass(res, ctx, corecheck.run_cases(ctx, [a]), corecheck.run_cases(ctx, [b]), [(2, 1, f, ("5", "2"), False)],
                      bst, expect=(1, 1))
    bst["st"]["corpus_pairs"] += 1
    if bst["st"]["pairs_inside"] != 1 or bst["st"]["rows_with_different_rounding"] == before:
        bst["diffs"].append((None, "corpus pair: not inside the class, or no row is rounded differently (the Coq Example has one)"))


def proved_bound_report(res, bst):
    st = bst["st"]
    if bst["diffs"] and not res.violations:
        hc, d = bst["diffs"][0]
        res.violation("broken-correspondence", "proved split-neutrality bound: " + d,
                      {"theorem_or_projection": "C15_dec_split_neutral_bound on the extracted code / class of entry 2 (dectransfer)",
                       "input": hc, "difference": d, "differing_cases": len(bst["diffs"])}, found_input=False)
    res.coverage["proved_rounding_bound"] = {
        "theorem": "C15_dec_split_neutral_bound: paired rows i / i' of the two rounded reports within ((i+1) + (i'+1)) * cR k",
        "pairs_evaluated": st["pairs_evaluated"],
        "pairs_inside_class_and_hypotheses": st["pairs_inside"],
        "pairs_outside_class": st["outside-class"],
        "pairs_outside_hypotheses (opening position, two splits, whole-number-only reverse split later)": st["outside-hypotheses"],
        "pairs_not_decomposed_as_pre_split_post": st["not-decomposed"],
        "rows_checked_against_proved_bound": st["rows_checked"],
        "rows_rounded_differently_in_the_two_reports": st["rows_with_different_rounding"],
        "k_histogram": {k_: v for k_, v in sorted(st.items()) if k_.startswith("k=")},
        "largest_bound_applied": float(bst.get("max_bound", Fraction(0))),
        "largest_difference_over_bound": float(bst.get("max_ratio", Fraction(0))),
        "corpus_pairs": st["corpus_pairs"],
    }
