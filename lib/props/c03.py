# C03 - money is conserved: a denied loss moves into cost base, once, in full.
import collections
import random
from fractions import Fraction

import core
import corecheck
import renderoracle
import gen

TOL = Fraction(1, 10 ** 9)
ZERO = Fraction(0)
NONREG = ["", "Spouse", "Zed", "B", "Defaulty"]


def conservation(r, res, st):
    """oracle, computed from the implementation's own rows"""
    i = r["impl"]
    if i["status"] != "ok":
        return
    for s, so in i["secs"].items():
        if so["stop"][0] != 0:
            continue
        sname = corecheck.sec_name(r, s)
        init = r["case"].get("inits", {}).get(sname)
        acb = {}
        opening = ZERO
        if init:
            acb[1000] = init[1][1]
            opening = init[1][1]
        gains = proceeds = costs = roc = ZERO
        over = False
        ds = so["deltas"]
        multi = False
        for k, d in enumerate(ds):
            q = [Fraction(x) if isinstance(x, str) else x for x in (d["q"] or [])]
            a = d["act"]
            if a == "Buy":
                costs += q[0] * q[1] * q[3] + q[2] * q[4]
            elif a == "Sell":
                proceeds += q[0] * q[1] * q[3] - q[2] * q[4]
                gains += d["gain"] if d["gain"] is not None else ZERO
                if d["sfl"] and d["sfl"][3]:
                    over = True
                # adjustments directly after the sale, never more than the denied amount
                j = k + 1
                tot = ZERO
                nadj = 0
                while j < len(ds) and ds[j]["act"] == "SfLA":
                    tot += ds[j]["sfla"][0] * ds[j]["sfla"][1]
                    nadj += 1
                    if ds[j]["reg"]:
                        res.violation("failing-input", "an automatic adjustment goes to a registered affiliate (row %d of %s)" % (j, sname),
                                      {"input": r["hc"], "row": j})
                    j += 1
                denied = -d["sfl"][0] if d["sfl"] else ZERO
                if tot - denied > TOL:
                    res.violation("failing-input", "adjustments after row %d of %s add up to %s, more than the denied amount %s" % (k, sname, tot, denied),
                                  {"input": r["hc"], "row": k, "actual_impl": str(tot), "expected_spec": "<= " + str(denied)})
                if nadj >= 1:
                    apportionment(r, res, st, sname, ds, k, j)
                if nadj >= 2:
                    multi = True
                if nadj:
                    st["superficial_with_adjustments"] += 1
            elif a == "RoC":
                roc += q[0] * d["pre"][0] * q[1]
            if d["post"][2] is not None:
                acb[d["af"]] = d["post"][2]
            checkpoint = (k + 1 == len(ds)) or ds[k + 1]["act"] != "SfLA"
            if checkpoint and not over:
                st["checkpoints"] += 1
                lhs = gains
                rhs = proceeds - (costs + opening) + roc + sum(acb.values(), ZERO)
                if abs(lhs - rhs) > TOL:
                    res.violation("failing-input",
                                  "after row %d of %s: gains so far %s but proceeds - costs + RoC + ACB held = %s" % (k, sname, lhs, rhs),
                                  {"input": r["hc"], "row": k, "actual_impl": str(lhs), "expected_spec": str(rhs)})
                    return
                r["maxres"] = max(r.get("maxres", ZERO), abs(lhs - rhs))
        if multi:
            r["multi"] = True


def apportionment(r, res, st, sname, ds, k, j):
    """second formulation: the adjustments ds[k+1:j] after the sale ds[k] go to the affiliates that bought in
    the window, in proportion to their end-of-window holdings (computed here from the implementation's own rows:
    an affiliate's balance after its last row settling up to 30 days after the sale)"""
    s_day = ds[k]["sd"]
    if any(d["act"] == "Split" and d["sd"] <= s_day + 30 for d in ds[k + 1:]):      # also a split settling on the sale's own day, after it
        st["apportionment-skipped-split-after-sale"] += 1
        return
    hold, buyers = {}, set()
    for d in ds:
        if d["sd"] > s_day + 30:
            break
        hold[d["af"]] = d["post"][0]
        if d["act"] == "Buy" and d["sd"] >= s_day - 30:
            buyers.add(d["af"])
    adj = {}
    for d in ds[k + 1:j]:
        adj[d["af"]] = adj.get(d["af"], ZERO) + d["sfla"][0] * d["sfla"][1]
    st["apportionments_checked"] += 1
    for a in adj:
        if a not in buyers:
            res.violation("failing-input", "%s: the adjustment after row %d goes to affiliate %s, which bought nothing in the window" % (sname, k, a),
                          {"input": r["hc"], "row": k})
            return
    for a in buyers:
        if hold.get(a, ZERO) > 0 and a not in adj:
            res.violation("failing-input", "%s: affiliate %s bought in the window of the sale at row %d and holds %s shares at its end but gets no adjustment" % (sname, a, k, hold[a]),
                          {"input": r["hc"], "row": k})
            return
    items = sorted(adj.items())
    a0, x0 = items[0]
    for a, x in items[1:]:
        lhs, rhs = x * hold.get(a0, ZERO), x0 * hold.get(a, ZERO)
        if abs(lhs - rhs) > TOL * max(abs(lhs), abs(rhs), Fraction(1)):
            res.violation("failing-input",
                          "%s: the denied loss of row %d is not split in proportion to end-of-window holdings: affiliate %s holds %s and gets %s, affiliate %s holds %s and gets %s" % (
                              sname, k, a0, hold.get(a0), float(x0), a, hold.get(a), float(x)),
                          {"input": r["hc"], "row": k, "holdings": {str(z): str(hold.get(z)) for z in adj}, "adjustments": {str(z): str(v) for z, v in adj.items()}})
            return


def run(res, ctx):
    tier, seed = ctx["tier"], ctx["seed"]
    rng = random.Random(seed * 15485863 + 3)
    st = collections.Counter()
    seen, samples, corr = set(), [], []
    maxres = ZERO
    n = 1500 if tier == "quick" else 40000
    done = 0
    first = True
    bst = {"st": collections.Counter(), "diffs": []}
    residual_bound_corpus(res, ctx, bst)
    while done < n:
        cases = []
        if first:
            # crafted: one large holder and several tiny ones buying inside the window of a small loss:
            # each tiny affiliate's share of the denied loss is a fraction of a cent and must still be added
            first = False
            for _ in range(30 if tier == "quick" else 300):
                d0 = core.BASE_DAY + rng.randint(10, 300)
                big = rng.choice([500, 1000, 5000])
                px = rng.randint(5, 40)
                small = rng.sample([a for a in NONREG if a != ""], rng.randint(1, min(3, len(NONREG) - 1)))
                def _r(day, act, sh, aps, af):
                    return {"sec": "FOO", "td": d0 + day, "sd": d0 + day, "act": act, "sh": core.D(sh), "aps": aps,
                            "com": None, "cur": None, "rate": None, "af": af if af != "" else None}
                rows = [_r(0, "Buy", big, core.D(px), "")]
                rows += [_r(1 + j, "Buy", rng.choice([1, 1, 2]), core.D(px), a) for j, a in enumerate(small)]
                rows.append(_r(10, "Sell", rng.choice([50, 100, big // 2]), core.D(px * 100 - rng.randint(1, 9), 2), ""))
                rows += [_r(60 + j, "Sell", 1, core.D(px + 1), a) for j, a in enumerate(small)]
                cases.append({"rows": rows, "inits": {}})
            # crafted: a second affiliate that bought only BEFORE the loss sale, inside its window, with a split
            # (global or its own) between that purchase and the sale: its end-of-window holding is its balance at
            # the sale, already in post-split shares
            for _ in range(30 if tier == "quick" else 300):
                d0 = core.BASE_DAY + rng.randint(10, 300)
                other = rng.choice([a for a in NONREG if a != ""])
                ratio = rng.choice([("2", "1"), ("3", "1"), ("1.0", "2.0"), ("3", "2"), ("10", "1")])
                def _r(day, act, sh, aps, af):
                    return {"sec": "FOO", "td": d0 + day, "sd": d0 + day, "act": act, "sh": core.D(sh), "aps": core.D(aps),
                            "com": None, "cur": None, "rate": None, "af": af if af != "" else None}
                rows = [_r(0, "Buy", 100, 10, ""), _r(40, "Buy", rng.choice([50, 100, 200]), 10, other),
                        {"sec": "FOO", "td": d0 + 48, "sd": d0 + 48, "act": "Split", "split": ratio,
                         "af": rng.choice([None, None, other])},
                        _r(60, "Sell", rng.choice([50, 100]), 2, "")]
                if rng.random() < 0.7:
                    rows.append(_r(67, "Buy", rng.choice([20, 50]), 3, ""))
                rows.append(_r(200, "Sell", 10, 4, other))
                cases.append({"rows": rows, "inits": {}})
        for _ in range(min(500, n - done)):
            k = rng.random()
            afs = rng.sample(NONREG, rng.choice([1, 2, 2, 3, 3, 4]))
            sec = rng.choice(["FOO", "FOO", "FOO", "Brk.b", "vfv.to"])      # opening positions also for names that are not upper case
            rows = gen.gen_history(rng, sec=sec, afs=afs, p_invalid=0.0, p_sfl_spec=0.0, p_split=0.06,
                                   window_focus=(k < 0.7), terminating_only=(rng.random() < 0.7))
            inits = {}
            if rng.random() < 0.15:
                inits[sec] = (core.D(rng.randint(0, 50)), core.D(rng.randint(0, 100000), 2))
            cases.append({"rows": rows, "inits": inits})
        done += len(cases)
        batch = corecheck.run_cases(ctx, cases, render=True)
        residual_bound_pass(res, ctx, batch, bst)
        for r in batch:
            st["evaluations"] += 1
            # "flagged by the report as potentially over-applied": the [1] marker and its legend
            rstat, probs = renderoracle.check_run(r, groups=("over", "acb"))
            st["report-" + rstat] += 1
            if probs and rstat == "ok":
                res.violation("failing-input", "the report's cost base / gain / over-applied flag does not match the ledger: " + probs[0][1],
                              {"input": r["hc"], "problems": [m_ for _, m_ in probs[:5]]})
            d = core.diff_exact(r["dec"], r["impl"])
            if d is not None:
                corr.append((r, d))
            st["impl-" + r["impl"]["status"]] += 1
            conservation(r, res, st)
            maxres = max(maxres, r.get("maxres", ZERO))
            if r.get("multi") and r["hash"] not in seen:
                seen.add(r["hash"])
                st["distinct_nontrivial"] += 1
                if len(samples) < 3:
                    samples.append({"csv": r["hc"]["files"][0], "init": r["hc"]["init"]})
    # registered affiliates in the mix: adjustments must still never reach them
    cases = [gen.gen_case(rng, p_invalid=0.0, window_focus=True) for _ in range(150 if tier == "quick" else 1500)]
    for r in corecheck.run_cases(ctx, cases):
        st["evaluations"] += 1
        i = r["impl"]
        if i["status"] != "ok":
            continue
        for s, so in i["secs"].items():
            for k, d in enumerate(so["deltas"]):
                if d["act"] == "SfLA" and d["reg"] and d.get("ri") is not None and so["deltas"][k - 1]["act"] in ("Sell", "SfLA") and k > 0:
                    # generated rows carry the read index of their sale
                    if d["ri"] == so["deltas"][k - 1]["ri"]:
                        res.violation("failing-input", "an automatic adjustment goes to a registered affiliate",
                                      {"input": r["hc"], "row": k})
    if corr and not res.violations:
        r, d = corr[0]
        res.violation("broken-correspondence", "model (dec) and implementation differ: " + d,
                      {"theorem_or_projection": "correspondence projection C03 (gains, ACB per affiliate, generated rows)",
                       "input": r["hc"], "difference": d, "differing_cases": len(corr)}, found_input=False)
    res.coverage.update({
        "evaluations": st["evaluations"],
        "distinct_nontrivial": st["distinct_nontrivial"],
        "rule": "seeded random single-security histories of 1-4 non-registered affiliates, gaps concentrated on {0,1,2,28..32} days, no user SfL/SfLA; non-trivial = a superficial loss whose denied amount is split over >= 2 affiliates; distinct by SHA-1 of the CSV; conservation evaluated at every checkpoint (row + its adjustments) from the implementation's own rows",
        "samples": samples,
        "input_distribution": dict(sorted(st.items())),
        "checkpoints_checked": st["checkpoints"],
        "max_abs_residual": float(maxres),
        "traces_validated_against_impl": st["evaluations"],
    })
    residual_bound_report(res, bst)
    res.assumptions += ["under rust_decimal rounding the identity holds up to rounding noise; the residual is measured (max_abs_residual), the exact identity is the theorem"]


def replay(res, ctx, path):
    def judge(r):
        c = corecheck._Collect()
        conservation(r, c, collections.Counter())
        residual_bound_pass(c, ctx, [r], {"st": collections.Counter(), "diffs": []})
        stat, probs = renderoracle.check_run(r, groups=("over", "acb")) if r["hc"].get("render") else ("skip", [])
        return c.msgs + ([m for _, m in probs] if stat == "ok" else [])
    return corecheck.replay(res, ctx, path, judge=judge)


# ---- the PROVED bound on the residual under rounding (C03_dec_residual_bound, coq/Proofs/C03Dec.v;
# class and per-row constant from entry 2 of the extraction group "dectransfer",
# coq/Exec/CodecDecTransfer.v run_errclass, as lib/props/c01.py bound_pass) ----
def _cC(k, cR):
    """per-checkpoint constant cC k = cR k + 10^k u(k+1) + u(2k+2) = 3.15e-(26-2k); C03_dec_residual_constant
    proves cC k = (63/52) cR k for k = 0..13: computed from the EXTRACTED cR k, cross-checked with the closed form"""
    c = cR * Fraction(63, 52)
    return c, c == Fraction(315, 100) * Fraction(10) ** (2 * k - 26)


def _residuals(ds, opening, qs=None):
    """|gains - (proceeds - (costs + opening) + RoC + cost base held)| after each of the rows ds, from the
    rows' own figures (qs: the input quantities of the rows when ds does not carry them)"""
    acb = {}
    if opening is not None:
        acb[1000] = opening
    opening = opening or ZERO
    gains = proceeds = costs = roc = ZERO
    out = []
    for k, d in enumerate(ds):
        q = [Fraction(x) if isinstance(x, str) else x for x in ((qs[k] if qs is not None else d["q"]) or [])]
        a = d["act"]
        if a == "Buy":
            costs += q[0] * q[1] * q[3] + q[2] * q[4]
        elif a == "Sell":
            proceeds += q[0] * q[1] * q[3] - q[2] * q[4]
            gains += d["gain"] if d["gain"] is not None else ZERO
        elif a == "RoC":
            roc += q[0] * d["pre"][0] * q[1]
        if d["post"][2] is not None:
            acb[d["af"]] = d["post"][2]
        out.append(gains - (proceeds - (costs + opening) + roc + sum(acb.values(), ZERO)))
    return out


def residual_bound_pass(res, ctx, rs, bst, expect=None):
    """every case through entry 2 of the dectransfer group: per security the smallest k with in_class k
    (rounded rows, exact rows) and cR k.  Inside the class C03_dec_residual_bound bounds the residual of the
    conservation equation after the first n rows of the ROUNDED ledger by n * cC k: the IMPLEMENTATION's
    residual at every checkpoint must lie within that PROVED bound (instead of the generic 1e-9), and so must
    the extracted rounded model's (the theorem re-checked on the extracted code)"""
    from common import run_model
    from props.c01 import parse_errclass
    st = bst["st"]
    enc = [core.to_ints(r["case"], 1)[0] for r in rs]
    outs = [parse_errclass(o) for o in run_model([[2] + e[1:] for e in enc], group="dectransfer")]
    for r, pr in zip(rs, outs):
        st["evaluations"] += 1
        if pr is None:
            st["entry2_failed"] += 1
            continue
        got = {}
        hit = False
        for s, (k, c, rows) in pr.items():
            got[s] = (k, len(rows))
            if k < 0 or not rows:
                continue
            cc, same = _cC(k, c)
            if not same:
                bst["diffs"].append((r["hc"], "cC %d computed from the extracted cR (%s) differs from 3.15e-(26-2k)" % (k, c)))
                continue
            sname = corecheck.sec_name(r, s)
            init = r["case"].get("inits", {}).get(sname)
            opening = init[1][1] if init else None
            iso = r["impl"]["secs"].get(s) if r["impl"]["status"] == "ok" else None
            if iso is None:
                continue
            ids = iso["deltas"][:len(rows)]
            if any(d["act"] == "SfLA" for d in ids):
                bst["diffs"].append((r["hc"], "security %s is in the class (k=%d) but the implementation reports an adjustment row" % (sname, k)))
                continue
            hit = True
            st["securities"] += 1
            st["k=%d" % k] += 1
            for n_, x in enumerate(_residuals(ids, opening), 1):
                b = n_ * cc
                st["checkpoints"] += 1
                if x != 0:
                    st["checkpoints_with_nonzero_residual"] += 1
                bst["max_ratio"] = max(bst.get("max_ratio", ZERO), abs(x) / b)
                bst["max_bound"] = max(bst.get("max_bound", ZERO), b)
                bst["max_residual"] = max(bst.get("max_residual", ZERO), abs(x))
                if abs(x) > b:
                    res.violation("failing-input",
                                  "after row %d of %s: gains so far differ from proceeds - costs + RoC + cost base held by %s: "
                                  "more than decimal rounding can cause on this history (proved bound %.3e = %d * cC %d)"
                                  % (n_ - 1, sname, x, float(b), n_, k),
                                  {"input": r["hc"], "row": n_ - 1, "actual_impl": str(x), "proved_bound": str(b),
                                   "theorem": "C03_dec_residual_bound"})
                    break
            # the same on the extracted rounded model (input quantities taken from the implementation's rows)
            mso = r["dec"]["secs"].get(s) if r["dec"].get("status") == "ok" else None
            if mso is not None:
                mds = mso["deltas"][:len(rows)]
                if len(mds) <= len(ids) and all(m["act"] == i["act"] and m["af"] == i["af"] for m, i in zip(mds, ids)):
                    for n_, x in enumerate(_residuals(mds, opening, [i["q"] for i in ids]), 1):
                        st["model_checkpoints"] += 1
                        if abs(x) > n_ * cc:
                            bst["diffs"].append((r["hc"], "extracted rounded model: residual %s after row %d of %s exceeds %s"
                                                 % (x, n_ - 1, sname, n_ * cc)))
                            break
        if hit:
            st["cases"] += 1
        if expect is not None and sorted(got.values()) != sorted(expect):
            bst["diffs"].append((r["hc"], "corpus case: expected (k, rows) %s, entry 2 gives %s" % (expect, sorted(got.values()))))


def residual_corpus_case():
    """the Example C03_dec_residual_nonvacuous of coq/Properties/C03.v as a CSV case (two affiliates, per-share
    costs 10/3 and 22/3: the rounded ledger's residual is not 0)"""
    def row(day, act, af, sh=None, aps=None, com=None, split=None):
        r = {"sec": "FOO", "td": core.BASE_DAY + day - 2, "sd": core.BASE_DAY + day, "act": act,
             "cur": None, "rate": None, "af": af}
        for key, v in (("sh", sh), ("aps", aps), ("com", com)):
            if v is not None:
                r[key] = (v, Fraction(v))
        if split:
            r["split"] = split
        return r
    return {"rows": [row(100, "Buy", "Default", "3", "3", "1"), row(150, "Buy", "Spouse", "3", "7", "1"),
                     row(200, "Sell", "Default", "1", "5", "0"), row(300, "Buy", "Default", "2", "1", "0"),
                     row(400, "RoC", "Default", aps="0.1"), row(500, "Sell", "Default", "2", "4", "0.5"),
                     row(550, "Sell", "Spouse", "1", "9", "0"), row(600, "Split", "Default", split=("2", "1"))],
            "inits": {}}


def residual_bound_corpus(res, ctx, bst):
    rs = corecheck.run_cases(ctx, [residual_corpus_case()])
    before = bst["st"]["checkpoints_with_nonzero_residual"]
    residual_bound_pass(res, ctx, rs, bst, expect=[(1, 8)])
    bst["st"]["corpus_cases"] += 1
    if rs[0]["impl"]["status"] == "ok" and bst["st"]["checkpoints_with_nonzero_residual"] == before and not bst["diffs"]:
        bst["diffs"].append((rs[0]["hc"], "corpus case: the implementation's residual is 0 at every checkpoint (the rounded model's is not)"))


def residual_bound_report(res, bst):
    st = bst["st"]
    if bst["diffs"] and not res.violations:
        hc, d = bst["diffs"][0]
        res.violation("broken-correspondence", "proved residual bound: " + d,
                      {"theorem_or_projection": "C03_dec_residual_bound on the extracted code / class of entry 2 (dectransfer)",
                       "input": hc, "difference": d, "differing_cases": len(bst["diffs"])}, found_input=False)
    res.coverage["proved_residual_bound"] = {
        "theorem": "C03_dec_residual_bound: |residual after n rows| <= n * cC k, cC k = 3.15e-(26-2k) = (63/52) cR k",
        "cases_evaluated": st["evaluations"],
        "cases_inside_class": st["cases"],
        "securities_inside_class": st["securities"],
        "checkpoints_checked_against_proved_bound": st["checkpoints"],
        "checkpoints_with_nonzero_residual": st["checkpoints_with_nonzero_residual"],
        "checkpoints_of_extracted_rounded_model": st["model_checkpoints"],
        "k_histogram": {k_: v for k_, v in sorted(st.items()) if k_.startswith("k=")},
        "largest_residual": float(bst.get("max_residual", ZERO)),
        "largest_bound_applied": float(bst.get("max_bound", ZERO)),
        "largest_residual_over_bound": float(bst.get("max_ratio", ZERO)),
        "corpus_cases": st["corpus_cases"],
    }
