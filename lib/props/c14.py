# C14 - an interrupted write of the CSV exchange-rate cache cannot corrupt
# rates: crash injection (cargo feature verif_hooks, ACB_VERIF_CRASH) in a
# child process at every step boundary and at byte offsets of the file
# content, then a fresh loader over the post-crash directory.
import collections
import hashlib
import json
import os
import random
from fractions import Fraction

import rates as R
from common import run_harness, run_model, Reader, VERIF

PROC = 1       # the model follows the code after the fix of C14: 1 = temp file + sync + rename, 0 = in place
STEPS = {0: ["after_create", "after_flush"],
         1: ["after_create", "after_flush", "after_sync", "after_rename"]}


def known_findings():
    out = []
    for p in (os.path.join(VERIF, "known-findings.d", "C14.json"), os.path.join(VERIF, "known-findings.json")):
        if os.path.exists(p):
            out += [k for k in json.load(open(p)).get("findings", []) if k.get("property") == "C14"]
    return out


def dec_parts(s):
    """'1.2340' -> (12340, 4)"""
    if "." in s:
        a, b = s.split(".")
        return int(a + b), len(b)
    return int(s), 0


def rows_ints(rows):
    out = [len(rows)]
    for d, s in rows:
        m, sc = dec_parts(s)
        out += [d, m, sc]
    return out


def crash_ints(old, new, nsteps, cut, stale=None):
    out = [4, PROC]
    out += ([1] + rows_ints(old)) if old is not None else [0]
    if stale is None:
        out += [0]                      # no stale temporary file
    else:
        b = list(stale.encode())
        out += [1, len(b)] + b          # a temporary file left by an earlier interrupted write
    out += rows_ints(new) + [nsteps, cut]
    return out


def read_obytes(rd):
    if rd.z() == 0:
        return None
    n = rd.z()
    return [rd.z() for _ in range(n)]


def steps_of(spec, nrows, total):
    """crash spec -> (steps executed, persisted pending bytes) in the modelled procedure"""
    if spec.startswith("bytes:"):
        return 1 + nrows, int(spec[6:])
    if spec == "after_create":
        return 1, total
    if spec == "after_flush":
        return nrows + 2, total
    if spec == "after_sync":
        return nrows + 3, total
    return nrows + 4, total        # after_rename, or no crash at all


def make_years(ctx, rng, nrows, tier):
    """(truth, year, old rows, new rows, today2, avail2): what an earlier run
    cached and what the interrupted run is writing, taken from the
    implementation itself (rate strings exactly as it writes them)"""
    y = rng.choice([2016, 2018, 2022, 2024])
    start = R.day(y, 1, 1)
    end = start + nrows - 1
    days = R.gen_pub_days(rng, start, end, style="weekdays")
    if not days:
        days = [start + 2]
    truth = R.gen_truth(rng, days, p_bad=0.0, p_cross=0.0)
    t1 = start + rng.randint(3, max(4, nrows // 2))
    t2 = end + 1
    runs = [{"today": t1, "avail": t1, "force": False, "lookups": [start + 1]},
            {"today": t2, "avail": t2, "force": True, "lookups": [start + 1]}]
    hc = R.hist_case(truth, runs, cache="mem", years=[y])
    io = run_harness(ctx["exe"], "hist", [hc], nproc=1)[0]
    old = [(d, s) for d, s in io["runs"][0]["cache_after"][str(y)]]
    new = [(d, s) for d, s in io["runs"][1]["cache_after"][str(y)]]
    if rng.random() < 0.25:
        old = None
    return truth, y, old, new, t2, t2


def render(rows):
    return "".join("%s,%s\n" % (R.iso(d), s) for d, s in rows)


def pick_lookups(rng, new, offset):
    """dates around the row the cut falls in, plus the last date"""
    text = render(new)
    row = text[:offset].count("\n")
    row = min(row, len(new) - 1)
    cand = {new[row][0], new[max(0, row - 1)][0], new[min(len(new) - 1, row + 1)][0], new[-1][0]}
    cand.add(new[rng.randrange(len(new))][0])
    return sorted(cand)


def check_crashes(res, ctx, jobs):
    """jobs: (truth, year, old, new, today, avail, spec, lookups)"""
    st = ctx["stats"]
    hcases, m1 = [], []
    stales = [j[8] if len(j) > 8 else None for j in jobs]
    firsts = [j[9] if len(j) > 9 else None for j in jobs]
    links = [j[10] if len(j) > 10 else None for j in jobs]      # replay: (symlink, hardlink) as recorded
    jobs = [list(j[:8]) for j in jobs]
    # an earlier run of the same write killed at a step boundary: what it leaves behind is the starting state of
    # the modelled write (the live file is the old or - after the rename - the new content; the temporary file
    # holds nothing yet, or everything)
    for k_, fc in enumerate(firsts):
        if fc is not None:
            new_ = jobs[k_][3]
            if fc == "after_rename":
                jobs[k_][2] = new_
                stales[k_] = None
            else:
                stales[k_] = "" if fc == "after_create" else render(new_)
    jobs = [tuple(j) for j in jobs]
    for (truth, y, old, new, today, avail, spec, lookups), stale in zip(jobs, stales):
        hcases.append({"truth": [dict(o) for o in truth], "year": y,
                       "old": [[d, s] for d, s in old] if old is not None else None,
                       "new": [[d, s] for d, s in new], "crash": spec, "today": today, "avail": avail,
                       "lookups": lookups, "stale_tmp": stale if firsts[len(hcases)] is None else None,
                       "first_crash": firsts[len(hcases)],
                       # every third job over an existing year: the live name is a symbolic link to the file
                       "live_symlink": bool(old is not None and len(hcases) % 3 == 2) if links[len(hcases)] is None else links[len(hcases)][0],
                       # ... every third: it has a second hard link
                       "live_hardlink": bool(old is not None and len(hcases) % 3 == 1) if links[len(hcases)] is None else links[len(hcases)][1]})
        if hcases[-1]["live_symlink"]:
            st["live-file-is-symlink"] += 1
        if hcases[-1]["live_hardlink"]:
            st["live-file-has-second-hard-link"] += 1
        total = len(render(new))
        n, cut = steps_of(spec, len(new), total)
        m1.append(crash_ints(old, new, n, cut, stale))
    impl = run_harness(ctx["exe"], "crash", hcases, nproc=8)
    mod1 = run_model(m1, group="rates")
    # model: directory after the crash
    mdirs = []
    for mo in mod1:
        rd = Reader(mo)
        assert rd.z() == 1
        rd.z()
        live = read_obytes(rd)
        tmp = read_obytes(rd)
        mdirs.append((live, tmp))
    # model: what the reader makes of the live file
    mod2 = run_model([[3, len(l)] + l if l is not None else [3, 0] for l, _ in mdirs], group="rates")
    mparsed = []
    for (live, _), mo in zip(mdirs, mod2):
        rd = Reader(mo)
        assert rd.z() == 1
        mparsed.append(R.read_drates(rd) if live is not None else None)
    # model: a fresh loader per look-up over that cache
    m3, idx = [], []
    for k, ((truth, y, old, new, today, avail, spec, lookups), mp) in enumerate(zip(jobs, mparsed)):
        seed = {y: [(d, str(q)) for d, q in mp]} if mp is not None else {}
        for dd in lookups:
            runs = [{"today": today, "avail": avail, "force": False, "lookups": [dd]}]
            m3.append(R.hist_ints(truth, runs, [y], seed=seed))
            idx.append(k)
    mod3 = run_model(m3, group="rates")
    manswers = collections.defaultdict(list)
    for k, mo in zip(idx, mod3):
        m = R.parse_hist_model(mo, 1)
        manswers[k].append((m["runs"][0]["answers"][0], m["runs"][0]["requests"]) if m["status"] == "ok" else ("?", []))

    for k, ((truth, y, old, new, today, avail, spec, lookups), hc, io) in enumerate(zip(jobs, hcases, impl)):
        st["evaluations"] += 1
        st["spec-" + (spec.split(":")[0] or "none")] += 1
        if io.get("status") != "ok":
            res.violation("failing-input", "crash case panicked: %s" % io.get("panic"), {"input": hc})
            continue
        if stales[k] is not None:
            st["stale-temporary-file"] += 1
        if not spec and old is not None:
            # a complete write over an existing year: the live name must now refer to ANOTHER file
            # (rename of the temporary file); the same inode means the live file was rewritten in place
            st["inode-checks"] += 1
            if io.get("live_inode_before") is not None and io.get("live_inode_before") == io.get("live_inode_after"):
                ctx["oracle_failures"].append((hc, "after a complete write the cache file rates-%d.csv is still the same file (inode %s): it was rewritten in place, not replaced atomically by a rename" % (y, io.get("live_inode_after")),
                                               {"crash": spec, "actual_impl": "same inode", "expected_spec": "new inode (temporary file renamed over the live file)"}))
        if not spec:
            # a complete write: the steps the write path reports are the steps of the modelled procedure
            st["traces"] += 1
            want, got = model_steps(new), norm_trace(io.get("trace", []))
            if want != got:
                st["correspondence_diffs"] += 1
                ctx["corr_diffs"].append((hc, "steps of a complete write: model %s, implementation %s" % (want, got)))
        aborted = io["child_exit"] is None
        if aborted:
            st["child-aborted"] += 1
            key = hashlib.sha1(json.dumps([hc["old"], hc["new"], spec]).encode()).hexdigest()
            if key not in ctx["seen"]:
                ctx["seen"].add(key)
                st["distinct_nontrivial"] += 1
        elif spec:
            st["child-not-aborted"] += 1
            ctx["corr_diffs"].append((hc, "crash point %s was never reached by the write path (child exit %s)" % (spec, io["child_exit"])))
        live_name = "rates-%d.csv" % y
        ilive = io["dir"].get(live_name)
        others = {n: b for n, b in io["dir"].items() if n != live_name}
        itmp = None
        if len(others) == 1:
            itmp = list(others.values())[0]
        elif len(others) > 1:
            ctx["corr_diffs"].append((hc, "unexpected files in the cache directory: %s" % sorted(others)))
        mlive, mtmp = mdirs[k]
        if ilive != mlive or itmp != mtmp:
            st["correspondence_diffs"] += 1
            ctx["corr_diffs"].append((hc, "directory after crash %s: model live=%s tmp=%s, implementation live=%s tmp=%s" % (
                spec, show(mlive), show(mtmp), show(ilive), show(itmp))))
        iparsed = io["parsed"]
        iparsed = None if iparsed is None else [(d, Fraction(s)) for d, s in iparsed]
        if ilive == mlive and iparsed != mparsed[k]:
            st["correspondence_diffs"] += 1
            ctx["corr_diffs"].append((hc, "reader on %s: model %s, implementation %s" % (show(ilive), str(mparsed[k])[-300:], str(iparsed)[-300:])))
        if ilive is not None and ilive not in (list(render(old).encode()) if old is not None else None, list(render(new).encode())):
            st["live-file-partial"] += 1
        # oracle: every answer is the published rate (the no-cache reference)
        pub = R.pub_of(truth, avail)
        for j, (dd, a, reqs) in enumerate(zip(lookups, io["answers"], io["requests"])):
            a = R.impl_answer(a)
            exp = R.rule(pub, today, dd)
            st["lookups"] += 1
            st["answered-by-" + ("download" if reqs else "cache")] += 1
            if a != exp:
                ctx["oracle_failures"].append((hc, "after a crash at %s the look-up of %s gives %s; published: %s (live file ends %r)" % (
                    spec, R.iso(dd), R.ans_str(a), R.ans_str(exp), bytes(ilive or [])[-24:].decode("latin1")),
                    {"crash": spec, "lookup_date": R.iso(dd), "actual_impl": R.ans_str(a), "expected_spec": R.ans_str(exp)}))
                break
            if ilive == mlive and j < len(manswers[k]):
                ma, mreq = manswers[k][j]
                if ma != a or [tuple(x) for x in reqs] != mreq:
                    st["correspondence_diffs"] += 1
                    ctx["corr_diffs"].append((hc, "look-up of %s after crash %s: model %s %s, implementation %s %s" % (
                        R.iso(dd), spec, R.ans_str(ma) if ma != "?" else ma, mreq, R.ans_str(a), reqs)))
        if len(ctx["samples"]) < 3 and spec.startswith("bytes:"):
            ctx["samples"].append({"crash": spec, "new_rows": render(new)[:120], "lookups": [R.iso(x) for x in lookups]})


def norm_trace(trace):
    """hook trace -> step kinds, consecutive repeats merged:
    create, write, flush, sync, rename (markers after_flush / after_sync dropped)"""
    out = []
    for ev in trace:
        k = {"after_create": "create", "flush": "flush", "sync": "sync", "after_rename": "rename"}.get(ev)
        if ev.startswith("write:"):
            k = "write" if int(ev[6:]) > 0 else None
        if k and (not out or out[-1] != k):
            out.append(k)
    return out


def model_steps(new):
    mo = run_model([[6, PROC] + rows_ints(new)], group="rates")[0]
    assert mo[0] == 1
    names = {1: "create", 2: "create", 3: "write", 4: "write", 5: "flush", 6: "sync", 7: "sync", 8: "rename", 9: "rename?"}
    out = []
    for k in mo[1:]:
        n = names[k]
        if not out or out[-1] != n:
            out.append(n)
    return out


def show(b):
    if b is None:
        return "<absent>"
    s = bytes(b).decode("latin1")
    return repr(s if len(s) < 60 else s[:20] + "..." + s[-30:])


ALPHABET = "0123456789,.-+\n"


def check_reader(res, ctx, rng, n):
    """the reader model (parse_csv) = get_rates_from_csv: every prefix of a
    rendered year, and mutated contents over the alphabet digits , . - + LF"""
    st = ctx["stats"]
    rows = [(R.day(2022, 1, 1) + k, s) for k, s in enumerate(
        ["1.2812299807815502882767456758", "0", "1.3050", "0.75", "12", "0.0001", "79228162514264337593543950335"])]
    text = render(rows)
    contents = [text[:k] for k in range(len(text) + 1)]
    contents += ["\n\n2022-01-05,1\n\n,\n2022-01-06,2", ",\n2022-01-05,1\n", "2022-01-05,1,\n2022-01-06,2\n2022-01-07,3,4\n",
                 "7\n2022-01-05,1\n", "2022-01-05,1\n2022-01-05,2\n", "-2022-01-05,1\n+2022-01-05,2\n2022-01-05,-3\n2022-01-05,+4\n",
                 "2022-02-29,1\n2024-02-29,1\n2022-04-31,1\n2022-13-01,1\n2022-00-10,1\n0000-01-01,1\n9999-12-31,1\n",
                 "2022-01-05,.\n2022-01-05,-\n2022-01-05,+.5\n2022-01-05,1.2.3\n2022-01-05,00012\n2022-01-05,-.5\n2022-01-05,1.\n",
                 "2022-01-05,79228162514264337593543950335\n", "2022-01-05,0.0000000000000000000000000001\n"]
    for _ in range(n):
        k = rng.random()
        if k < 0.5:     # mutate a rendered file
            t = list(render(rows[: rng.randint(1, 5)]))
            for _ in range(rng.randint(1, 4)):
                p = rng.randrange(len(t) + 1)
                op = rng.random()
                if op < 0.4 and t:
                    t[min(p, len(t) - 1)] = rng.choice(ALPHABET)
                elif op < 0.7:
                    t.insert(p, rng.choice(ALPHABET))
                elif t:
                    del t[min(p, len(t) - 1)]
            contents.append("".join(t))
        else:
            contents.append("".join(rng.choice(ALPHABET) for _ in range(rng.randint(0, 30))))
    # stay inside the modelled class: at most 28 digits after a dot, mantissa below 2^96
    def modelled(c):
        for line in c.split("\n"):
            for f in line.split(","):
                digs = [ch for ch in f if ch.isdigit()]
                if len(digs) > 28 and f != "79228162514264337593543950335":
                    return False
        return True
    contents = [c for c in contents if modelled(c)]
    impl = run_harness(ctx["exe"], "parsecsv", [{"content": list(c.encode())} for c in contents])
    mod = run_model([[3, len(c)] + list(c.encode()) for c in contents], group="rates")
    bad = 0
    for c, io, mo in zip(contents, impl, mod):
        rd = Reader(mo)
        assert rd.z() == 1
        m = R.read_drates(rd)
        i = [(d, Fraction(s)) for d, s in io["rows"]] if io.get("status") == "ok" and isinstance(io["rows"], list) else io
        st["reader_cases"] += 1
        if m != i:
            bad += 1
            ctx["corr_diffs"].append(({"content": c}, "reader on %r: model %s, implementation %s" % (c, m, i)))
    return {"contents": len(contents), "mismatches": bad}


def run(res, ctx):
    tier, seed = ctx["tier"], ctx["seed"]
    rng = random.Random(seed * 7919 + 14)
    ctx.update(stats=collections.Counter(), seen=set(), samples=[], corr_diffs=[], oracle_failures=[])
    st = ctx["stats"]
    reader = check_reader(res, ctx, rng, 6000 if tier == "quick" else 60000)

    jobs = []
    nyears = 6 if tier == "quick" else 12
    for k in range(nyears):
        nrows = 30 if k == 0 else rng.choice([8, 12, 20, 45])
        truth, y, old, new, today, avail = make_years(ctx, rng, nrows, tier)
        if k == 0:
            old = old or new[: max(1, len(new) // 3)]
        if k in (1, 2):
            old = None       # first-ever write of the year: no earlier cache file (both prior states every run)
        total = len(render(new))
        for spec in STEPS[PROC] + [""]:
            jobs.append((truth, y, old, new, today, avail, spec, pick_lookups(rng, new, rng.randrange(total))))
        # the same write after an EARLIER interrupted write left a temporary file behind that is longer
        # than the new content (more rows, last one cut inside its digits)
        longer = new + [(new[-1][0] + 1 + j, new[j % len(new)][1]) for j in range(rng.randint(1, 6))]
        stale = render(longer)
        stale = stale[: len(stale) - rng.randint(1, 5)]
        for spec in ["", "", STEPS[PROC][-1], "bytes:%d" % rng.randrange(total + 1)]:
            jobs.append((truth, y, old, new, today, avail, spec,
                         pick_lookups(rng, new, total - 1) + [longer[-1][0]], stale))
        # two interrupted writes in a row: the first killed at each step boundary, the second anywhere
        for fc in STEPS[PROC]:
            if fc.startswith("bytes"):
                continue
            for spec in ["", "bytes:%d" % rng.randrange(1, total), "bytes:%d" % rng.randrange(1, total), STEPS[PROC][0]]:
                off = int(spec[6:]) if spec.startswith("bytes:") else total - 1
                jobs.append((truth, y, old, new, today, avail, spec, pick_lookups(rng, new, off), None, fc))
        if tier == "thorough" and k == 0:
            offsets = list(range(total + 1))       # every byte offset of a 30-row year
        else:
            # row boundaries, every offset inside two rows, random others
            text = render(new)
            offsets = {0, 1, total - 1, total}
            r1 = rng.randrange(len(new))
            s1 = len(render(new[:r1]))
            offsets |= set(range(s1, min(total, s1 + len(render(new[r1:r1 + 1])) + 1)))
            offsets |= {rng.randrange(total + 1) for _ in range(25 if tier == "quick" else 80)}
            offsets = sorted(offsets)
        for off in offsets:
            jobs.append((truth, y, old, new, today, avail, "bytes:%d" % off, pick_lookups(rng, new, off)))
    if tier == "thorough":
        # sampled offsets of a full year
        truth, y, old, new, today, avail = make_years(ctx, rng, 365, tier)
        total = len(render(new))
        for off in sorted({rng.randrange(total + 1) for _ in range(400)}):
            jobs.append((truth, y, old, new, today, avail, "bytes:%d" % off, pick_lookups(rng, new, off)))
    for i in range(0, len(jobs), 400):
        check_crashes(res, ctx, jobs[i:i + 400])

    known = known_findings()
    for hc, what, extra in ctx["oracle_failures"][:3]:
        rep = {"input": hc}
        rep.update(extra)
        res.violation("failing-input", what, rep)
    for k in known:
        res.known(k["what"])
    if ctx["corr_diffs"] and not res.violations:
        hc, d = ctx["corr_diffs"][0]
        res.violation("broken-correspondence", "model and implementation differ: " + d,
                      {"theorem_or_projection": "correspondence projection C14 (directory after each crash point: live and temporary file bytes; rows the reader accepts; answer and downloads of a fresh loader)",
                       "input": hc, "difference": d, "differing_cases": len(ctx["corr_diffs"])}, found_input=False)
    res.coverage.update({
        "evaluations": st["evaluations"],
        "distinct_nontrivial": st["distinct_nontrivial"],
        "rule": "for seeded years of rates (an earlier run's cached year as the old file, the re-downloaded year as the new content, strings exactly as the implementation writes them): every named step boundary of the write path, and byte offsets of the content (quick: all offsets inside one row, the ends, 25 random; thorough: every offset of a 30-row year and 400 of a full year); the child process is aborted there by the verif_hooks crash hook, then the directory is listed and a fresh RateLoader answers look-ups of the dates around the cut. Non-trivial = the child was really aborted at the crash point, distinct by (old, new, crash point)",
        "samples": ctx["samples"],
        "input_distribution": {k: v for k, v in sorted(st.items())},
        "reader_validation": reader,
        "traces_validated_against_impl": st["evaluations"],
    })
    res.assumptions += [
        "persistence rule of Model/CrashFs.v (after a crash a file holds its synced part plus any prefix of what was written since; rename is atomic; fsync makes content durable) is an assumption about the platform; the injected crash is a process abort with exactly N content bytes handed to the file, not a power loss",
        "csv crate tokenisation outside the alphabet digits , . - + LF (quotes, CR) and rust_decimal parsing of more than 28 digits are not modelled",
    ]


def replay(res, ctx, path):
    import common
    rep = json.load(open(path))
    ctx.update(stats=collections.Counter(), seen=set(), samples=[], corr_diffs=[], oracle_failures=[])
    r2 = common.Result("C14", ctx["tier"], ctx["seed"])
    hc = rep.get("input")
    if not hc or "crash" not in hc:
        if hc and "content" in hc:
            c = hc["content"]
            io = run_harness(ctx["exe"], "parsecsv", [{"content": list(c.encode())}])[0]
            mo = run_model([[3, len(c)] + list(c.encode())], group="rates")[0]
            rd = Reader(mo)
            rd.z()
            m = R.read_drates(rd)
            i = [(d, Fraction(s)) for d, s in io["rows"]]
            print("replay: reader on %r: model %s, implementation %s" % (c, m, i))
            return 0 if m == i else 1
        print("replay: this replay file names no input (%s)" % rep.get("what", "")[:200])
        return 1
    truth = [R.load_obs(o) for o in hc["truth"]]
    old = [tuple(x) for x in hc["old"]] if hc["old"] is not None else None
    new = [tuple(x) for x in hc["new"]]
    check_crashes(r2, ctx, [(truth, hc["year"], old, new, hc["today"], hc["avail"], hc["crash"], hc["lookups"],
                             hc.get("stale_tmp"), hc.get("first_crash"),
                             (bool(hc.get("live_symlink")), bool(hc.get("live_hardlink"))))])
    return R.replay_report(r2, ctx, "crash at %s" % (hc["crash"] or "no crash"))
