# C01 - cost-base ledger follows the average-cost rules exactly.
import collections
import hashlib
import random
from fractions import Fraction

import arithcheck
import core
import corecheck
import e2e
import gen
import renderoracle
from common import run_harness, run_model, qenc, Reader

TOL = Fraction(1, 10 ** 9)
# Known class "large-magnitude": rust_decimal keeps 28 significant digits, so a
# rounding step on a value of size M loses up to ~1e-28 * M; once a history carries
# amounts of 1e16 dollars or more the accumulated deviation can exceed 1e-9.
BIG = Fraction(10 ** 16)


def known_findings():
    import json, os
    f = os.path.join(os.path.dirname(os.path.dirname(os.path.dirname(os.path.abspath(__file__)))), "known-findings.d", "C01.json")
    return json.load(open(f)).get("findings", []) if os.path.exists(f) else []


def scale_case(c, fs, fp):
    """the same history with share quantities x fs and per-share amounts x fp"""
    from core import dtext
    out = {"rows": [], "inits": {}}
    for r in c["rows"]:
        r = dict(r)
        if r["act"] in ("Buy", "Sell"):
            v = r["sh"][1] * fs
            r["sh"] = (dtext(v), v)
        if r["act"] in ("Buy", "Sell", "RoC"):
            v = r["aps"][1] * fp
            r["aps"] = (dtext(v), v)
        if r.get("sfl"):
            v = r["sfl"][0][1] * fs * fp
            r["sfl"] = ((dtext(v), v), r["sfl"][1])
        out["rows"].append(r)
    for k, (sh, acb) in c.get("inits", {}).items():
        out["inits"][k] = ((dtext(sh[1] * fs), sh[1] * fs), (dtext(acb[1] * fs * fp), acb[1] * fs * fp))
    return out


def spec_input(sec_rows, init, at, case_rows=None):
    """integer list for the model's spec entry point.  Quantities of the input
    rows are taken from the CASE (what the CSV says: shares, price, commission,
    each with its own currency's rate), not from what the implementation parsed;
    generated rows (SfLA) and the denied amounts come from the implementation's
    report."""
    out = [2]
    if init is not None:
        out += [1] + qenc(init[0]) + qenc(init[1])
    else:
        out += [0]
    out.append(len(sec_rows))
    for d in sec_rows:
        q = [Fraction(x) if isinstance(x, str) else x for x in (d.get("q") or [])]
        a = d["act"]
        src = None
        if case_rows is not None and d.get("ri") is not None and d["ri"] < len(case_rows) and a != "SfLA":
            src = case_rows[d["ri"]]
            if src["act"] != a:
                src = None
        if src is not None and a in ("Buy", "Sell"):
            rate = core.eff_rate(src.get("cur"), src.get("rate"))
            crate = core.eff_rate(src.get("ccur"), src.get("crate")) if (src.get("ccur") or src.get("crate") is not None) else rate
            com = src["com"][1] if src.get("com") is not None else Fraction(0)
            q = [src["sh"][1], src["aps"][1], com, rate, crate]
        elif src is not None and a == "RoC":
            q = [src["aps"][1], core.eff_rate(src.get("cur"), src.get("rate"))]
        # an affiliate id the numbering table does not know (only when the implementation's ids
        # disagree with the case's: a correspondence difference, reported separately) gets a number of its own
        out += [0, 0, d["sd"], d["af"] if isinstance(d["af"], int) else 999999, int(bool(d["reg"])), 0, 0, 0]
        if a == "Buy":
            out += [0] + sum((qenc(x) for x in q[:5]), [])
        elif a == "Sell":
            out += [1] + sum((qenc(x) for x in q[:5]), []) + [0]
        elif a == "RoC":
            out += [2] + qenc(q[0]) + qenc(q[1])
        elif a == "SfLA":
            out += [3] + qenc(d["sfla"][0]) + qenc(d["sfla"][1])
        else:
            out += [4] + qenc(q[0]) + qenc(q[1]) + [int(bool(q[2]))]
        out += qenc(d["sfl"][0] if d["sfl"] else 0)
    return out


def parse_spec(ints):
    rd = Reader(ints)
    assert rd.z() == 1
    n = rd.z()
    rows = []
    for _ in range(n):
        rows.append((rd.q(), rd.opt(), rd.opt()))
    return rows


def nontrivial(case, impl):
    afs = set(r.get("af") or "" for r in case["rows"])
    if len(afs) >= 2:
        return True
    if impl["status"] != "ok":
        return False
    for s in impl["secs"].values():
        for d in s["deltas"]:
            if d["act"] == "Sell" and d["pre"][2] is not None and d["pre"][0] != 0:
                try:
                    core.dtext(d["pre"][2] / d["pre"][0])
                except ValueError:
                    return True
    return False


# ---- rounding-free histories (extraction group "dectransfer": the ledger under the
# representable arithmetic [rep] of coq/Proofs/DecTransfer.v) ----
def rep_free(r):
    """the rep ledger of the case did not stop on an operator failure in any security
    (hypothesis of C01_app_dec_equals_exact_when_representable)"""
    if r["status"] not in ("ok", "panic") or "secs" not in r:
        return False
    return all(not (s["stop"][0] == 2 and s["stop"][1] in (1, 2)) for s in r["secs"].values())


def rep_corpus():
    """the two Examples of coq/Properties/C01.v (C01_rep_nonvacuous, C01_rep_refuses_thirds) as CSV
    cases, plus a one-row case: (case, expected rounding-free, expected rows or None)"""
    def row(day, act, sh=None, aps=None, com=None, cur=None, rate=None, af=None, split=None):
        r = {"sec": "FOO", "td": gen.BASE_DAY + day - 2, "sd": gen.BASE_DAY + day, "act": act,
             "cur": cur, "rate": (rate, Fraction(rate)) if rate else None, "af": af}
        if sh is not None:
            r["sh"] = (sh, Fraction(sh))
        if aps is not None:
            r["aps"] = (aps, Fraction(aps))
        if com is not None:
            r["com"] = (com, Fraction(com))
        if split:
            r["split"] = split
        return r
    ex_rep = [row(100, "Buy", "10", "1.5", "1", "USD", "1.3", "Default"),
              row(140, "Sell", "5", "0.5", "0.25", af="Default"),
              row(145, "Split", split=("5", "2"), af="Default"),
              row(150, "Buy", "4", "0.5", "0", af="Default"),
              row(300, "Buy", "6", "2", "0", af="Spouse"),
              row(310, "RoC", aps="0.1", af="Default"),
              row(400, "Sell", "3", "3", "0", af="Spouse")]
    thirds = [row(100, "Buy", "3", "3", "1"), row(200, "Sell", "1", "5", "0")]
    one = [row(100, "Buy", "3", "3", "1")]
    return [({"rows": ex_rep, "inits": {}}, True, 8), ({"rows": thirds, "inits": {}}, False, None),
            ({"rows": one, "inits": {}}, True, 1)]


def rep_pass(res, ctx, cases, hc, enc, impl, mods):
    """for every case run the extracted rep ledger; when it does not hit an operator failure the
    case is rounding-free: the rounded model, the exact model and the rep model must be the same
    report (the theorem, re-checked on the extracted code) and the IMPLEMENTATION's rows must equal
    the EXACT model's rows bit for bit"""
    st = ctx["stats"]
    reps = [core.parse_model(o) for o in run_model([e[0] for e in enc], group="dectransfer")]
    free = [k for k, r in enumerate(reps) if rep_free(r)]
    st["rep_evaluations"] += len(cases)
    exs = [core.parse_model(o) for o in run_model([core.to_ints(cases[k], 0)[0] for k in free])]
    for k, ex in zip(free, exs):
        r, i, m = reps[k], impl[k], mods[k]
        st["rounding_free_cases"] += 1
        if any(d["act"] == "Sell" and d["pre"][2] is not None for s in r["secs"].values() for d in s["deltas"]):
            st["rounding_free_with_sale"] += 1
        if any(d["sfl"] is not None for s in r["secs"].values() for d in s["deltas"]):
            st["rounding_free_with_superficial_loss"] += 1
        if any(d["act"] == "Split" for s in r["secs"].values() for d in s["deltas"]):
            st["rounding_free_with_split"] += 1
        st["rounding_free_rows"] += sum(len(s["deltas"]) for s in r["secs"].values())
        if not (r == ex and r == m):
            what = "rep/exact" if r != ex else "rep/dec"
            ctx["rep_theorem_diffs"].append((hc[k], what))
            continue
        d = core.diff_exact(ex, i)
        if d is not None:
            res.violation("failing-input",
                          "a history whose exact figures are all representable is reported differently "
                          "from the exact average-cost ledger: " + d,
                          {"input": hc[k], "difference": d,
                           "theorem": "C01_app_dec_equals_exact_when_representable"})
    return reps


# ---- the PROVED rounding bound (C01_rounding_error_accumulates; extraction group "dectransfer",
# entry 2: coq/Exec/CodecDecTransfer.v run_errclass) ----
def parse_errclass(ints):
    rd = Reader(ints)
    if rd.z() != 1:
        return None
    out = {}
    for _ in range(rd.z()):
        s, okf, k, c, n = rd.z(), rd.z(), rd.z(), rd.q(), rd.z()
        rows = []
        for _ in range(n):
            post = (rd.q(), rd.q(), rd.opt())
            rows.append((post, rd.opt()))
        out[s] = (k if okf else -1, c, rows)
    return out


def acc_corpus():
    """the Example C01_rounding_error_accumulates_nonvacuous of coq/Properties/C01.v as a CSV case
    (per-share cost 10/3 at the first sale: the rounded and the exact ledger differ from row 1 on)"""
    def row(day, act, sh=None, aps=None, com=None, split=None):
        r = {"sec": "FOO", "td": gen.BASE_DAY + day - 2, "sd": gen.BASE_DAY + day, "act": act,
             "cur": None, "rate": None, "af": "Default"}
        if sh is not None:
            r["sh"] = (sh, Fraction(sh))
        if aps is not None:
            r["aps"] = (aps, Fraction(aps))
        if com is not None:
            r["com"] = (com, Fraction(com))
        if split:
            r["split"] = split
        return r
    return {"rows": [row(100, "Buy", "3", "3", "1"), row(200, "Sell", "1", "5", "0"), row(300, "Buy", "2", "1", "0"),
                     row(400, "RoC", aps="0.1"), row(500, "Sell", "2", "4", "0.5"),
                     row(600, "Split", split=("2", "1"))], "inits": {}}


def bound_pass(res, ctx, cases, hc, enc, impl, mods):
    """every case through entry 2: per security the smallest k with in_class k (rounded rows, exact rows)
    and the per-row constant cR k.  Inside the class the theorem bounds the deviation of row r of the
    rounded ledger from the exact ledger by (r+1) * cR k: the IMPLEMENTATION's balances must equal the
    exact ones and its cost base and gain must lie within that PROVED bound (far below the generic
    1e-9), and so must the extracted rounded model's (the theorem re-checked on the extracted code)"""
    st = ctx["stats"]
    outs = [parse_errclass(o) for o in run_model([[2] + e[0][1:] for e in enc], group="dectransfer")]
    for k_, pr in enumerate(outs):
        st["bound_evaluations"] += 1
        if pr is None:
            continue
        hit = False
        for who, rep in (("impl", impl[k_]), ("model", mods[k_])):
            if rep.get("status") != "ok":
                continue
            for s, (k, c, rows) in pr.items():
                so = rep["secs"].get(s)
                if k < 0 or not rows or so is None:
                    continue
                if who == "impl":
                    hit = True
                    st["bound_securities"] += 1
                    st["bound_k=%d" % k] += 1
                for r, (d, (post, gain)) in enumerate(zip(so["deltas"], rows)):
                    b = (r + 1) * c
                    bad = None
                    if d["post"][0] != post[0] or d["post"][1] != post[1]:
                        bad = ("share balance", d["post"][:2], post[:2])
                    elif not core.close(d["post"][2], post[2], b):
                        bad = ("total cost base", d["post"][2], post[2])
                    elif not core.close(d["gain"], gain, b):
                        bad = ("capital gain", d["gain"], gain)
                    if who == "impl":
                        st["bound_rows_checked"] += 1
                        dev = max([Fraction(0)] + [abs(x - y) for x, y in ((d["post"][2], post[2]), (d["gain"], gain))
                                                   if x is not None and y is not None])
                        if dev > 0:
                            st["bound_rows_with_rounding"] += 1
                        ctx["bound_max_ratio"] = max(ctx.get("bound_max_ratio", Fraction(0)), dev / b)
                        ctx["bound_max_bound"] = max(ctx.get("bound_max_bound", Fraction(0)), b)
                    if bad and who == "impl":
                        res.violation("failing-input",
                                      "row %d of security #%s: %s reported %s, the exact average-cost ledger gives %s: "
                                      "the difference exceeds what decimal rounding can cause on this history "
                                      "(proved bound %.3e, k=%d)" % (r, s, bad[0], bad[1], bad[2], float(b), k),
                                      {"input": hc[k_], "row": r, "figure": bad[0], "actual_impl": str(bad[1]),
                                       "expected_exact": str(bad[2]), "proved_bound": str(b),
                                       "theorem": "C01_rounding_error_accumulates"})
                        break
                    if bad:
                        ctx["bound_theorem_diffs"].append((hc[k_], "row %d of security #%s: %s rounded model %s exact %s bound %s"
                                                           % (r, s, bad[0], bad[1], bad[2], b)))
                        break
        if hit:
            st["bound_cases"] += 1
    return outs


def check_cases(res, ctx, cases, label):
    exe = ctx["exe"]
    hc = [{"files": corecheck.split_files(c["rows"]), "init": gen.init_specs(c), "render": True} for c in cases]
    impl_raw = run_harness(exe, "core", hc)
    enc = [core.to_ints(c, 1) for c in cases]
    mod_raw = run_model([e[0] for e in enc])
    stats = ctx["stats"]
    # end-to-end pass: the cells of the same CSV text through the extracted reader + bridge
    # (coq/Model/Bridge.v) into the ledger model; must equal the implementation and the
    # Python-encoded model run
    e_diffs, e_st, _ = e2e.run_pass(hc, impl_raw, [e2e.init_pairs(c) for c in cases],
                                    [core.parse_model(mo) for mo in mod_raw])
    stats.update(e_st)
    for k, d in e_diffs:
        stats["correspondence_diffs"] += 1
        ctx["corr_diffs"].append((cases[k], hc[k], d))
    mods = [core.parse_model(mo) for mo in mod_raw]
    impls = [core.parse_impl(io, e[1], e[2]) for e, io in zip(enc, impl_raw)]
    ctx["last_reps"] = rep_pass(res, ctx, cases, hc, enc, impls, mods)
    ctx["last_bounds"] = bound_pass(res, ctx, cases, hc, enc, impls, mods)
    spec_jobs = []
    for k, (c, e, io, mo) in enumerate(zip(cases, enc, impl_raw, mod_raw)):
        m = mods[k]
        i = impls[k]
        stats["evaluations"] += 1
        stats["impl-" + i["status"]] += 1
        stats["rows-%d" % min(40, 5 * (len(c["rows"]) // 5))] += 1
        h = hashlib.sha1("\n".join(hc[k]["files"]).encode() + repr(hc[k]["init"]).encode()).hexdigest()
        if nontrivial(c, i) and h not in ctx["seen"]:
            ctx["seen"].add(h)
            stats["distinct_nontrivial"] += 1
            if len(ctx["samples"]) < 3:
                ctx["samples"].append({"csv": hc[k]["files"][0], "init": hc[k]["init"]})
        d = core.diff_exact(m, i)
        if d is not None:
            stats["correspondence_diffs"] += 1
            ctx["corr_diffs"].append((c, hc[k], d))
        # the figures the REPORT shows are the ledger's figures (render model vs deltas)
        rstat, probs = renderoracle.check_run({"impl": i, "raw": io, "st": e[1], "case": c}, groups=("figures",))
        stats["report-" + rstat] += 1
        if probs and not (rstat == "render-panic" and any(abs(x) >= BIG for dd in (i.get("secs") or {}).values() for d0 in dd["deltas"] for x in d0["post"] if x is not None)):
            res.violation("failing-input", "the report does not show the ledger's figures: " + probs[0][1],
                          {"input": hc[k], "problems": [m_ for _, m_ in probs[:5]]})
        if i["status"] == "ok":
            for s, so in i["secs"].items():
                if so["stop"][0] == 0 and so["deltas"]:
                    stats["accepted_securities"] += 1
                    sname = [n for n, v in e[1].items() if v == s][0]
                    init = c.get("inits", {}).get(sname)
                    init = (init[0][1], init[1][1]) if init else None
                    spec_jobs.append((k, s, so["deltas"], spec_input(so["deltas"], init, e[2], c["rows"])))
                else:
                    stats["rejected_securities"] += 1
    spec_out = run_model([j[3] for j in spec_jobs])
    for (k, s, deltas, _), so in zip(spec_jobs, spec_out):
        rows = parse_spec(so)
        mag = max([Fraction(0)] + [abs(x) for sp in rows for x in sp if x is not None])
        stats["magnitude-1e%02d" % (len(str(int(mag))) - 1)] += 1
        for r, (d, sp) in enumerate(zip(deltas, rows)):
            stats["rows_checked"] += 1
            bad = None
            if not core.close(d["post"][0], sp[0], TOL):
                bad = ("share balance", d["post"][0], sp[0])
            elif not core.close(d["post"][2], sp[1], TOL):
                bad = ("total cost base", d["post"][2], sp[1])
            elif not core.close(d["gain"], sp[2], TOL):
                bad = ("capital gain", d["gain"], sp[2])
            if bad and mag >= BIG:
                stats["known-large-magnitude-deviation"] += 1
                ctx["known_hit"]["large-magnitude"] = ctx["known_hit"].get("large-magnitude") or {
                    "input": hc[k], "row": r, "figure": bad[0], "actual_impl": str(bad[1]), "expected_spec": str(bad[2])}
                break
            if bad:
                res.violation("failing-input",
                              "row %d of security #%s: %s reported %s, average-cost rules give %s" % (r, s, bad[0], bad[1], bad[2]),
                              {"input": hc[k], "row": r, "figure": bad[0],
                               "actual_impl": str(bad[1]), "expected_spec": str(bad[2])})
                break
            err = max([abs(d["post"][0] - sp[0])] + [abs(x - y) for x, y in ((d["post"][2], sp[1]), (d["gain"], sp[2])) if x is not None and y is not None])
            ctx["max_err"] = max(ctx["max_err"], err)


def run(res, ctx):
    tier, seed = ctx["tier"], ctx["seed"]
    rng = random.Random(seed * 7919 + 1)
    ctx.update(stats=collections.Counter(), seen=set(), samples=[], corr_diffs=[], max_err=Fraction(0), known_hit={},
               rep_theorem_diffs=[], bound_theorem_diffs=[])
    n_arith = 20000 if tier == "quick" else 200000
    av = arithcheck.validate(ctx["exe"], rng, n_arith)
    if av["mismatches"]:
        res.violation("broken-correspondence", "rust_decimal does not behave like Base/Fit.v fit: %s" % av["examples"],
                      {"theorem_or_projection": "arith validation (dec instance of every theorem)", "examples": av["examples"]}, found_input=False)
    # the Examples of the transfer theorems, through the CSV reader of the real code
    corpus = rep_corpus()
    check_cases(res, ctx, [c for c, _, _ in corpus], "rep-corpus")
    for (c, want_free, want_rows), r in zip(corpus, ctx["last_reps"]):
        got_rows = sum(len(s_["deltas"]) for s_ in r.get("secs", {}).values())
        if rep_free(r) != want_free or (want_rows is not None and got_rows != want_rows):
            res.violation("broken-correspondence",
                          "the extracted rep ledger does not behave like the Examples C01_rep_nonvacuous / "
                          "C01_rep_refuses_thirds: rounding-free=%s rows=%d, expected %s / %s" % (rep_free(r), got_rows, want_free, want_rows),
                          {"theorem_or_projection": "C01_rep_nonvacuous, C01_rep_refuses_thirds",
                           "input": {"files": corecheck.split_files(c["rows"])}}, found_input=False)
    # the Example of the accumulation theorem, through the CSV reader of the real code
    check_cases(res, ctx, [acc_corpus()], "acc-corpus")
    got = (ctx["last_bounds"][0] or {})
    got = [(k, len(rows)) for k, _, rows in got.values()]
    if got != [(1, 6)]:
        res.violation("broken-correspondence",
                      "the extracted class predicate does not behave like the Example "
                      "C01_rounding_error_accumulates_nonvacuous: (k, rows) = %s, expected [(1, 6)]" % got,
                      {"theorem_or_projection": "C01_rounding_error_accumulates_nonvacuous",
                       "input": {"files": corecheck.split_files(acc_corpus()["rows"])}}, found_input=False)
    n = 1000 if tier == "quick" else 30000
    batch = 400
    done = 0
    while done < n:
        cases = [gen.gen_case(rng, p_invalid=0.03) for _ in range(min(batch, n - done))]
        check_cases(res, ctx, cases, "random")
        done += len(cases)
    # crafted: positions with a cost base of exactly zero while shares are held (bought at price 0 without a
    # commission; a return of capital that uses the cost base up) - a sale from them has a cost of 0, its gain is
    # the proceeds
    zero_cases = []
    for _ in range(20 if tier == "quick" else 200):
        d0 = gen.BASE_DAY + rng.randint(10, 300)
        af = rng.choice([None, None, "B"])
        nsh, px = rng.choice([3, 10, 40]), rng.choice([2, 5, 25])
        def _z(day, act, **kw):
            x = {"sec": "FOO", "td": d0 + day, "sd": d0 + day, "act": act, "com": None, "cur": None, "rate": None, "af": af}
            x.update(kw)
            return x
        if rng.random() < 0.5:
            rows = [_z(0, "Buy", sh=core.D(nsh), aps=core.D(0)), _z(50, "Sell", sh=core.D(1), aps=core.D(px * 100 + 1, 2)),
                    _z(100, "Buy", sh=core.D(2), aps=core.D(px)), _z(150, "Sell", sh=core.D(nsh), aps=core.D(px + 1))]
        else:
            rows = [_z(0, "Buy", sh=core.D(nsh), aps=core.D(px)), _z(20, "RoC", aps=core.D(px)),
                    _z(50, "Sell", sh=core.D(1), aps=core.D(px * 100 + 37, 2), com=core.D(rng.choice([0, 1]))),
                    _z(150, "Sell", sh=core.D(nsh - 1), aps=core.D(px + 1))]
        zero_cases.append({"rows": rows, "inits": {}})
    check_cases(res, ctx, zero_cases, "zero-cost-base")
    # large magnitudes: the stored witness of the known class first, then scaled random histories
    known = known_findings()
    wit = [k for k in known if k.get("id") == "large-magnitude"]
    for k in wit:
        w = k["witness"]
        rows = [{"sec": "FOO", "td": gen.BASE_DAY + 100 + 100 * i, "sd": gen.BASE_DAY + 100 + 100 * i, "act": a,
                 "sh": (sh, Fraction(sh)), "aps": (aps, Fraction(aps)), "com": (com, Fraction(com)),
                 "cur": None, "rate": None, "af": None} for i, (a, sh, aps, com) in enumerate(w["rows"])]
        before = ctx["stats"]["known-large-magnitude-deviation"]
        check_cases(res, ctx, [{"rows": rows, "inits": {}}], "known-witness")
        if ctx["stats"]["known-large-magnitude-deviation"] > before:
            res.known(k["what"])
        # a witness that no longer deviates is simply no longer reported
    big_cases = []
    for _ in range(40 if tier == "quick" else 400):
        c = gen.gen_case(rng, p_invalid=0.0)
        if any(r.get("cur") not in (None, "CAD") and r.get("rate") is None for r in c["rows"]):
            continue
        try:
            big_cases.append(scale_case(c, Fraction(10) ** rng.randint(3, 8), Fraction(10) ** rng.randint(2, 6)))
        except ValueError:
            pass
    check_cases(res, ctx, big_cases, "large-magnitude")
    # long histories (any length)
    long_cases = [{"rows": gen.gen_history(rng, n_rows=rng.choice([60, 120, 250]), p_invalid=0.0,
                                           terminating_only=False), "inits": {}}
                  for _ in range(6 if tier == "quick" else 40)]
    check_cases(res, ctx, long_cases, "long")
    st = ctx["stats"]
    if ctx["corr_diffs"] and not res.violations:
        c, hc, d = ctx["corr_diffs"][0]
        res.violation("broken-correspondence",
                      "model (dec) and implementation differ: " + d,
                      {"theorem_or_projection": "correspondence projection C01 (rows: action, affiliate, balances, ACB, gain, SfL)",
                       "input": hc, "difference": d, "differing_cases": len(ctx["corr_diffs"])},
                      found_input=False)
    if ctx["rep_theorem_diffs"] and not res.violations:
        hc0, what = ctx["rep_theorem_diffs"][0]
        res.violation("broken-correspondence",
                      "extracted models disagree on a rounding-free history (%s), against "
                      "C01_app_dec_equals_exact_when_representable" % what,
                      {"theorem_or_projection": "C01_app_dec_equals_exact_when_representable (extraction / codec)",
                       "input": hc0, "differing_cases": len(ctx["rep_theorem_diffs"])}, found_input=False)
    if ctx["bound_theorem_diffs"] and not res.violations:
        hc0, what = ctx["bound_theorem_diffs"][0]
        res.violation("broken-correspondence",
                      "the extracted rounded model leaves the proved bound of C01_rounding_error_accumulates: " + what,
                      {"theorem_or_projection": "C01_rounding_error_accumulates (extraction / codec)",
                       "input": hc0, "differing_cases": len(ctx["bound_theorem_diffs"])}, found_input=False)
    res.coverage.update({
        "proved_rounding_bound": {
            "rule": "entry 2 of the extraction group dectransfer: the smallest k <= 13 with in_class k (rows of the rounded "
                    "ledger, rows of the exact ledger) per security (no superficial loss, share balances not rounded, "
                    "not registered, Buy/Sell/RoC/Split with quantities <= 10^k, rates <= 10, per-share cost <= 10^(k+1)); "
                    "there row r of the implementation must have the exact ledger's balances and a cost base and gain "
                    "within (r+1) * 2.6e-(26-2k) of the exact ledger's (C01_rounding_error_accumulates)",
            "evaluations": st["bound_evaluations"], "cases_inside_class": st["bound_cases"],
            "securities_inside_class": st["bound_securities"], "rows_checked": st["bound_rows_checked"],
            "rows_where_rounded_differs_from_exact": st["bound_rows_with_rounding"],
            "by_k": {k: v for k, v in sorted(st.items()) if k.startswith("bound_k=")},
            "largest_bound_used": float(ctx.get("bound_max_bound", 0)),
            "largest_deviation_over_bound": float(ctx.get("bound_max_ratio", 0))},
        "rounding_free_cases": st["rounding_free_cases"],
        "rounding_free_fraction": round(st["rounding_free_cases"] / max(1, st["rep_evaluations"]), 4),
        "rounding_free": {"rule": "the extracted ledger under the representable arithmetic rep (group dectransfer) "
                                  "ends without an operator failure in every security; there the implementation's rows "
                                  "are compared with the EXACT model's rows bit for bit",
                          "evaluations": st["rep_evaluations"], "cases": st["rounding_free_cases"],
                          "rows_compared_exactly": st["rounding_free_rows"],
                          "with_sale_on_a_cost_base": st["rounding_free_with_sale"],
                          "with_superficial_loss": st["rounding_free_with_superficial_loss"],
                          "with_split": st["rounding_free_with_split"]},
        "evaluations": st["evaluations"],
        "distinct_nontrivial": st["distinct_nontrivial"],
        "rule": "seeded random histories (1-3 securities, 1-4 affiliates incl. registered, CAD/USD/other with explicit rates, separate commission currencies, fractional shares, splits, RoC, opening positions) plus long histories; non-trivial = >=2 affiliates or a sale whose per-share cost is not a finite decimal; distinct by SHA-1 of the CSV text",
        "samples": ctx["samples"],
        "input_distribution": {k: v for k, v in sorted(st.items())},
        "rows_checked_against_spec": st["rows_checked"],
        "max_abs_deviation_from_exact": float(ctx["max_err"]),
        "large_magnitude_class": {"threshold": "largest exact share count / cost base / gain of the security >= 1e16",
                                  "deviations_above_1e-9_inside_class": st["known-large-magnitude-deviation"]},
        "arith_validation": av,
        "traces_validated_against_impl": st["evaluations"],
        "e2e_evaluations": st["e2e-evaluations"],
    })
    res.assumptions += [
        "rounding half of C01 (|dec - exact| <= 1e-9 for any length) is measured on every generated history, not proved: see DESIGN.md C01",
        "CSV tokenisation (csv crate) and date parsing (time crate) are exercised, not modelled",
    ]


def replay(res, ctx, path):
    import renderoracle
    def judge(r):
        stat, probs = renderoracle.check_run(r)
        return [m for _, m in probs] if stat == "ok" else []
    return corecheck.replay(res, ctx, path, judge=judge)
