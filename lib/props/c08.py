# C08 - securities are computed independently; one security's error stays local.
import collections
import random
import re
from fractions import Fraction

import core
import corecheck
import gen
from props.c07 import same_results


def agg_of(raw):
    """aggregate gains table of the render model (full precision): {year or 'total': Fraction}"""
    t = raw.get("render_full", {}).get("agg")
    if not t:
        return None
    out = {}
    for row in t["rows"]:
        v = row[1].replace("$", "").replace(",", "")
        out[row[0]] = Fraction(v)
    return out


def run(res, ctx):
    tier, seed = ctx["tier"], ctx["seed"]
    rng = random.Random(seed * 122949829 + 8)
    st = collections.Counter()
    seen, samples, corr = set(), [], []
    n = 750 if tier == "quick" else 15000
    A, B, I = [], [], []
    for _ in range(n):
        a_rows = gen.gen_history(rng, sec="FOO", p_invalid=rng.choice([0, 0.2])) + (
            gen.gen_history(rng, sec="BAR", p_invalid=0.0) if rng.random() < 0.3 else [])
        b_rows = gen.gen_history(rng, sec="QUX", p_invalid=rng.choice([0, 0.3, 0.6]), p_split=0.2)
        if rng.random() < 0.15:
            # a failing security of the split-sanity kind
            d = b_rows[-1]["sd"] + 5 if b_rows else core.BASE_DAY
            b_rows += [{"sec": "QUX", "td": d, "sd": d, "act": "Split", "split": ("2", "1"), "af": None},
                       {"sec": "QUX", "td": d + 1, "sd": d + 1, "act": "Split", "split": ("2", "1"), "af": "Default"}]
        # random interleaving keeping each input's order
        labels = ["a"] * len(a_rows) + ["b"] * len(b_rows)
        rng.shuffle(labels)
        ia, ib = iter(a_rows), iter(b_rows)
        i_rows = [next(ia) if l == "a" else next(ib) for l in labels]
        inits = {}
        if rng.random() < 0.2:
            inits["FOO"] = (core.D(rng.randint(1, 50)), core.D(rng.randint(0, 10000), 2))
        A.append({"rows": a_rows, "inits": inits})
        B.append({"rows": b_rows, "inits": {}})
        I.append({"rows": i_rows, "inits": inits})
    # crafted: inputs given as TWO files whose rows all settle on one day, the other security's rows
    # standing in front of this security's rows in the second file (position in the input must not matter)
    for _ in range(25 if tier == "quick" else 250):
        d0 = core.BASE_DAY + rng.randint(10, 600)
        def _r(sec, act, sh, aps):
            return {"sec": sec, "td": d0, "sd": d0, "act": act, "sh": core.D(sh), "aps": core.D(aps),
                    "com": None, "cur": None, "rate": None, "af": None}
        n1 = rng.randint(2, 20)
        a1 = [_r("FOO", "Buy", n1, rng.randint(5, 30)), _r("FOO", "Sell", rng.randint(1, n1), rng.randint(5, 30))]
        a2 = [_r("FOO", "Buy", rng.randint(1, 9), rng.randint(5, 30))]
        if rng.random() < 0.5:
            a2.append(_r("FOO", "Sell", 1, rng.randint(5, 30)))
        nb = rng.randint(1, 4)
        b2 = [_r("QUX", "Buy", 3, 7)] + [_r("QUX", "Sell", rng.choice([1, 1, 9]), 8) for _ in range(nb - 1)]
        b1 = [_r("QUX", "Buy", 2, 7)] if rng.random() < 0.4 else []
        f1, f2 = b1 + a1, b2 + a2
        A.append({"rows": a1 + a2, "inits": {}, "files": [core.to_csv(a1), core.to_csv(a2)]})
        B.append({"rows": b1 + b2, "inits": {}, "files": ([core.to_csv(b1)] if b1 else []) + [core.to_csv(b2)]})
        I.append({"rows": f1 + f2, "inits": {}, "files": [core.to_csv(f1), core.to_csv(f2)]})
    # crafted: a security whose gains of different years cancel exactly (its total is 0, its years are not),
    # next to other securities
    for _ in range(15 if tier == "quick" else 150):
        y0 = rng.choice([2018, 2019, 2020])
        import datetime as _dt
        def _rr(sec, y, mth, act, sh, aps):
            d = _dt.date(y, mth, rng.randint(1, 28)).toordinal()
            return {"sec": sec, "td": d, "sd": d, "act": act, "sh": core.D(sh), "aps": core.D(aps),
                    "com": None, "cur": None, "rate": None, "af": None}
        g = rng.randint(1, 40)
        px = rng.randint(50, 90)
        a_rows = [_rr("EVEN", y0, 1, "Buy", 2, px), _rr("EVEN", y0, 6, "Sell", 1, px + g), _rr("EVEN", y0 + 1, 6, "Sell", 1, px - g)]
        b_rows = [_rr("QUX", y0, 2, "Buy", 5, 10), _rr("QUX", y0, 9, "Sell", 2, 10 + rng.randint(1, 9))]
        if rng.random() < 0.4:
            b_rows.append(_rr("QUX", y0 + 1, 3, "Sell", 9, 10))     # a failing row
        i_rows = sorted(a_rows + b_rows, key=lambda r: r["sd"])
        A.append({"rows": a_rows, "inits": {}})
        B.append({"rows": b_rows, "inits": {}})
        I.append({"rows": i_rows, "inits": {}})
    ra = corecheck.run_cases(ctx, A, render=True)
    rb = corecheck.run_cases(ctx, B, render=True)
    ri = corecheck.run_cases(ctx, I, render=True)
    for x, y, z in zip(ra, rb, ri):
        st["evaluations"] += 1
        for r in (x, y, z):
            d = core.diff_exact(r["dec"], r["impl"])
            if d is not None:
                corr.append((r, d))
        ia_, ib_, ii_ = x["impl"], y["impl"], z["impl"]
        st["A-%s B-%s" % (ia_["status"], ib_["status"])] += 1
        if "panic" in (ia_["status"], ib_["status"], ii_["status"]):
            continue        # a panic takes the process down: C05's subject
        if ia_["status"] == "ok" and ii_["status"] == "err" and ib_["status"] in ("ok", "err"):
            # every generated row parses, so nothing in B can be a file-level error: whatever is wrong with
            # B's securities must be reported against them, not end the run for A's securities too
            res.violation("failing-input", "input A runs, but with the rows of other securities added the whole run ends with: %s" % str(ii_.get("msg"))[:200],
                          {"input_A": x["hc"], "input_B": y["hc"], "input_interleaved": z["hc"]})
            continue
        if ia_["status"] == "ok" and ib_["status"] == "ok":
            if ii_["status"] != "ok":
                res.violation("failing-input", "A and B each run, but their interleaving ends with %s" % ii_.get("msg"),
                              {"input_A": x["hc"], "input_B": y["hc"], "input_interleaved": z["hc"]})
                continue
            # tables of each security unchanged
            b_failed = any(s["stop"][0] == 1 for s in ib_["secs"].values())
            for part, tag in ((ia_, "A"), (ib_, "B")):
                names = {v: k for k, v in (x if tag == "A" else y)["st"].items()}
                for snum, so in part["secs"].items():
                    sname = names[snum]
                    zi = ii_["secs"].get(z["st"][sname])
                    fake_a = {"status": "ok", "secs": {0: so}}
                    fake_i = {"status": "ok", "secs": {0: zi}} if zi else {"status": "ok", "secs": {}}
                    d = same_results(fake_a, fake_i)
                    if d is not None:
                        res.violation("failing-input", "security %s of input %s changes when the other input's rows are added: %s" % (sname, tag, d),
                                      {"input_A": x["hc"], "input_B": y["hc"], "input_interleaved": z["hc"], "security": sname})
            # the aggregate of every run is the sum of that run's per-security table totals
            # (a security that failed contributes its table total, i.e. nothing)
            for run_, tag in ((x, "A"), (y, "B"), (z, "interleaved")):
                full = run_["raw"].get("render_full", {})
                ag = agg_of(run_["raw"])
                if ag is None or "secs" not in full:
                    continue
                tot = Fraction(0)
                years = collections.defaultdict(Fraction)
                for sname, t in full["secs"].items():
                    labels = t["footer"][8].split("\n")
                    vals = t["footer"][9].split("\n")
                    for lab, val in zip(labels, vals):
                        m = re.match(r"^\s*([+-]?)\$(-?\d+(?:\.\d+)?)", val)
                        if not m:
                            continue
                        v = Fraction(m.group(2))
                        v = -v if m.group(1) == "-" else v
                        if lab == "Total":
                            tot += v
                        else:
                            years[lab] += v
                if abs(ag.get("Since inception", Fraction(0)) - tot) > Fraction(1, 10 ** 9):
                    res.violation("failing-input", "input %s: aggregate 'Since inception' %s is not the sum of the securities' own table totals %s" % (tag, ag.get("Since inception"), tot),
                                  {"input": run_["hc"]})
                # ... and year by year: every year some security's table shows is in the aggregate with the sum
                for yk in set(years) | {k_ for k_ in ag if k_ != "Since inception"}:
                    if abs(ag.get(yk, Fraction(0)) - years.get(yk, Fraction(0))) > Fraction(1, 10 ** 9) or (yk in years and yk not in ag):
                        res.violation("failing-input", "input %s: aggregate figure of %s is %s, the securities' own tables add up to %s" % (tag, yk, ag.get(yk, "absent"), years.get(yk, 0)),
                                      {"input": run_["hc"]})
                        break
            # aggregate gains add up
            ga, gb, gi = agg_of(x["raw"]), agg_of(y["raw"]), agg_of(z["raw"])
            if ga is not None and gb is not None and gi is not None:
                keys = set(ga) | set(gb) | set(gi)
                for k in keys:
                    if abs(ga.get(k, 0) + gb.get(k, 0) - gi.get(k, 0)) > Fraction(1, 10 ** 9):
                        res.violation("failing-input", "aggregate gains for %s: A %s + B %s != interleaved %s" % (k, ga.get(k, 0), gb.get(k, 0), gi.get(k, 0)),
                                      {"input_A": x["hc"], "input_B": y["hc"], "input_interleaved": z["hc"]})
                        break
            if b_failed and z["hash"] not in seen:
                seen.add(z["hash"])
                st["distinct_nontrivial"] += 1
                if len(samples) < 2:
                    samples.append({"A": x["hc"]["files"][0], "B": y["hc"]["files"][0]})
    if corr and not res.violations:
        r, d = corr[0]
        res.violation("broken-correspondence", "model (dec) and implementation differ: " + d,
                      {"theorem_or_projection": "correspondence projection C08 (per-security outcome and rows)",
                       "input": r["hc"], "difference": d}, found_input=False)
    res.coverage.update({
        "evaluations": 3 * st["evaluations"],
        "distinct_nontrivial": st["distinct_nontrivial"],
        "rule": "pairs of seeded inputs over disjoint securities (B erroneous in about half of the cases: over-sales, reverse-split fractions, split-sanity errors), run separately and randomly interleaved; non-trivial = B contains a failing security; every figure of every security and the aggregate gains (full precision) are compared",
        "samples": samples,
        "input_distribution": dict(sorted(st.items())),
        "traces_validated_against_impl": 3 * st["evaluations"],
    })


def replay(res, ctx, path):
    return corecheck.replay(res, ctx, path)
