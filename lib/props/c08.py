# C08 - securities are computed independently; one security's error stays local.
import collections
import random
import re
from fractions import Fraction

import core
import corecheck
import gen
from props.c07 import same_results


def agg_of(raw):
    """aggregate gains table of the render model (full precision): {year or 'total': Fraction}"""
    t = raw.get("render_full", {}).get("agg")
    if not t:
        return None
    out = {}
    for row in t["rows"]:
        v = row[1].replace("$", "").replace(",", "")
        out[row[0]] = Fraction(v)
    return out


def corpus_cases():
    """hand-written boundary cases of the report: three securities and two years with an over-sale after gains
    (the failing security's computed gains must count nowhere), a security failing on its first row (empty table
    with an error), every security failing (aggregate: 'Since inception' only), a failing security that sorts
    first / last, a foreign-currency row next to a failing security"""
    import datetime as _dt
    def r(sec, y, m, act, sh, aps, cur=None, rate=None, memo=None):
        d = _dt.date(y, m, 15).toordinal()
        x = {"sec": sec, "td": d, "sd": d, "act": act, "sh": core.D(sh), "aps": core.D(aps),
             "com": None, "cur": cur, "rate": rate, "af": None}
        if memo:
            x["memo"] = memo
        return x
    good = [r("AAA", 2019, 1, "Buy", 10, 2), r("AAA", 2019, 6, "Sell", 4, 5), r("AAA", 2020, 6, "Sell", 4, 3)]
    bad = [r("MMM", 2019, 2, "Buy", 5, 1), r("MMM", 2019, 7, "Sell", 2, 4), r("MMM", 2020, 7, "Sell", 9, 4)]
    other = [r("ZZZ", 2019, 3, "Buy", 3, 10), r("ZZZ", 2020, 8, "Sell", 3, 11)]
    usd = [r("UUU", 2019, 3, "Buy", 3, 10, "USD", core.D(13, 1)), r("UUU", 2020, 8, "Sell", 3, 11, "USD", core.D(125, 2))]
    first_bad = [r("AAB", 2019, 4, "Sell", 1, 4)]
    last_bad = [r("ZZZZ", 2019, 4, "Buy", 1, 4), r("ZZZZ", 2019, 5, "Sell", 2, 4)]
    def mix(*ls):
        return sorted([x for l in ls for x in l], key=lambda x: (x["sd"], x["sec"]))
    cases = [good + bad + other, mix(good, bad, other), mix(bad, other), mix(good, bad), bad, first_bad,
             mix(first_bad, last_bad), mix(good, first_bad, last_bad), mix(usd, bad), mix(good, usd, bad, other),
             mix(first_bad, good), mix(good, last_bad, usd)]
    return [{"rows": c, "inits": {}} for c in cases]


def run(res, ctx):
    tier, seed = ctx["tier"], ctx["seed"]
    rng = random.Random(seed * 122949829 + 8)
    st = collections.Counter()
    seen, samples, corr = set(), [], []
    n = 750 if tier == "quick" else 15000
    A, B, I = [], [], []
    for _ in range(n):
        a_rows = gen.gen_history(rng, sec="FOO", p_invalid=rng.choice([0, 0.2])) + (
            gen.gen_history(rng, sec="BAR", p_invalid=0.0) if rng.random() < 0.3 else [])
        b_rows = gen.gen_history(rng, sec="QUX", p_invalid=rng.choice([0, 0.3, 0.6]), p_split=0.2)
        if rng.random() < 0.15:
            # a failing security of the split-sanity kind
            d = b_rows[-1]["sd"] + 5 if b_rows else core.BASE_DAY
            b_rows += [{"sec": "QUX", "td": d, "sd": d, "act": "Split", "split": ("2", "1"), "af": None},
                       {"sec": "QUX", "td": d + 1, "sd": d + 1, "act": "Split", "split": ("2", "1"), "af": "Default"}]
        # random interleaving keeping each input's order
        labels = ["a"] * len(a_rows) + ["b"] * len(b_rows)
        rng.shuffle(labels)
        ia, ib = iter(a_rows), iter(b_rows)
        i_rows = [next(ia) if l == "a" else next(ib) for l in labels]
        inits = {}
        if rng.random() < 0.2:
            inits["FOO"] = (core.D(rng.randint(1, 50)), core.D(rng.randint(0, 10000), 2))
        A.append({"rows": a_rows, "inits": inits})
        B.append({"rows": b_rows, "inits": {}})
        I.append({"rows": i_rows, "inits": inits})
    # crafted: inputs given as TWO files whose rows all settle on one day, the other security's rows
    # standing in front of this security's rows in the second file (position in the input must not matter)
    for _ in range(25 if tier == "quick" else 250):
        d0 = core.BASE_DAY + rng.randint(10, 600)
        def _r(sec, act, sh, aps):
            return {"sec": sec, "td": d0, "sd": d0, "act": act, "sh": core.D(sh), "aps": core.D(aps),
                    "com": None, "cur": None, "rate": None, "af": None}
        n1 = rng.randint(2, 20)
        a1 = [_r("FOO", "Buy", n1, rng.randint(5, 30)), _r("FOO", "Sell", rng.randint(1, n1), rng.randint(5, 30))]
        a2 = [_r("FOO", "Buy", rng.randint(1, 9), rng.randint(5, 30))]
        if rng.random() < 0.5:
            a2.append(_r("FOO", "Sell", 1, rng.randint(5, 30)))
        nb = rng.randint(1, 4)
        b2 = [_r("QUX", "Buy", 3, 7)] + [_r("QUX", "Sell", rng.choice([1, 1, 9]), 8) for _ in range(nb - 1)]
        b1 = [_r("QUX", "Buy", 2, 7)] if rng.random() < 0.4 else []
        f1, f2 = b1 + a1, b2 + a2
        A.append({"rows": a1 + a2, "inits": {}, "files": [core.to_csv(a1), core.to_csv(a2)]})
        B.append({"rows": b1 + b2, "inits": {}, "files": ([core.to_csv(b1)] if b1 else []) + [core.to_csv(b2)]})
        I.append({"rows": f1 + f2, "inits": {}, "files": [core.to_csv(f1), core.to_csv(f2)]})
    # crafted: a security whose gains of different years cancel exactly (its total is 0, its years are not),
    # next to other securities
    for _ in range(15 if tier == "quick" else 150):
        y0 = rng.choice([2018, 2019, 2020])
        import datetime as _dt
        def _rr(sec, y, mth, act, sh, aps):
            d = _dt.date(y, mth, rng.randint(1, 28)).toordinal()
            return {"sec": sec, "td": d, "sd": d, "act": act, "sh": core.D(sh), "aps": core.D(aps),
                    "com": None, "cur": None, "rate": None, "af": None}
        g = rng.randint(1, 40)
        px = rng.randint(50, 90)
        a_rows = [_rr("EVEN", y0, 1, "Buy", 2, px), _rr("EVEN", y0, 6, "Sell", 1, px + g), _rr("EVEN", y0 + 1, 6, "Sell", 1, px - g)]
        b_rows = [_rr("QUX", y0, 2, "Buy", 5, 10), _rr("QUX", y0, 9, "Sell", 2, 10 + rng.randint(1, 9))]
        if rng.random() < 0.4:
            b_rows.append(_rr("QUX", y0 + 1, 3, "Sell", 9, 10))     # a failing row
        i_rows = sorted(a_rows + b_rows, key=lambda r: r["sd"])
        A.append({"rows": a_rows, "inits": {}})
        B.append({"rows": b_rows, "inits": {}})
        I.append({"rows": i_rows, "inits": {}})
    ra = corecheck.run_cases(ctx, A, render=True)
    rb = corecheck.run_cases(ctx, B, render=True)
    ri = corecheck.run_cases(ctx, I, render=True)
    for x, y, z in zip(ra, rb, ri):
        st["evaluations"] += 1
        for r in (x, y, z):
            d = core.diff_exact(r["dec"], r["impl"])
            if d is not None:
                corr.append((r, d))
        ia_, ib_, ii_ = x["impl"], y["impl"], z["impl"]
        st["A-%s B-%s" % (ia_["status"], ib_["status"])] += 1
        if "panic" in (ia_["status"], ib_["status"], ii_["status"]):
            continue        # a panic takes the process down: C05's subject
        if ia_["status"] == "ok" and ii_["status"] == "err" and ib_["status"] in ("ok", "err"):
            # every generated row parses, so nothing in B can be a file-level error: whatever is wrong with
            # B's securities must be reported against them, not end the run for A's securities too
            res.violation("failing-input", "input A runs, but with the rows of other securities added the whole run ends with: %s" % str(ii_.get("msg"))[:200],
                          {"input_A": x["hc"], "input_B": y["hc"], "input_interleaved": z["hc"]})
            continue
        if ia_["status"] == "ok" and ib_["status"] == "ok":
            if ii_["status"] != "ok":
                res.violation("failing-input", "A and B each run, but their interleaving ends with %s" % ii_.get("msg"),
                              {"input_A": x["hc"], "input_B": y["hc"], "input_interleaved": z["hc"]})
                continue
            # tables of each security unchanged
            b_failed = any(s["stop"][0] == 1 for s in ib_["secs"].values())
            for part, tag in ((ia_, "A"), (ib_, "B")):
                names = {v: k for k, v in (x if tag == "A" else y)["st"].items()}
                for snum, so in part["secs"].items():
                    sname = names[snum]
                    zi = ii_["secs"].get(z["st"][sname])
                    fake_a = {"status": "ok", "secs": {0: so}}
                    fake_i = {"status": "ok", "secs": {0: zi}} if zi else {"status": "ok", "secs": {}}
                    d = same_results(fake_a, fake_i)
                    if d is not None:
                        res.violation("failing-input", "security %s of input %s changes when the other input's rows are added: %s" % (sname, tag, d),
                                      {"input_A": x["hc"], "input_B": y["hc"], "input_interleaved": z["hc"], "security": sname})
            # the aggregate of every run is the sum of that run's per-security table totals
            # (a security that failed contributes its table total, i.e. nothing)
            for run_, tag in ((x, "A"), (y, "B"), (z, "interleaved")):
                full = run_["raw"].get("render_full", {})
                ag = agg_of(run_["raw"])
                if ag is None or "secs" not in full:
                    continue
                tot = Fraction(0)
                years = collections.defaultdict(Fraction)
                for sname, t in full["secs"].items():
                    labels = t["footer"][8].split("\n")
                    vals = t["footer"][9].split("\n")
                    for lab, val in zip(labels, vals):
                        m = re.match(r"^\s*([+-]?)\$(-?\d+(?:\.\d+)?)", val)
                        if not m:
                            continue
                        v = Fraction(m.group(2))
                        v = -v if m.group(1) == "-" else v
                        if lab == "Total":
                            tot += v
                        else:
                            years[lab] += v
                if abs(ag.get("Since inception", Fraction(0)) - tot) > Fraction(1, 10 ** 9):
                    res.violation("failing-input", "input %s: aggregate 'Since inception' %s is not the sum of the securities' own table totals %s" % (tag, ag.get("Since inception"), tot),
                                  {"input": run_["hc"]})
                # ... and year by year: every year some security's table shows is in the aggregate with the sum
                for yk in set(years) | {k_ for k_ in ag if k_ != "Since inception"}:
                    if abs(ag.get(yk, Fraction(0)) - years.get(yk, Fraction(0))) > Fraction(1, 10 ** 9) or (yk in years and yk not in ag):
                        res.violation("failing-input", "input %s: aggregate figure of %s is %s, the securities' own tables add up to %s" % (tag, yk, ag.get(yk, "absent"), years.get(yk, 0)),
                                      {"input": run_["hc"]})
                        break
            # aggregate gains add up
            ga, gb, gi = agg_of(x["raw"]), agg_of(y["raw"]), agg_of(z["raw"])
            if ga is not None and gb is not None and gi is not None:
                keys = set(ga) | set(gb) | set(gi)
                for k in keys:
                    if abs(ga.get(k, 0) + gb.get(k, 0) - gi.get(k, 0)) > Fraction(1, 10 ** 9):
                        res.violation("failing-input", "aggregate gains for %s: A %s + B %s != interleaved %s" % (k, ga.get(k, 0), gb.get(k, 0), gi.get(k, 0)),
                                      {"input_A": x["hc"], "input_B": y["hc"], "input_interleaved": z["hc"]})
                        break
            if b_failed and z["hash"] not in seen:
                seen.add(z["hash"])
                st["distinct_nontrivial"] += 1
                if len(samples) < 2:
                    samples.append({"A": x["hc"]["files"][0], "B": y["hc"]["files"][0]})
    # ---- the report security by security (Model/AppRender.v; theorems C08_report_entry, C08_table_independent,
    # C08_error_is_local, C08_aggregate_ignores_failed, C08_aggregate_is_sum_of_tables): the extracted components
    # against run_acb_app_to_render_model on every run; the run without a failing security's rows
    import c08agg
    import rendermodel
    cst = collections.Counter()
    crafted = corecheck.run_cases(ctx, corpus_cases(), render=True)
    allruns = list(ra) + list(rb) + list(ri) + crafted
    usable = [r for r in allruns if core.diff_exact(r["dec"], r["impl"]) is None and r["impl"]["status"] != "panic"]
    cst["components:skipped-panic-or-ledger-differs"] = len(allruns) - len(usable)
    comps = c08agg.run_components([r["case"] for r in usable])
    wo_jobs = []
    for r, m in zip(usable, comps):
        status, out = rendermodel.compare_run(r, m, cst)
        cst["components:" + status] += 1
        nums = c08agg.compare_numbers(r, m) if status == "compared" else []
        for mm in out[:2]:
            res.violation("broken-correspondence", "per-security report components of the model and the implementation differ (%s view, table %s, column %s): %s" % (
                mm["view"], mm["table"], mm["column"], mm["what"]),
                {"theorem_or_projection": "report components (Model/AppRender.v own_table / own_errors / app_aggregate against approot.rs run_acb_app_to_render_model)",
                 "input": r["hc"]}, found_input=False)
        for msg in nums[:2]:
            res.violation("broken-correspondence", "per-security report components: " + msg,
                          {"theorem_or_projection": "report components (Model/AppRender.v footer_gains / app_aggregate against approot.rs get_cumulative_capital_gains)",
                           "input": r["hc"]}, found_input=False)
        if status == "compared" and r["impl"]["status"] == "ok":
            cst["components:tables"] += len(r["impl"]["secs"])
            names = {v: k for k, v in r["st"].items()}
            failed = sorted(names[s] for s, so in r["impl"]["secs"].items() if so["stop"][0] == 1)
            cst["components:tables-with-error"] += len(failed)
            if failed and len(r["impl"]["secs"]) >= 2 and len(wo_jobs) < (120 if tier == "quick" else 2500):
                wo_jobs.append((r, failed[0]))
    # the run without the failing security's rows: (a) implementation against implementation, string for string;
    # (b) the model's run without them (rows keep their read indices) against the implementation's tables of the
    # OTHER securities and aggregate in the run with them
    red_cases = [{"rows": [x for x in r["case"]["rows"] if x["sec"] != t], "inits": r["case"].get("inits", {})} for r, t in wo_jobs]
    red_runs = corecheck.run_cases(ctx, red_cases, render=True) if red_cases else []
    wo_models = c08agg.run_without([r["case"] for r, _ in wo_jobs], [r["st"][t] for r, t in wo_jobs]) if wo_jobs else []
    for (r, t), rr, m in zip(wo_jobs, red_runs, wo_models):
        cst["without-failed:runs"] += 1
        if rr["impl"]["status"] == "panic" or r["impl"]["status"] != "ok":
            continue
        for msg in c08agg.same_tables(r, rr, t)[:2]:
            res.violation("failing-input", "the error of %s is not local: %s" % (t, msg),
                          {"input_with": r["hc"], "input_without": rr["hc"], "failing_security": t})
        r2 = c08agg.drop_security(r, t)
        if m["status"] == "ok":
            for key in ("full", "cents"):
                if m[key]["status"] == "ok":
                    m[key]["value"]["secs"].pop(r["st"][t], None)
            m["own"].pop(r["st"][t], None)
        status, out = rendermodel.compare_run(r2, m, cst)
        cst["without-failed:" + status] += 1
        for mm in out[:2] + [{"view": "full", "table": "-", "column": "figures", "what": x} for x in c08agg.compare_numbers(r2, m)[:2]]:
            res.violation("broken-correspondence", "the model's run WITHOUT the rows of the failing security %s and the implementation's tables of the other securities WITH them differ (%s view, table %s, column %s): %s" % (
                t, mm["view"], mm["table"], mm["column"], mm["what"]),
                {"theorem_or_projection": "C08_error_is_local / C08_aggregate_ignores_failed", "input": r["hc"], "failing_security": t}, found_input=False)
    res.coverage["report_components"] = {
        "runs": {k: v for k, v in sorted(cst.items()) if not k.startswith("cells:") and not k.startswith("leaves:")},
        "cells_compared": sum(v for k, v in cst.items() if k.startswith("cells:")),
        "rule": "every run of this check (A, B, interleavings, hand-written corpus) whose ledger agrees with the model: the report assembled from the extracted "
                "per-security components (own_table, own error, render_aggregate of app_aggregate; rust_decimal rounding) against run_acb_app_to_render_model, "
                "every cell of both views, error slots, aggregate rows; footer figures and aggregate also as numbers (equal, not close); for runs with a failing "
                "security: the implementation re-run without that security's rows (tables of the others and aggregate identical string for string) and the model's "
                "run without them against the implementation's other tables with them",
    }
    if corr and not res.violations:
        r, d = corr[0]
        res.violation("broken-correspondence", "model (dec) and implementation differ: " + d,
                      {"theorem_or_projection": "correspondence projection C08 (per-security outcome and rows)",
                       "input": r["hc"], "difference": d}, found_input=False)
    res.coverage.update({
        "evaluations": 3 * st["evaluations"],
        "distinct_nontrivial": st["distinct_nontrivial"],
        "rule": "pairs of seeded inputs over disjoint securities (B erroneous in about half of the cases: over-sales, reverse-split fractions, split-sanity errors), run separately and randomly interleaved; non-trivial = B contains a failing security; every figure of every security and the aggregate gains (full precision) are compared",
        "samples": samples,
        "input_distribution": dict(sorted(st.items())),
        "traces_validated_against_impl": 3 * st["evaluations"],
    })


def replay(res, ctx, path):
    return corecheck.replay(res, ctx, path)
