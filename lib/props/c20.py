# C20 - statement FMV extraction returns every holding once; no page is skipped.
#
# Correspondence (model vs implementation, same generated inputs):
#   * the three line regexes (hook accessor) vs the hand-written matchers
#   * the allocation-table parser on rendered and perturbed tables
#   * parse_statement_text (public API) on multi-page statements
#   * safe_page_chunks_with_remainder_pn (public API)
#   * OptimizedPageIter over a page-text provider (hook constructor)
# Oracles (independent of the model):
#   * a well-formed table (the executable predicate of C20_table_roundtrip)
#     must be returned exactly: description lines joined by one space,
#     allocation, market value, total (numbers recomputed here from the
#     printed tokens)
#   * flattened groups = every page 1..n, nothing else; the iterator yields
#     exactly the flattened groups, requests no page outside 1..n, no panic
import collections
import hashlib
import json
import random
from fractions import Fraction

from common import run_harness, run_model
from qtlib import enc_text, enc_list, enc_ns, model_reader, known_findings, dfrac

BULLET = "■"
SPACES = [" ", " ", " ", "  ", "\t", " ", " ", " \t ", "\x0b", "\r"]

ERR_CLASSES = [
    ("No header or allocation total line found", 201),
    ("Unable to parse allocation and FMV from", 202),
    ("Unable to parse allocation from", 203),
    ("Unable to parse FMV from", 204),
    ("Could not find month", 205),
    ("Did not find FMVs in statement", 206),
]


def err_class(msg):
    for pat, c in ERR_CLASSES:
        if pat in msg:
            return c
    if "number too large" in msg or "invalid digit" in msg or "cannot parse integer" in msg:
        return 207   # year / day integer parse (the message does not say which)
    return 209       # Date::from_calendar_date component range


def canon_class(c):
    return 207 if c == 208 else c


# ------------------------------------------------------------ tables
WORDS = ["BLABLA", "ETF", "(BLABLA)", "SOME", "GIC", "01/01/2024", "4.00%", "1Y", "DUE", "INT",
         "4.000%", "(XXXXXX)", "ANOTHER", "5.00%", "2Y", "CPD", "BOND", "5.25", "2030", "12",
         "100.0", "CASH", "US$", "7", "3.5", "1,000", "CL-A", "émis", "N°", "99", "2024",
         "0.5", "A", "(" + BULLET + ")", "T+1", "50,000.00", "ALLOCATION", "ASSET ALLOCATION", "MARKET VALUE"]
ALLOCS = ["80.0", "5.0", "15.0", "100.0", "100.00", "0.0", "55.55", "20", "33.333", "1.25", "100", "99.9"]
FMVS = ["80,000.0", "5,000.1", "15,000.0", "99,999.99", "0", "0.0", "1,234.0", "200,000.0", "7",
        "1,000,000.00", "12.345", "50,000.00"]


def gen_line(rng, first=False):
    n = rng.choice([1, 1, 2, 3, 4, 6])
    toks = [rng.choice(WORDS) for _ in range(n)]
    if rng.random() < 0.15:
        toks.append(rng.choice(["5.25 2030", "2024 12", "4.5 99", "10.0 7"]))
    s = toks[0]
    for t in toks[1:]:
        s += rng.choice([" ", " ", " ", "  "]) + t
    return s


def gen_table(rng, n_secs=None):
    if n_secs is None:
        n_secs = rng.choice([0, 1, 1, 1, 2, 3, 4, 6])
    secs = []
    for _ in range(n_secs):
        nl = rng.choice([1, 1, 2, 2, 3, 4])
        lines = [gen_line(rng) for _ in range(nl)]
        alloc = rng.choice(ALLOCS)
        if n_secs == 1 and rng.random() < 0.7:
            alloc = rng.choice(["100.0", "100.00"])
        secs.append({"lines": lines, "alloc": alloc, "fmv": rng.choice(FMVS),
                     "own": rng.random() < 0.5, "blank": rng.random() < 0.5})
    pre = []
    for _ in range(rng.choice([0, 0, 1, 2, 3])):
        pre.append(rng.choice(["Securities Owned", "Combined in (CAD)¹", "", "Leading garbage",
                               "100.0 5", "Page 7 of 12", "  "]))
    t = {"indent": rng.choice([0, 0, 4, 12]), "pre": pre,
         "header": rng.choice(["ALLOCATION (%)² MARKET VALUE ($)³", "ALLOCATION (%) MARKET VALUE ($)",
                               "ALLOCATION"]),
         "secs": secs, "total": rng.choice(["100,000.01", "0.0", "1,000,000.0", "99,999.99", "50,000.00", "12"]),
         "total00": rng.random() < 0.3}
    # occasional ill-formed layouts (exercise the parser outside the theorem)
    r = rng.random()
    if secs and r < 0.04:
        rng.choice(secs)["lines"].append(BULLET + " STRAY")
    elif secs and r < 0.08:
        rng.choice(secs)["alloc"] = rng.choice(["5", "1.2.3", "1,000.0", "x"])
    elif secs and r < 0.11:
        s = rng.choice(secs)
        s["lines"][-1] = s["lines"][-1] + " "
    elif r < 0.13:
        t["header"] = "MARKET VALUE"
    elif r < 0.15:
        t["total"] = rng.choice(["5", "1.2.3", "abc"])
    elif secs and r < 0.17:
        rng.choice(secs)["fmv"] = rng.choice(["1.2.3", "1,2,3.4.5", "79228162514264337593543950336"])
    return t


def sec_lines(s):
    nums = s["alloc"] + " " + s["fmv"]
    if s["own"]:
        return list(s["lines"]) + [nums]
    if not s["lines"]:
        return [nums]
    return list(s["lines"][:-1]) + [s["lines"][-1] + " " + nums]


def render_table(t):
    ind = " " * t["indent"]
    ls = [ind + l for l in t["pre"]] + [ind + t["header"]]
    for s in t["secs"]:
        if s["blank"]:
            ls.append("")
        sl = sec_lines(s)
        ls.append(ind + BULLET + " " + sl[0])
        ls += [ind + l for l in sl[1:]]
    ls.append(ind + ("100.00" if t["total00"] else "100.0") + " " + t["total"])
    return "".join(l + "\n" for l in ls)


def num_value(tok):
    """value of a printed number (digits, '.', ','), None when it is not one"""
    s = tok.replace(",", "")
    if not s or any(c not in "0123456789." for c in s) or s.count(".") > 1 or not any(c.isdigit() for c in s):
        return None
    return Fraction(s if not s.endswith(".") else s[:-1])


def table_content(t):
    secs = []
    for s in t["secs"]:
        secs.append((" ".join(s["lines"]), num_value(s["alloc"]), num_value(s["fmv"])))
    return secs, num_value(t["total"])


def enc_table(t, post=""):
    out = [26, t["indent"]] + enc_list(t["pre"], enc_text) + enc_text(t["header"])
    out += enc_list(t["secs"], lambda s: enc_list(s["lines"], enc_text) + enc_text(s["alloc"]) + enc_text(s["fmv"])
                    + [int(s["own"]), int(s["blank"])])
    out += enc_text(t["total"]) + [int(t["total00"])] + enc_text(post)
    return out


def read_fmvs(rd):
    return rd.lst(lambda: (rd.text(), rd.q(), rd.q()))


def read_page_res(rd):
    def f():
        fs = read_fmvs(rd)
        return (fs, rd.q())
    return rd.res(f)


def impl_page_res(o):
    if "err" in o:
        return ("rej", err_class(o["err"]))
    if o.get("status") == "panic":
        return ("panic", o.get("panic"))
    return ("ok", ([(f["desc"], dfrac(f["alloc"]), dfrac(f["fmv"])) for f in o["fmvs"]], dfrac(o["total"])))


def same_res(a, b):
    if a[0] != b[0]:
        return False
    if a[0] == "rej":
        return canon_class(a[1]) == canon_class(b[1])
    if a[0] == "panic":
        return True
    return a[1] == b[1]


def table_nontrivial(t):
    return any(len(s["lines"]) > 1 and any(ch.isdigit() for l in s["lines"] for ch in l) for s in t["secs"]) \
        or (len(t["secs"]) == 1 and t["secs"][0]["alloc"] in ("100.0", "100.00")) or not t["secs"]


def check_tables(res, ctx, tables, posts):
    st = ctx["stats"]
    texts = [render_table(t) for t in tables]
    impl = run_harness(ctx["exe"], "fmv_page", [{"page": x + p} for x, p in zip(texts, posts)])
    mod = run_model([enc_table(t, p) for t, p in zip(tables, posts)], group="questrade")
    for t, txt, post, io, mo in zip(tables, texts, posts, impl, mod):
        rd = model_reader(mo)
        m_render = rd.text()
        lay, unamb = rd.z() == 1, rd.z() == 1
        m_content = (read_fmvs(rd), rd.q())
        m_parse = read_page_res(rd)
        i_parse = impl_page_res(io)
        st["tables"] += 1
        st["evaluations"] += 1
        st["tables_secs_%d" % min(len(t["secs"]), 6)] += 1
        h = hashlib.sha1((txt + post).encode()).hexdigest()
        if table_nontrivial(t) and lay and h not in ctx["seen"]:
            ctx["seen"].add(h)
            st["distinct_nontrivial"] += 1
            if len(ctx["samples"]) < 3:
                ctx["samples"].append({"kind": "table", "page": txt + post})
        if m_render != txt:
            res.violation("broken-correspondence", "render_table of the model differs from the generator's rendering",
                          {"theorem_or_projection": "Spec/FmvTable.render_table", "table": t}, found_input=False)
            continue
        if not same_res(m_parse, i_parse):
            st["corr_diffs"] += 1
            ctx["corr"].append(("parse_fmvs_from_page", {"case_kind": "table", "table": t, "post": post, "page": txt + post},
                                "model %r, implementation %r" % (m_parse, i_parse)))
        exp = table_content(t)
        if lay and unamb:
            st["tables_well_formed"] += 1
            if m_content != exp:
                res.violation("broken-correspondence", "content of the model differs from the generator's table",
                              {"theorem_or_projection": "Spec/FmvTable.content", "table": t}, found_input=False)
            if i_parse != ("ok", exp):
                res.violation("failing-input",
                              "well-formed allocation table is not returned as listed",
                              {"case_kind": "table", "table": t, "post": post, "page": txt + post,
                               "expected_spec": repr(exp), "actual_impl": repr(i_parse)})
        elif lay:
            st["tables_ambiguous_class"] += 1
            if i_parse != ("ok", exp):
                st["ambiguous_misparsed"] += 1
        else:
            st["tables_outside_layout"] += 1


# ------------------------------------------------------------ regexes
RE_TOKENS = [BULLET, "100.0", "100.00", "100x0", "1000", "10000", "100", "100.", "5.0", "12.5", "1,234.56", "0",
             "7", "80.0", "800,000.0", "1.2.3", "1,,2", "ABC", "X", "(FOO)", "4.00%", "01/01/2024",
             "é", "²", ",", ".", "1.", "1x", "x1", "100.0x", BULLET + "A", "A" + BULLET, "5", "55", "..", "0,0"]


RE_ALPHABET = [" ", " ", "\t", BULLET, "1", "0", "0", ".", ",", "x", "5", "\n", "\u00a0", "\r"]


def gen_re_string(rng):
    if rng.random() < 0.35:
        # short strings over a small alphabet: dense in near-misses
        return "".join(rng.choice(RE_ALPHABET) for _ in range(rng.randrange(0, 14)))
    n = rng.choice([0, 1, 2, 2, 3, 3, 4, 5, 7])
    s = rng.choice(["", "", " ", "\t ", "    "])
    for i in range(n):
        s += rng.choice(RE_TOKENS)
        if i < n - 1:
            s += rng.choice(SPACES + ["", "\n" if rng.random() < 0.1 else " "])
    s += rng.choice(["", "", " ", "  \t", "\r", "\n" if rng.random() < 0.2 else ""])
    return s


def check_regexes(res, ctx, strings):
    st = ctx["stats"]
    cases = [(w, s) for s in strings for w in (0, 1, 2)]
    impl = run_harness(ctx["exe"], "fmv_re", [{"which": w, "s": s} for w, s in cases])
    mod = run_model([[22, w] + enc_text(s) for w, s in cases], group="questrade")
    names = ["SEC_FIRST_ROW_RE", "SEC_DATA_RE", "TOTAL_ROW_RE"]
    for (w, s), io, mo in zip(cases, impl, mod):
        rd = model_reader(mo)
        m = rd.lst(rd.text) if rd.z() == 1 else None
        i = io["caps"]
        st["regex_evaluations"] += 1
        st["evaluations"] += 1
        if i is not None:
            st["regex_matches_%s" % names[w]] += 1
        if m != i:
            st["corr_diffs"] += 1
            ctx["corr"].append((names[w], {"case_kind": "regex", "which": w, "s": s},
                                "matcher of the model gives %r, the regex %r on %r" % (m, i, s)))


# ------------------------------------------------------------ statements
MONTHS = ["January", "February", "March", "April", "May", "June", "July", "August", "September", "October",
          "November", "December", "Jan", "Feb", "Sept", "DEC", "mar", "Smarch", "Juno", "Ma", "febré"]
FILLER = ["Leading garbage", "Account summary\nnothing here", "Securities Owned 95,000.00\nCash 5,000.00\nTotal Combined in (CAD) 100,000.00",
          "Securities Owned (USD)", "Current year: 2024",
          "Securities Owned Combined in (USD)", "recurrent month: May 5, 2020", "Page 3", "",
          "Securities Owned\nCombined in (USD)\nALLOCATION (%) MARKET VALUE ($)\n" + BULLET + " USD THING (UTH) 100.0 1,000.0\n100.0 1,000.0\nall figures Combined in (CAD) on page 8"]


def gen_month_page(rng):
    if rng.random() < 0.6:
        m = rng.choice(MONTHS[:17])
        d = rng.choice(["28", "1", "15", "05", "12"])
        y = rng.choice(["2024", "2023", "1999", "2100", "02024"])
        key = rng.choice(["Current month:", "Current month:", "CURRENT MONTH:", "current Month:"])
        pre = rng.choice(["Account #:  1234 ", "", "\n", "(", "-", "Account #:  1234 "])
        sep = rng.choice(["  ", " ", "\n", "\t", " \n "])
        return "Leading garbage\n" + pre + key + sep + m + " " + d + ", " + y + rng.choice([" trailing garbage", "", "\n"])
    m = rng.choice(MONTHS)
    d = rng.choice(["28", "1", "31", "30", "29", "0", "05", "300", "12"])
    y = rng.choice(["2024", "2023", "1999", "2100", "0", "99999", "3000000000", "2024"])
    key = rng.choice(["Current month:", "Current month:", "CURRENT MONTH:", "current Month:"])
    pre = rng.choice(["Account #:  1234 ", "", "x", "\n", "_", "1", "(", "é", "-"])
    sep = rng.choice(["  ", " ", "\n", "\t", " \n "])
    s = "Leading garbage\n" + pre + key + sep + m + rng.choice([" ", " ", "  ", "\n"]) + d + rng.choice([", ", ", ", ",", " , "]) + y
    return s + rng.choice([" trailing garbage", "", "5", "\n"])


def gen_marker(rng):
    w = lambda: rng.choice([" ", "\n", "\n\n", "  ", "\t", "\n        "])
    s = "Securities" + w() + "Owned" + w() + "Combined" + w() + "in" + w() + "(CAD)"
    r = rng.random()
    if r < 0.06:
        s = s.replace("Owned", "owned")
    elif r < 0.1:
        s = s.replace("(CAD)", "(USD)")
    elif r < 0.13:
        s = s.replace("Securities", "Securities,")
    return s


def gen_statement(rng):
    pages = []
    n_fill = rng.choice([0, 1, 2, 4])
    t = gen_table(rng)
    table_page = " Leading garbage\n" + gen_marker(rng) + rng.choice(["¹\n", "\n", " "]) + render_table(t)
    month_page = gen_month_page(rng)
    for _ in range(n_fill):
        pages.append(rng.choice(FILLER))
    r = rng.random()
    if r < 0.7:
        body = [month_page, table_page]
    elif r < 0.8:
        body = [table_page, month_page]
    elif r < 0.87:
        body = [month_page + "\n" + table_page]
    elif r < 0.92:
        body = [gen_month_page(rng), month_page, table_page, table_page]
    elif r < 0.96:
        body = [month_page]
    else:
        body = [table_page]
    for b in body:
        pages.insert(rng.randrange(len(pages) + 1) if rng.random() < 0.3 else len(pages), b)
    return pages


def read_stmt_res(rd):
    def f():
        y, m, d = rd.z(), rd.z(), rd.z()
        fs = read_fmvs(rd)
        return ("%04d-%02d-%02d" % (y, m, d), fs, rd.q())
    return rd.res(f)


def impl_stmt_res(o):
    if o.get("panic") or o.get("status") == "panic":
        return ("panic", None)
    if "err" in o:
        return ("rej", err_class(o["err"]))
    return ("ok", (o["month"], [(f["desc"], dfrac(f["alloc"]), dfrac(f["fmv"])) for f in o["fmvs"]], dfrac(o["total"])))


def check_statements(res, ctx, stmts):
    st = ctx["stats"]
    impl = run_harness(ctx["exe"], "fmv_stmt", [{"pages": p} for p in stmts])
    mod = run_model([[24] + enc_list(p, enc_text) for p in stmts], group="questrade")
    for pages, io, mo in zip(stmts, impl, mod):
        m = read_stmt_res(model_reader(mo))
        i = impl_stmt_res(io)
        st["statements"] += 1
        st["evaluations"] += 1
        st["statement_" + i[0]] += 1
        if not same_res(m, i):
            st["corr_diffs"] += 1
            ctx["corr"].append(("parse_statement_text", {"case_kind": "statement", "pages": pages},
                                "model %r, implementation %r" % (m, i)))


def month_num(name):
    return ["jan", "feb", "mar", "apr", "may", "jun", "jul", "aug", "sep", "oct", "nov", "dec"].index(name[:3].lower()) + 1


def check_statement_oracle(res, ctx, rng, n):
    """well-formed statements: the month page, then (anywhere later) the page
    with a well-formed table; hints arbitrary; through the page iterator"""
    st = ctx["stats"]
    cases = []
    for _ in range(n):
        t = gen_table(rng)
        mname = rng.choice(MONTHS[:16])
        y, d = rng.choice([2024, 2023, 1999]), rng.choice([1, 15, 28])
        month_page = "Account #: 1\nCurrent month:  %s %d, %d more" % (mname, d, y)
        table_page = "Securities Owned\n\nCombined in (CAD)¹\n" + render_table(t)
        n_pages = rng.choice([2, 3, 8, 9, 12])
        pages = [rng.choice(FILLER[:4]) for _ in range(n_pages)]
        pos_m = rng.randrange(n_pages - 1) if rng.random() < 0.5 else 0
        pos_t = rng.randrange(pos_m + 1, n_pages)
        pages[pos_m] = month_page
        pages[pos_t] = table_page
        hints = rng.choice([[[1, 7], [6, 8]], [[1, 7], [6, 8]], [], gen_hints(rng, n_pages)])
        cases.append((t, pages, hints, "%04d-%02d-%02d" % (y, month_num(mname), d), pos_m + 1, pos_t + 1))
    impl = run_harness(ctx["exe"], "stmt_iter", [{"pages": c[1], "hints": c[2]} for c in cases])
    mod = run_model([[25] + enc_list(c[1], enc_text) + enc_list(c[2], enc_ns) for c in cases], group="questrade")
    wf = run_model([enc_table(c[0]) for c in cases], group="questrade")
    for (t, pages, hints, date, pm, pt), io, mo, wo in zip(cases, impl, mod, wf):
        rd = model_reader(wo)
        rd.text()
        well_formed = rd.z() == 1 and rd.z() == 1
        m = read_stmt_res(model_reader(mo))
        i = impl_stmt_res(io)
        st["statements_through_iterator"] += 1
        st["evaluations"] += 1
        case = {"case_kind": "stmt_iter", "pages": pages, "hints": hints}
        if not same_res(m, i):
            st["corr_diffs"] += 1
            ctx["corr"].append(("statement through the page iterator", case, "model %r, implementation %r" % (m, i)))
        n = len(pages)
        bad = [p for g in io.get("requests", []) for p in g if p < 1 or p > n]
        if i[0] == "panic" or bad:
            res.violation("failing-input", "page iterator %s on a %d-page statement with hints %s"
                          % ("panicked" if i[0] == "panic" else "requested non-existent pages %s" % bad, n, hints),
                          dict(case, actual_impl=repr(i), requests=io.get("requests")))
            continue
        # where the iteration order puts the month page after the table page
        # the code reports "Could not find month"; otherwise the table must be found
        order = [p for g in safe_chunks_py(n, hints) for p in g]
        if not well_formed:
            continue
        st["statement_oracle_cases"] += 1
        exp_fmvs, exp_total = table_content(t)
        if order.index(pm) < order.index(pt):
            exp = ("ok", (date, exp_fmvs, exp_total))
        else:
            exp = ("rej", 205)
        if i != exp:
            res.violation("failing-input", "statement with a well-formed table on page %d (month on page %d), hints %s: wrong result" % (pt, pm, hints),
                          dict(case, expected_spec=repr(exp), actual_impl=repr(i)))


# ------------------------------------------------------------ pages
def safe_chunks_py(n, hints):
    """reference implementation of the documented behaviour, used only to
    know the iteration order in the statement oracle"""
    out, found = [], set()
    for g in hints:
        s = [p for p in g if 1 <= p <= n]
        found.update(s)
        if s:
            out.append(s)
    rest = [p for p in range(1, n + 1) if p not in found]
    if rest:
        out.append(rest)
    return out


def gen_hints(rng, n):
    groups = []
    for _ in range(rng.choice([0, 1, 1, 2, 2, 3, 4])):
        g = [rng.randrange(0, n + 3) for _ in range(rng.choice([0, 1, 2, 2, 3, 5]))]
        r = rng.random()
        if r < 0.3:
            g.sort()
        elif r < 0.45:
            g.sort(reverse=True)
        groups.append(g)
    return groups


PAGE_CORPUS = [(4, [[4, 2]]), (1, [[0]]), (1, [[1]]), (1, [[2]]), (4, []), (4, [[1, 3], [4]]), (4, [[1, 3, 5], [4, 2]]),
               (0, []), (0, [[1, 7], [6, 8]]), (3, [[3, 2, 1]]), (5, [[5], [4], [3]]), (6, [[2, 2], [2]]),
               (9, [[9, 1, 9, 1]]), (5, [[], [6, 7], [3]])] + [(n, [[1, 7], [6, 8]]) for n in range(1, 13)]


def check_pages(res, ctx, cases):
    st = ctx["stats"]
    impl = run_harness(ctx["exe"], "pages", [{"n": n, "hints": h} for n, h in cases])
    mod = run_model([[20, n] + enc_list(h, enc_ns) for n, h in cases], group="questrade")
    it_impl = run_harness(ctx["exe"], "iter", [{"n": n, "groups": h, "fail": [], "safe": True} for n, h in cases])
    it_mod = run_model([[21, 1, n, 1] + enc_list(h, enc_ns) + [0] for n, h in cases], group="questrade")
    for (n, h), io, mo, ii, im in zip(cases, impl, mod, it_impl, it_mod):
        st["page_cases"] += 1
        st["evaluations"] += 1
        case = {"case_kind": "pages", "n": n, "hints": h}
        hh = hashlib.sha1(json.dumps(case).encode()).hexdigest()
        if n >= 2 and any(h) and hh not in ctx["seen"]:
            ctx["seen"].add(hh)
            st["distinct_nontrivial"] += 1
            if len(ctx["psamples"]) < 2:
                ctx["psamples"].append(case)
        rd = model_reader(mo)
        m_groups = rd.lst(rd.ns)
        i_groups = io["groups"]
        if m_groups != i_groups:
            st["corr_diffs"] += 1
            ctx["corr"].append(("safe_page_chunks_with_remainder_pn", case, "model %r, implementation %r" % (m_groups, i_groups)))
        flat = [p for g in i_groups for p in g]
        missing = [p for p in range(1, n + 1) if p not in flat]
        extra = [p for p in flat if p < 1 or p > n]
        if missing or extra or any(not g for g in i_groups):
            res.violation("failing-input", "page groups for %d pages, hints %s: %s" % (
                n, h, "pages %s never visited" % missing if missing else "non-existent pages %s listed" % extra if extra else "empty group"),
                dict(case, actual_impl=i_groups, expected_spec="every page 1..n, nothing else"))
            continue
        # iterator over the same groups
        rd = model_reader(im)
        mg = rd.lst(rd.ns)
        m_y = [p for p, _ in rd.lst(lambda: (rd.z(), rd.z()))]
        m_req = rd.lst(rd.ns)
        m_end = (rd.z(), rd.z())
        i_end = 0 if ii["status"] == "ok" and ii["last_error"] is None else (1 if ii["status"] == "ok" else 2)
        if (m_y, m_req, m_end[0]) != (ii["yielded"], ii["requests"], i_end):
            st["corr_diffs"] += 1
            ctx["corr"].append(("OptimizedPageIter", dict(case, case_kind="iter"),
                                "model yields %r requests %r end %r; implementation yields %r requests %r status %s" % (
                                    m_y, m_req, m_end, ii["yielded"], ii["requests"], ii["status"])))
        bad_req = [p for g in ii["requests"] for p in g if p < 1 or p > n]
        if ii["status"] != "ok" or ii["yielded"] != flat or bad_req or not ii["texts_ok"]:
            what = ("panic" if ii["status"] != "ok" else
                    "non-existent pages %s requested" % bad_req if bad_req else
                    "yielded %s instead of %s" % (ii["yielded"], flat))
            res.violation("failing-input", "page iterator over %d pages with hints %s: %s" % (n, h, what),
                          dict(case, case_kind="iter", groups=i_groups, actual_impl=ii, expected_spec={"yielded": flat}))


def check_iter_raw(res, ctx, rng, k):
    """correspondence only: arbitrary (unsanitised) groups and extraction errors"""
    st = ctx["stats"]
    cases = []
    for _ in range(k):
        n = rng.randrange(0, 9)
        groups = gen_hints(rng, n)
        fail = [rng.randrange(1, n + 1) for _ in range(rng.choice([0, 0, 1, 2]))] if n else []
        safe = rng.random() < 0.5
        cases.append((n, groups, fail, safe))
    impl = run_harness(ctx["exe"], "iter", [{"n": n, "groups": g, "fail": f, "safe": s} for n, g, f, s in cases])
    mod = run_model([[21, 1, n, int(s)] + enc_list(g, enc_ns) + enc_ns(f) for n, g, f, s in cases], group="questrade")
    for (n, g, f, s), ii, im in zip(cases, impl, mod):
        st["iter_raw_cases"] += 1
        st["evaluations"] += 1
        rd = model_reader(im)
        rd.lst(rd.ns)
        m_y = [p for p, _ in rd.lst(lambda: (rd.z(), rd.z()))]
        m_req = rd.lst(rd.ns)
        m_end = rd.z()
        rd.z()
        i_end = 0 if ii["status"] == "ok" and ii["last_error"] is None else (1 if ii["status"] == "ok" else 2)
        if (m_y, m_req, m_end) != (ii["yielded"], ii["requests"], i_end):
            st["corr_diffs"] += 1
            ctx["corr"].append(("OptimizedPageIter (raw groups / extraction errors)",
                                {"case_kind": "iter_raw", "n": n, "groups": g, "fail": f, "safe": s},
                                "model yields %r requests %r end %r; implementation yields %r requests %r status %s" % (
                                    m_y, m_req, m_end, ii["yielded"], ii["requests"], ii["status"])))


# ------------------------------------------------------------ known findings
def replay_known(res, ctx):
    for k in known_findings("C20"):
        w = k.get("witness", {})
        if "table" not in w:
            continue
        t = w["table"]
        o = run_harness(ctx["exe"], "fmv_page", [{"page": render_table(t)}], nproc=1)[0]
        mo = run_model([enc_table(t)], nproc=1, group="questrade")[0]
        rd = model_reader(mo)
        rd.text()
        lay, unamb = rd.z() == 1, rd.z() == 1
        if impl_page_res(o) != ("ok", table_content(t)):
            if lay and not unamb:
                res.known(k["what"])
            else:
                res.violation("failing-input", "witness of known finding %s fails but is outside its class" % k.get("id"),
                              {"case_kind": "table", "table": t, "post": "", "page": render_table(t)})
        ctx["stats"]["known_witness_replayed"] += 1


TABLE_CORPUS = [
    {"indent": 12, "pre": [""], "header": "ALLOCATION (%)² MARKET VALUE ($)³", "secs": [], "total": "0.0", "total00": False},
    {"indent": 12, "pre": [], "header": "ALLOCATION (%)² MARKET VALUE ($)³", "total": "100,000.01", "total00": False, "secs": [
        {"lines": ["BLABLA ETF (BLABLA)"], "alloc": "80.0", "fmv": "80,000.0", "own": False, "blank": True},
        {"lines": ["SOME GIC 01/01/2024", "4.00% 1Y DUE 01/01/2024  INT  4.000% (XXXXXX)"], "alloc": "5.0", "fmv": "5,000.1", "own": False, "blank": True},
        {"lines": ["ANOTHER GIC 01/01/2025", "5.00% 2Y CPD DUE 01/01/2025  INT  5.00%", "(YYYYYY)"], "alloc": "15.0", "fmv": "15,000.0", "own": True, "blank": True}]},
    {"indent": 12, "pre": [], "header": "ALLOCATION (%)² MARKET VALUE ($)³", "total": "100,000.00", "total00": False, "secs": [
        {"lines": ["SOME GIC 01/01/2024", "4.00% 1Y DUE 01/01/2024  INT  4.000% (XXXXXX)"], "alloc": "100.0", "fmv": "99,999.99", "own": True, "blank": True}]},
    # the ambiguous class: a single 100% holding whose description ends in two numbers
    {"indent": 0, "pre": [], "header": "ALLOCATION (%) MARKET VALUE ($)", "total": "50,000.00", "total00": False, "secs": [
        {"lines": ["SOME BOND 5.25 2030"], "alloc": "100.0", "fmv": "50,000.00", "own": True, "blank": False}]},
]


def run_one(res, ctx, kind, case):
    if kind == "table":
        check_tables(res, ctx, [case["table"]], [case.get("post", "")])
    elif kind == "regex":
        check_regexes(res, ctx, [case["s"]])
    elif kind == "statement":
        check_statements(res, ctx, [case["pages"]])
    elif kind in ("pages", "iter"):
        check_pages(res, ctx, [(case["n"], case["hints"])])
    else:
        raise RuntimeError("cannot replay case kind %s" % kind)


def init_ctx(ctx):
    ctx.update(stats=collections.Counter(), seen=set(), samples=[], psamples=[], corr=[])


def finish(res, ctx):
    st = ctx["stats"]
    if ctx["corr"] and not any(f for _, f in res.violations):
        name, case, d = ctx["corr"][0]
        res.violation("broken-correspondence", "model and implementation differ (%s): %s" % (name, d),
                      dict(case, theorem_or_projection="correspondence projection C20: " + name,
                           differing_cases=len(ctx["corr"])), found_input=False)
    res.coverage.update({
        "evaluations": st["evaluations"],
        "distinct_nontrivial": st["distinct_nontrivial"],
        "rule": "seeded: strings from a token alphabet through the three line regexes; laid-out allocation tables (0-6 securities, 1-4 description lines with digits, numbers inline or on their own line, single 100% holdings, perturbed layouts); multi-page statements (month page variants, marker variants); (page count, hint groups) incl. out-of-range, duplicate, descending and empty groups, the shipped hints for 1-12 pages. non-trivial = laid-out table with a multi-line description containing digits, a single 100% holding or no security (distinct by SHA-1 of the page text), or a page case with n >= 2 and non-empty hints (distinct by SHA-1 of the case)",
        "samples": ctx["samples"] + ctx["psamples"],
        "input_distribution": {k: v for k, v in sorted(st.items())},
        "traces_validated_against_impl": st["evaluations"],
    })
    res.assumptions += [
        "PDF decoding (lopdf / pdf-extract) is not modelled: the page iterator is driven through the verif_hooks page-text provider",
        "regex \\d / \\w and to_lowercase are modelled for ASCII (and Latin-1 letters for \\w) only; white space is the full Unicode White_Space set",
        "Decimal::from_str_exact is modelled as: digits with at most one '.', scale <= 28, mantissa <= 2^96-1 (validated differentially on every run)",
    ]


def run(res, ctx):
    tier, seed = ctx["tier"], ctx["seed"]
    rng = random.Random(seed * 104729 + 20)
    init_ctx(ctx)
    q = tier == "quick"
    # corpus first
    check_tables(res, ctx, TABLE_CORPUS, [""] * len(TABLE_CORPUS))
    check_pages(res, ctx, PAGE_CORPUS)
    replay_known(res, ctx)
    # generated
    check_regexes(res, ctx, [gen_re_string(rng) for _ in range(1500 if q else 60000)])
    tables = [gen_table(rng) for _ in range(1200 if q else 60000)]
    posts = [rng.choice(["", "", "trailing\n100.0 5\n", BULLET + " X 1.0 2\n", "\r"]) for _ in tables]
    check_tables(res, ctx, tables, posts)
    # tables re-rendered as single lines through the regexes (realistic lines)
    lines = []
    for t in tables[:300 if q else 3000]:
        lines += render_table(t).split("\n")[:-1]
    check_regexes(res, ctx, lines[:1500 if q else 15000])
    check_statements(res, ctx, [gen_statement(rng) for _ in range(600 if q else 20000)])
    check_statement_oracle(res, ctx, rng, 300 if q else 10000)
    pcs = []
    for _ in range(1500 if q else 60000):
        n = rng.choice([0, 1, 2, 3, 4, 5, 8, 9, 12, rng.randrange(0, 40)])
        pcs.append((n, gen_hints(rng, n)))
    if not q:
        # exhaustive small scope: n <= 4, up to 2 groups of up to 2 pages in 0..5
        for n in range(0, 5):
            single = [[]] + [[a] for a in range(0, 6)] + [[a, b] for a in range(0, 6) for b in range(0, 6)]
            for g1 in single:
                pcs.append((n, [g1]))
                for g2 in single[::3]:
                    pcs.append((n, [g1, g2]))
    check_pages(res, ctx, pcs)
    check_iter_raw(res, ctx, rng, 500 if q else 5000)
    import props.c20_cli as c20_cli
    c20_cli.run(res, ctx, rng, ctx["stats"])
    finish(res, ctx)


def replay(res, ctx, path):
    import common
    rep = json.load(open(path))
    init_ctx(ctx)
    kind = rep.get("case_kind")
    if kind == "stmt_iter":
        o = run_harness(ctx["exe"], "stmt_iter", [{"pages": rep["pages"], "hints": rep["hints"]}], nproc=1)[0]
        print("implementation:", json.dumps(o)[:2000])
        if repr(impl_stmt_res(o)) != rep.get("expected_spec"):
            res.violation("failing-input", rep.get("what", "replayed case fails"), rep)
    elif kind == "iter_raw":
        print("correspondence-only case; re-run the check")
    else:
        run_one(res, ctx, kind, rep)
    finish(res, ctx)
    return res.finish(common.check_proofs("C20"))
