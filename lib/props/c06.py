# C06 - every total equals the sum of the rows it summarises; rounding is display-only.
import collections
import datetime
import random
import re
from fractions import Fraction

import core
import corecheck
from rates import fit as rates_fit
import gen
import rendermodel
from common import run_model, qenc, Reader, build_bins

ZERO = Fraction(0)
NUM = r"-?\d+(?:\.\d+)?"


def money(s):
    """'-$12.5' / '$3' / '+$1.2' -> Fraction"""
    m = re.match(r"^\s*([+-]?)\$(" + NUM + r")", s)
    if not m:
        return None
    v = Fraction(m.group(2))
    return -v if m.group(1) == "-" else v


def round2_text(txt):
    v = Fraction(txt)
    m = abs(v) * 100
    fl = m.numerator // m.denominator
    if m - fl >= Fraction(1, 2):
        fl += 1
    return "%d.%02d" % (fl // 100, fl % 100)


def to_cents_view(cell):
    """what the default view must show for a full-precision cell: every dollar
    figure ($x) and every foreign-currency amount '(x CUR)' rounded half away
    from zero to cents"""
    cell = re.sub(r"\$(" + NUM + r")", lambda m: "$" + round2_text(m.group(1)), cell)
    cell = re.sub(r"\((" + NUM + r") ([A-Z]+)\)", lambda m: "(%s %s)" % (round2_text(m.group(1)), m.group(2)), cell)
    return cell


def footer_of(table):
    """{label: Fraction} from footer cells 8 (labels) / 9 (values)"""
    labels = table["footer"][8].split("\n")
    vals = table["footer"][9].split("\n")
    import itertools
    return {(l if l is not None else "<no label %d>" % k): (money(v) if v is not None else None)
            for k, (l, v) in enumerate(itertools.zip_longest(labels, vals))}


def year_of(day):
    return datetime.date.fromordinal(day).year


def run(res, ctx):
    tier, seed = ctx["tier"], ctx["seed"]
    rng = random.Random(seed * 141650939 + 6)
    st = collections.Counter()
    seen, samples = set(), []
    n = 250 if tier == "quick" else 12000
    cases = []
    for _ in range(n):
        c = gen.gen_case(rng, p_invalid=0.1)
        # push some settlements onto 31 Dec / 1 Jan
        for r in c["rows"]:
            if rng.random() < 0.15:
                y = datetime.date.fromordinal(r["sd"]).year
                r["sd"] = datetime.date(y, 12, 31).toordinal() + rng.choice([0, 1])
                r["td"] = r["sd"] - rng.choice([0, 2])
        cases.append(c)
    # crafted: gains of different years that cancel exactly, a year whose rows net to zero,
    # several securities with equal and opposite totals
    for _ in range(20 if tier == "quick" else 200):
        d0 = datetime.date(rng.choice([2018, 2019, 2020]), rng.randint(1, 12), rng.randint(1, 28)).toordinal()
        px = rng.randint(5, 50)
        dl = rng.randint(1, 4)
        n = rng.choice([2, 4, 10])
        rows = [{"sec": "FOO", "td": d0, "sd": d0, "act": "Buy", "sh": core.D(2 * n), "aps": core.D(px), "com": None, "cur": None, "rate": None, "af": None},
                {"sec": "FOO", "td": d0 + 200, "sd": d0 + 200, "act": "Sell", "sh": core.D(n), "aps": core.D(px + dl), "com": None, "cur": None, "rate": None, "af": None},
                {"sec": "FOO", "td": d0 + 600, "sd": d0 + 600, "act": "Sell", "sh": core.D(n), "aps": core.D(px - dl), "com": None, "cur": None, "rate": None, "af": None}]
        if rng.random() < 0.5:
            rows += [{"sec": "BAR", "td": d0 + 10, "sd": d0 + 10, "act": "Buy", "sh": core.D(3), "aps": core.D(7), "com": None, "cur": None, "rate": None, "af": None},
                     {"sec": "BAR", "td": d0 + 210, "sd": d0 + 210, "act": "Sell", "sh": core.D(3), "aps": core.D(7 + rng.choice([0, 1, -1])), "com": None, "cur": None, "rate": None, "af": None}]
        cases.append({"rows": rows, "inits": {}})
    # crafted: gains a hair away from a cent (the whole position sold after a division that does not
    # terminate), followed by gains of exactly half a cent: a running total that were snapped or rounded
    # before the next addition shows a different cent
    for _ in range(30 if tier == "quick" else 300):
        d0 = datetime.date(rng.choice([2018, 2019, 2020]), rng.randint(1, 6), rng.randint(1, 28)).toordinal()
        nsh = rng.choice([3, 6, 7, 9, 11])
        def _r(day, act, sh, aps, com=None):
            return {"sec": "FOO", "td": d0 + day, "sd": d0 + day, "act": act, "sh": core.D(sh), "aps": aps,
                    "com": com, "cur": None, "rate": None, "af": None}
        rows = [_r(0, "Buy", nsh, core.D(rng.randint(1, 300), 2), core.D(rng.choice([50, 100, 1, 7]), 2)),
                _r(40, "Sell", nsh, core.D(rng.randint(100, 400), 2)),
                _r(80, "Buy", 1, core.D(1)), _r(120, "Sell", 1, core.D(1005, 3))]
        if rng.random() < 0.5:
            rows += [_r(160, "Buy", 2, core.D(1)), _r(200, "Sell", 2, core.D(10025, 4))]
        cases.append({"rows": rows, "inits": {}})
    # crafted: the same hair-off-the-cent totals in several securities (sold in lots after a division that does
    # not terminate): a running AGGREGATE that were snapped before the next security is added shows other digits
    for _ in range(30 if tier == "quick" else 300):
        d0 = datetime.date(rng.choice([2018, 2019, 2020]), rng.randint(1, 6), rng.randint(1, 28)).toordinal()
        rows = []
        for j, sec in enumerate(rng.sample(["AAA", "BAR", "FOO", "QUX", "ZED"], rng.choice([2, 3, 4]))):
            nsh = rng.choice([3, 6, 7, 9, 11])
            def _s(day, act, sh, aps, com=None):
                return {"sec": sec, "td": d0 + day + j, "sd": d0 + day + j, "act": act, "sh": core.D(sh), "aps": aps,
                        "com": com, "cur": None, "rate": None, "af": None}
            cost = core.D(rng.choice([1000, 1001, 2000, 700, 50]), 2)
            rows += [_s(0, "Buy", nsh, cost, core.D(rng.choice([0, 1, 100]), 2))]
            left = nsh
            day = 40
            while left > 0:
                lot = rng.randint(1, left)
                rows.append(_s(day, "Sell", lot, core.D(rng.choice([1100, 1200, 2500, 900]), 2)))
                left -= lot
                day += 40
        cases.append({"rows": rows, "inits": {}})
    rs = corecheck.run_cases(ctx, cases, render=True)
    gains_jobs = []
    for r in rs:
        st["evaluations"] += 1
        i = r["impl"]
        if i["status"] != "ok" or "secs" not in r["raw"].get("render_full", {}):
            st["skipped"] += 1
            continue
        full, cents = r["raw"]["render_full"], r["raw"]["render_cents"]
        names = {v: k for k, v in r["st"].items()}
        good = []
        years_all = set()
        for snum, so in sorted(i["secs"].items()):
            sname = names[snum]
            t = full["secs"][sname]
            foot = footer_of(t)
            blank = sorted(k for k, v in foot.items() if v is None)
            if blank:
                res.violation("failing-input", "footer of %s: %s shown without a figure" % (sname, ", ".join(blank)),
                              {"input": r["hc"], "security": sname})
                continue
            if so["stop"][0] == 0:
                good.append((sname, so))
                by_year = collections.defaultdict(lambda: ZERO)
                tot = ZERO
                for d in so["deltas"]:
                    if d["gain"] is not None:
                        by_year[year_of(d["sd"])] += d["gain"]
                        tot += d["gain"]
                years_all |= set(by_year)
                if abs(foot.get("Total", ZERO) - tot) > Fraction(1, 10 ** 9):
                    res.violation("failing-input", "table total of %s is %s, rows sum to %s" % (sname, foot.get("Total"), tot),
                                  {"input": r["hc"], "security": sname})
                # ... and exactly: the total and every yearly figure are the rows' gains added one after the
                # other with the arithmetic's own addition (rust_decimal rounding) - nothing else (no rounding or
                # snapping of a running total) may feed into the next addition
                dtot, dyear = ZERO, collections.defaultdict(lambda: ZERO)
                for d in so["deltas"]:
                    if d["gain"] is not None and dtot is not None:
                        dtot = rates_fit(dtot + d["gain"])
                        y_ = year_of(d["sd"])
                        dyear[y_] = rates_fit(dyear[y_] + d["gain"]) if dyear[y_] is not None else None
                st["exact-total-checks"] += 1
                if dtot is not None and foot.get("Total", ZERO) != dtot:
                    res.violation("failing-input", "table total of %s is %s; adding its rows' gains one after the other gives %s" % (sname, foot.get("Total"), dtot),
                                  {"input": r["hc"], "security": sname})
                else:
                    for y_, v_ in dyear.items():
                        if v_ is not None and foot.get(str(y_), ZERO) != v_:
                            res.violation("failing-input", "year %d of %s shows %s; adding the gains of its rows settling in %d one after the other gives %s" % (y_, sname, foot.get(str(y_)), y_, v_),
                                          {"input": r["hc"], "security": sname, "year": y_})
                            break
                for y, v in by_year.items():
                    if abs(foot.get(str(y), ZERO) - v) > Fraction(1, 10 ** 9):
                        res.violation("failing-input", "year %d of %s shows %s, rows settling in %d sum to %s" % (y, sname, foot.get(str(y)), y, v),
                                      {"input": r["hc"], "security": sname, "year": y})
                extra = set(foot) - {"Total"} - {str(y) for y in by_year}
                if extra:
                    res.violation("failing-input", "table of %s shows years without rows: %s" % (sname, sorted(extra)),
                                  {"input": r["hc"], "security": sname})
                if abs(sum((v for k, v in foot.items() if k != "Total"), ZERO) - foot.get("Total", ZERO)) > Fraction(1, 10 ** 9):
                    res.violation("failing-input", "table total of %s is not the sum of its years" % sname, {"input": r["hc"], "security": sname})
        # aggregate
        agg = {row[0]: money(row[1]) for row in full["agg"]["rows"]}
        exp = collections.defaultdict(lambda: ZERO)
        for sname, so in good:
            for d in so["deltas"]:
                if d["gain"] is not None:
                    exp[str(year_of(d["sd"]))] += d["gain"]
                    exp["Since inception"] += d["gain"]
        for k in set(agg) | set(exp):
            if abs(agg.get(k, ZERO) - exp.get(k, ZERO)) > Fraction(1, 10 ** 9):
                res.violation("failing-input", "aggregate figure %s is %s, the error-free securities sum to %s" % (k, agg.get(k), exp.get(k, ZERO)),
                              {"input": r["hc"]})
        # ... and exactly: the aggregate is the securities' own totals (as their tables show them) added one after the
        # other, in the order of the security names, with the arithmetic's own addition - nothing else (no rounding or
        # snapping of the running aggregate) feeds into the next addition
        acc_t, acc_y, ok_exact = ZERO, {}, not res.violations
        for sname, so in sorted(good, key=lambda x: x[0].encode()):
            ft = footer_of(full["secs"][sname])
            if any(v is None for v in ft.values()):
                ok_exact = False
                break
            for k_, v_ in ft.items():
                if k_ == "Total":
                    acc_t = rates_fit(acc_t + v_) if acc_t is not None else None
                else:
                    prev = acc_y.get(k_, ZERO)
                    acc_y[k_] = rates_fit(prev + v_) if prev is not None else None
        if ok_exact and good and acc_t is not None and all(v is not None for v in acc_y.values()):
            st["exact-aggregate-checks"] += 1
            want = dict(acc_y)
            want["Since inception"] = acc_t
            for k_ in sorted(set(agg) | set(want)):
                if agg.get(k_) != want.get(k_) and not (agg.get(k_) is None and want.get(k_) == ZERO):
                    res.violation("failing-input",
                                  "aggregate figure %s is %s; adding the securities' own totals one after the other gives %s" % (k_, agg.get(k_), want.get(k_)),
                                  {"input": r["hc"]})
                    break
        # model (dec) of the yearly maps: bit-exact figures
        gains_jobs.append((r, good, agg))
        # rounding is display-only: cents view = rounded full view, cell by cell
        ncell = 0
        for sname in full["secs"]:
            tf, tc = full["secs"][sname], cents["secs"][sname]
            for part in ("rows",):
                for rowf, rowc in zip(tf["rows"], tc["rows"]):
                    for j, (cf, cc) in enumerate(zip(rowf, rowc)):
                        ncell += 1
                        if to_cents_view(cf) != cc:
                            res.violation("failing-input", "default view cell %r is not the rounded full-precision cell %r (column %s of %s)" % (cc, cf, tf["header"][j], sname),
                                          {"input": r["hc"], "security": sname, "column": tf["header"][j]})
            for cf, cc in zip(tf["footer"], tc["footer"]):
                ncell += 1
                if to_cents_view(cf) != cc:
                    res.violation("failing-input", "default view footer %r is not the rounded full-precision footer %r of %s" % (cc, cf, sname), {"input": r["hc"]})
        for rowf, rowc in zip(full["agg"]["rows"], cents["agg"]["rows"]):
            for cf, cc in zip(rowf, rowc):
                ncell += 1
                if to_cents_view(cf) != cc:
                    res.violation("failing-input", "default aggregate cell %r is not the rounded full-precision cell %r" % (cc, cf), {"input": r["hc"]})
        st["cells_compared"] += ncell
        nyears = len(years_all)
        if len(good) >= 2 and nyears >= 2 and r["hash"] not in seen:
            seen.add(r["hash"])
            st["distinct_nontrivial"] += 1
            if len(samples) < 2:
                samples.append({"csv": r["hc"]["files"][0]})
    # model of the yearly totals under rust_decimal rounding, in the implementation's security order is unknown
    # (HashMap): compare per-security maps bit-exactly, aggregate within 1e-9
    ints = []
    for r, good, agg in gains_jobs:
        l = [3, 1, len(good)]
        for sname, so in good:
            l.append(len(so["deltas"]))
            for d in so["deltas"]:
                l += [d["sd"], 1 if d["gain"] is not None else 0] + qenc(d["gain"] if d["gain"] is not None else 0)
        ints.append(l)
    outs = run_model(ints)
    for (r, good, agg), out in zip(gains_jobs, outs):
        rd = Reader(out)
        assert rd.z() == 1
        nper = rd.z()
        full = r["raw"]["render_full"]
        for k in range(nper):
            ok = rd.z()
            if not ok:
                continue
            tot = rd.q()
            ny = rd.z()
            ym = {}
            for _ in range(ny):
                y = rd.z()
                ym[str(y)] = rd.q()
            sname = good[k][0]
            foot = footer_of(full["secs"][sname])
            if foot.get("Total") != tot or {k_: v for k_, v in foot.items() if k_ != "Total"} != ym:
                res.violation("broken-correspondence", "model and implementation yearly totals differ for %s: impl %s model total %s years %s" % (sname, foot, tot, ym),
                              {"theorem_or_projection": "correspondence projection C06 (per-security total and year map, bit-exact)", "input": r["hc"]}, found_input=False)
        # model's year_of_day vs the implementation's dates
        ok = rd.z()
        if ok:
            rd.q()
            ny = rd.z()
            for _ in range(ny):
                rd.z(); rd.q()
        nsec = rd.z()
        for k in range(nsec):
            nr = rd.z()
            for j in range(nr):
                y = rd.z()
                if y != year_of(good[k][1]["deltas"][j]["sd"]):
                    res.violation("broken-correspondence", "model year_of_day disagrees with the calendar on day %d" % good[k][1]["deltas"][j]["sd"],
                                  {"theorem_or_projection": "year_of_day"}, found_input=False)
    # the report renderer inside the model: every cell of both views against Model/Render.v
    rendermodel.check_pass(res, ctx, rs, to_cents_view)
    # the real binary writing report files (fresh vs previously used output directory)
    import props.c06_cli as c06_cli
    c06_cli.run(res, ctx, rng, st)
    # the writers inside the model (Model/Output.v): what the binary writes is the render model's cells, nothing else
    import outputmodel
    outputmodel.check_pass(res, ctx, "C06", rng)
    res.coverage.update({
        "evaluations": st["evaluations"],
        "distinct_nontrivial": st["distinct_nontrivial"],
        "rule": "seeded random inputs (1-3 securities, several years, settlements pushed onto 31 Dec / 1 Jan), render model in both precision modes; non-trivial = >= 2 error-free securities and >= 2 years; sums recomputed from the implementation's own rows; default-view cells compared with the rounded full-precision cells",
        "samples": samples,
        "input_distribution": dict(sorted(st.items())),
        "cells_compared": st["cells_compared"],
        "traces_validated_against_impl": st["evaluations"],
    })
    res.assumptions += ["string formatting of a figure (rust_decimal Display, tabled) is compared, not modelled; text and CSV-directory writers print the render model's cells verbatim (observed in C04's mode runs)"]


def replay(res, ctx, path):
    return corecheck.replay(res, ctx, path)
