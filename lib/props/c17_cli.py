# C17 through the real binary: `acb --total-costs` in text mode and in
# --csv-output-dir mode shows the rows of the two cost tables that the library
# computes (the tables judged by the rest of this check) and lists every
# ignored transaction of another affiliate - also when NO row belongs to the
# default non-registered affiliate, i.e. when the tables have notes only.
import csv
import io
import os
import shutil
import subprocess
import tempfile

import costs
from common import build_bins, child_env, run_harness, BUILD


def _records(text):
    return [r for r in csv.reader(io.StringIO(text))]


def only_others_case(rng):
    """nothing belongs to the default non-registered affiliate"""
    c = costs.gen_case(rng, afs=["Spouse", "Default (R)", "Spouse (R)"], nsec=rng.choice([1, 2]), n_events=rng.randint(2, 8), p_invalid=0.0)
    c["rows"] = [r for r in c["rows"] if r.get("af") not in (None, "", "Default")]
    for r in c["rows"]:
        if r.get("af") in (None, "", "Default"):
            r["af"] = "Spouse"
    c["inits"] = {}
    return c


def run(res, ctx, rng, st):
    bindir, blog = build_bins()
    if bindir is None:
        res.violation("broken-correspondence", "CLI binaries do not build", {"theorem_or_projection": "CLI build", "log": blog[-1500:]}, found_input=False)
        return
    n = 16 if ctx["tier"] == "quick" else 160
    cases = []
    for k in range(n):
        cases.append(only_others_case(rng) if k % 4 == 0 else costs.gen_case(rng, p_invalid=0.0))
    cases = [c for c in cases if c["rows"]]
    hcs = [costs.harness_case(c) for c in cases]
    raw = run_harness(ctx["exe"], "costs", hcs)
    base = tempfile.mkdtemp(prefix="c17cli-", dir=os.path.join(BUILD, "run"))
    try:
        for c, hc, io_ in zip(cases, hcs, raw):
            if io_.get("status") != "ok" or "err" in io_.get("cents", {}) or io_["cents"].get("status") == "panic" or "total" not in io_["cents"]:
                st["cli-skipped"] += 1
                continue
            lib = io_["cents"]
            home = tempfile.mkdtemp(prefix="h-", dir=base)
            paths = []
            for i, t in enumerate(hc["files"]):
                p = os.path.join(home, "in%d.csv" % i)
                open(p, "w").write(t)
                paths.append(p)
            binit = [x for s in hc["init"] for x in ("-b", s)]
            out = os.path.join(home, "out")
            pd = subprocess.run([os.path.join(bindir, "acb"), "--total-costs", "-d", out] + binit + paths, stdout=subprocess.PIPE,
                                stderr=subprocess.PIPE, text=True, env=child_env({"HOME": home}), cwd=home, timeout=120)
            pt = subprocess.run([os.path.join(bindir, "acb"), "--total-costs"] + binit + paths, stdout=subprocess.PIPE,
                                stderr=subprocess.PIPE, text=True, env=child_env({"HOME": home}), cwd=home, timeout=120)
            st["evaluations"] += 2
            st["cli-total-costs-runs"] += 2
            if not lib["total"]["rows"]:
                st["cli-tables-with-notes-only"] += 1
            for fname, key in (("total-costs.csv", "total"), ("yearly-max-costs.csv", "yearly")):
                t = lib[key]
                path = os.path.join(out, fname)
                what = None
                if not os.path.exists(path):
                    what = "file %s is not written (the table has %d rows and %d notes)" % (fname, len(t["rows"]), len(t["notes"]))
                else:
                    recs = _records(open(path).read())
                    if recs[:1] != [t["header"]]:
                        what = "%s: header %s, the table has %s" % (fname, recs[:1], t["header"])
                    elif recs[1:1 + len(t["rows"])] != t["rows"]:
                        what = "%s: data records differ from the rows of the table" % fname
                    else:
                        firsts = [r[0] for r in recs[1 + len(t["rows"]):] if r]
                        missing = [x for x in t["notes"] if x not in firsts]
                        if missing:
                            what = "%s: note %r is not in the file" % (fname, missing[0])
                if what is None:
                    miss = [x for x in t["notes"] if x not in pt.stdout]
                    if miss:
                        what = "text report: note %r of the %s table is not printed" % (miss[0], key)
                    else:
                        for r in t["rows"]:
                            if not all(cell in pt.stdout for cell in r):
                                what = "text report: row %s of the %s table is not printed" % (r, key)
                                break
                st["cli-tables-compared"] += 1
                if what:
                    res.violation("failing-input", "acb --total-costs: " + what,
                                  {"input": hc, "args": ["--total-costs", "-d", "<dir>"], "expected": t,
                                   "actual_impl": {"files": sorted(os.listdir(out)) if os.path.isdir(out) else None, "stderr": pd.stderr[-400:]}})
                    return
            shutil.rmtree(home, ignore_errors=True)
    finally:
        shutil.rmtree(base, ignore_errors=True)
