# C07 through the real command line: the rows of one history given as one file
# and as several files (named on the command line in an order that is NOT the
# lexical order of their names) must print the same report.  The files of a run
# are read in the order given: rows of one security settling on the same day
# keep their order across the file boundary.
import os
import shutil
import subprocess
import tempfile

import core
import gen
from common import build_bins, child_env, BUILD

NAME_SETS = [["statement-9.csv", "statement-10.csv", "statement-11.csv"],
             ["questrade.csv", "etrade.csv", "bank.csv"],
             ["z.csv", "m.csv", "a.csv"],
             ["2021.csv", "2020.csv", "2019.csv"],
             ["b.csv", "B.csv", "_b.csv"]]


def _run(bindir, home, named_texts, args):
    d = tempfile.mkdtemp(prefix="in-", dir=home)
    paths = []
    for name, t in named_texts:
        p = os.path.join(d, name)
        open(p, "w").write(t)
        paths.append(name)
    p = subprocess.run([os.path.join(bindir, "acb")] + args + paths, stdout=subprocess.PIPE, stderr=subprocess.PIPE,
                       text=True, env=child_env({"HOME": home}), cwd=d, timeout=120)
    return p.returncode, p.stdout, p.stderr


def _split(rng, rows, k):
    cuts = sorted(rng.sample(range(1, len(rows)), k - 1)) if len(rows) > k else list(range(1, len(rows)))[:k - 1]
    parts, prev = [], 0
    for c in cuts + [len(rows)]:
        parts.append(rows[prev:c])
        prev = c
    return [p for p in parts if p]


def crafted(rng):
    """same-day Buy and Sell of one security on the two sides of a file boundary"""
    d0 = core.BASE_DAY + rng.randint(10, 600)

    def _r(sec, td, act, sh, aps):
        return {"sec": sec, "td": d0 + td, "sd": d0 + td + 2, "act": act, "sh": core.D(sh), "aps": core.D(aps),
                "com": None, "cur": None, "rate": None, "af": None}
    n0 = rng.choice([10, 20])
    rows = [_r("FOO", 0, "Buy", n0, 10), _r("BAR", 1, "Buy", 5, 7)]
    if rng.random() < 0.5:
        same = [_r("FOO", 40, "Buy", n0, 20), _r("FOO", 40, "Sell", n0 // 2, 30)]
    else:
        same = [_r("FOO", 40, "Sell", n0, 30), _r("FOO", 40, "Buy", n0 // 2, 20)]
    rows += same + [_r("BAR", 60, "Sell", 5, 9)]
    return rows, [rows[:3], rows[3:]]


def run(res, ctx, rng, st):
    bindir, blog = build_bins()
    if bindir is None:
        res.violation("broken-correspondence", "CLI binaries do not build", {"theorem_or_projection": "CLI build", "log": blog[-1500:]}, found_input=False)
        return
    n = 14 if ctx["tier"] == "quick" else 150
    base = tempfile.mkdtemp(prefix="c07cli-", dir=os.path.join(BUILD, "run"))
    try:
        home = os.path.join(base, "home")
        os.makedirs(home)
        for k in range(n):
            if k % 2 == 0:
                rows, parts = crafted(rng)
                kind = "crafted"
            else:
                rows = gen.gen_case(rng, p_invalid=0.0)["rows"]
                if len(rows) < 3:
                    continue
                parts = _split(rng, rows, rng.choice([2, 3]))
                kind = "generated"
            names = NAME_SETS[k // 2 % len(NAME_SETS)][:len(parts)]
            args = ["--print-full-values"] if rng.random() < 0.5 else []
            one = _run(bindir, home, [("all.csv", core.to_csv(rows))], args)
            many = _run(bindir, home, [(nm, core.to_csv(p)) for nm, p in zip(names, parts)], args)
            st["evaluations"] += 2
            st["cli-multi-file-runs:" + kind] += 1
            if one[0] == 0:
                st["cli-multi-file-ok"] += 1
            # the Affiliate column shows the first spelling of a name that the process met (" default " / "Default"):
            # a display name, not a figure - compared up to letter case
            if (one[0], one[1].lower()) != (many[0], many[1].lower()):
                la, lb = one[1].split("\n"), many[1].split("\n")
                first = next((i for i, (a, b) in enumerate(zip(la, lb)) if a.lower() != b.lower()), min(len(la), len(lb)))
                res.violation("failing-input",
                              "acb %s prints a different report for the same rows given as one file (exit %d): line %d %r vs %r" % (
                                  " ".join(names), one[0], first + 1, (la[first] if first < len(la) else "")[:120],
                                  (lb[first] if first < len(lb) else "")[:120]),
                              {"input_one_file": core.to_csv(rows), "files": [[nm, core.to_csv(p)] for nm, p in zip(names, parts)],
                               "args": args + names, "expected": one[1][-6000:], "actual_impl": many[1][-6000:],
                               "stderr": many[2][-400:]})
                break
    finally:
        shutil.rmtree(base, ignore_errors=True)
