# C12 - USD rows use the Bank of Canada rate of the trade date or the last one
# before it (within 7 days); decision rules for explicit rates / CAD / other
# currencies.
import collections
import hashlib
import json
import re
import random
from fractions import Fraction

import rates as R
import ratesjson as RJ
from common import run_harness, run_model, qenc, Reader


# ------------------------------------------------------------------ corpus
def corpus():
    """hand-written boundary calendars: (name, truth, [(today, avail)], lookups)"""
    out = []
    d = R.day

    def daily(days, val="0.7812"):
        return [R.mk_obs(x, daily=val if isinstance(val, str) else val(x)) for x in days]

    vary = lambda x: "0.7%03d" % (x % 1000)
    # gap of exactly 7 vs 8 days
    D = d(2022, 3, 1)
    out.append(("gap-7-vs-8", daily([D, D + 9, D + 10], vary), [(D + 30, D + 30)], list(range(D - 1, D + 12))))
    # 1 January looking back into the previous year; 31 December within 7 days
    out.append(("year-boundary", daily([d(2021, 12, 24), d(2022, 1, 4)], vary), [(d(2022, 2, 1), d(2022, 2, 1))],
                list(range(d(2021, 12, 23), d(2022, 1, 6)))))
    # today handling: rate of today published / not yet published / tomorrow
    T = d(2023, 6, 15)
    days = [x for x in range(T - 12, T + 1) if R.date_of(x).weekday() < 5]
    out.append(("today", daily(days, vary), [(T, T), (T, T + 1), (T + 1, T + 1), (T - 1, T), (T + 3, T + 3)],
                list(range(T - 4, T + 3))))
    # noon / daily boundary 2016 -> 2017
    tr = [R.mk_obs(d(2016, 12, 29), noon="1.3502"), R.mk_obs(d(2016, 12, 30), noon="1.3427"),
          R.mk_obs(d(2017, 1, 3), daily="0.7443"), R.mk_obs(d(2017, 1, 4), daily="0.7507")]
    out.append(("noon-daily", tr, [(d(2017, 2, 1), d(2017, 2, 1))], list(range(d(2016, 12, 28), d(2017, 1, 6)))))
    # leap day, a closure of 9 days ending on 1 March
    out.append(("leap", daily([d(2020, 2, 20), d(2020, 2, 29), d(2020, 3, 1)], vary), [(d(2020, 4, 1), d(2020, 4, 1))],
                list(range(d(2020, 2, 19), d(2020, 3, 4)))))
    # nothing published at all in the year; first days of a year with today = 1 January / 2 January
    out.append(("empty-year", daily([d(2021, 12, 31)], vary),
                [(d(2022, 1, 1), d(2022, 1, 1)), (d(2022, 1, 2), d(2022, 1, 2)), (d(2022, 1, 9), d(2022, 1, 9))],
                list(range(d(2021, 12, 30), d(2022, 1, 10)))))
    # zero placeholders next to real rates (weekend) and a malformed observation on a Monday
    tr = daily([d(2022, 5, 5), d(2022, 5, 6)], vary) + [R.mk_obs(d(2022, 5, 9), daily=("bad", '{"v":"0"}'))] \
        + daily([d(2022, 5, 10)], vary)
    out.append(("placeholders", tr, [(d(2022, 5, 20), d(2022, 5, 20))], list(range(d(2022, 5, 4), d(2022, 5, 12)))))
    return out


def gen_calendar(rng):
    """a window of up to ~70 days, often across a year end (incl. 2016/2017)"""
    y = rng.choice([2015, 2016, 2017, 2017, 2019, 2020, 2021, 2023, 2024])
    k = rng.random()
    if k < 0.45:
        start = R.day(y, 12, rng.randint(1, 28))
        end = R.day(y + 1, 1, rng.randint(2, 31))
    elif k < 0.6:
        start = R.day(y, 2, rng.randint(1, 20))
        end = start + rng.randint(10, 40)
    else:
        start = R.day(y, rng.randint(1, 11), rng.randint(1, 28))
        end = start + rng.randint(8, 70)
    days = R.gen_pub_days(rng, start, end)
    truth = R.gen_truth(rng, days)
    last = days[-1] if days else end
    todays = []
    for _ in range(rng.randint(1, 3)):
        t = rng.choice([last, last + 1, last + 2, end + 1, end + 12, last - 1, last + 7, last + 8, last + 9])
        t = max(t, last)           # nothing is published after today
        a = t + 1 if (t == last and rng.random() < 0.7) else (t if t > last else t + 1)
        todays.append((t, a))
    lo, hi = start - 3, max(end, last) + 3
    if rng.random() < 0.5:
        lookups = list(range(lo, hi + 1))
        rng.shuffle(lookups)
        lookups = lookups[: rng.randint(5, 40)]
    else:
        lookups = [rng.randint(lo, hi) for _ in range(rng.randint(1, 25))]
    return truth, todays, lookups


# ------------------------------------------------------------------ look-ups
def check_lookups(res, ctx, batch):
    """batch: list of (name, truth, today, avail, lookups, oracle: bool, cache[, earlier runs]);
    earlier runs (same loader cache) only prepare the cache: the LAST run is the one judged"""
    st = ctx["stats"]
    hcases, mints = [], []
    batch = [tuple(b) + ((),) if len(b) == 7 else tuple(b) for b in batch]
    for name, truth, today, avail, lookups, oracle, cache, pre in batch:
        runs = [dict(r) for r in pre] + [{"today": today, "avail": avail, "force": False, "lookups": lookups}]
        hc = R.hist_case(truth, runs, cache=cache)
        hcases.append(hc)
        mints.append(R.hist_ints(truth, runs, hc["years"]))
    impl = run_harness(ctx["exe"], "hist", hcases)
    mod = run_model(mints, group="rates")
    for (name, truth, today, avail, lookups, oracle, cache, pre), hc, io, mo in zip(batch, hcases, impl, mod):
        i = R.parse_hist_impl(io, hc["years"])
        if pre:
            st["with-earlier-runs"] += 1
        m = R.parse_hist_model(mo, len(hc["years"]))
        st["evaluations"] += 1
        st["lookups"] += len(lookups)
        d = R.diff_hist(m, i)
        if d is not None:
            st["correspondence_diffs"] += 1
            ctx["corr_diffs"].append((dict(hc, replay_mode="lookups",
                                           replay_case=[name, truth, today, avail, lookups, oracle, cache, [dict(r) for r in pre]]), d))
        if i["status"] != "ok":
            res.violation("failing-input", "look-up panicked: %s" % i.get("panic"),
                          {"input": hc, "replay_mode": "lookups",
                           "replay_case": [name, truth, today, avail, lookups, oracle, cache, [dict(r) for r in pre]]})
            continue
        # URL series per year
        for y, s in i["runs"][-1]["requests"]:
            if s != R.series_for_year(y):
                res.violation("failing-input", "year %d requested as series %s" % (y, s), {"input": hc})
        if not oracle:
            st["irregular_cases"] += 1
            continue
        pub = R.pub_of(truth, avail)
        calh = hashlib.sha1(json.dumps([o["json"] for o in truth]).encode()).hexdigest()
        for dd, a in zip(lookups, i["runs"][-1]["answers"]):
            exp = R.rule(pub, today, dd)
            st["rule-" + ("exact" if dd in pub else "notyet" if exp == ("err", 1) else
                          "none7" if exp[0] == "err" else "lookback-%d" % (dd - exp[1]))] += 1
            if dd not in pub:
                key = (calh, today, avail, dd)
                if key not in ctx["seen"]:
                    ctx["seen"].add(key)
                    st["distinct_nontrivial"] += 1
                    if exp[0] == "ok" and R.year_of(exp[1]) != R.year_of(dd):
                        st["lookback-across-year-end"] += 1
            if a != exp:
                res.violation(
                    "failing-input",
                    "look-up of %s (today %s): implementation gives %s, the rule gives %s" % (
                        R.iso(dd), R.iso(today), R.ans_str(a), R.ans_str(exp)),
                    {"input": hc, "lookup": dd, "lookup_date": R.iso(dd), "actual_impl": R.ans_str(a),
                     "expected_spec": R.ans_str(exp), "case": name, "replay_mode": "lookups",
                     "replay_case": [name, truth, today, avail, lookups, oracle, cache, [dict(r) for r in pre]]})
                break
            # the three "never" clauses, literally
            if a[0] == "ok":
                bad = None
                if a[1] > dd:
                    bad = "a later day"
                elif a[1] < dd - 7:
                    bad = "a day more than 7 days old"
                elif a[2] == 0:
                    bad = "a zero placeholder"
                elif pub.get(a[1]) != a[2]:
                    bad = "a rate that was not published for that day"
                if bad:
                    res.violation("failing-input", "look-up of %s used %s" % (R.iso(dd), bad),
                                  {"input": hc, "lookup": dd, "actual_impl": R.ans_str(a), "replay_mode": "lookups",
                                   "replay_case": [name, truth, today, avail, lookups, oracle, cache, [dict(r) for r in pre]]})
                    break
        if len(ctx["samples"]) < 3 and oracle:
            ctx["samples"].append({"truth": [o["json"] for o in truth][:12], "today": R.iso(today),
                                   "lookups": [R.iso(x) for x in lookups[:8]]})


# ------------------------------------------------------------------ rows
HEADER = ["security", "trade date", "settlement date", "action", "shares", "amount/share", "commission",
          "currency", "exchange rate", "commission currency", "commission exchange rate"]
CURS = [None, None, "CAD", "USD", "USD", "USD", "usd", "EUR", "cad"]
FXS = [None, None, None, "1", "1.0", "1.25", "1.3305", "0.5", "0", "-1"]


def cur_code(c):
    if c is None:
        return 0
    c = c.upper()
    return {"CAD": 1, "USD": 2}.get(c, 7)


def gen_pair(rng, p_err):
    """(currency, explicit rate) of a column pair; error-provoking choices with probability p_err"""
    if rng.random() < p_err:
        return rng.choice([("EUR", None), ("CAD", "1.25"), ("USD", "0"), ("USD", "-1"), (None, "1.3"),
                           ("cad", "0.5"), ("EUR", "0"), ("CAD", "0")])
    k = rng.random()
    if k < 0.2:
        return (None, None)
    if k < 0.3:
        return (rng.choice(["CAD", "cad"]), rng.choice([None, None, "1", "1.0", "1.00"]))
    if k < 0.75:
        return (rng.choice(["USD", "USD", "usd"]), None)            # needs the Bank of Canada rate
    if k < 0.9:
        return ("USD", rng.choice(["1.25", "1.3305", "0.5", "1"]))  # explicit rate wins
    return ("EUR", rng.choice(["1.45", "0.0071", "2"]))


def gen_rows(rng, lo, hi, n):
    rows = []
    p_err = rng.choice([0.0, 0.0, 0.03, 0.15])
    for i in range(n):
        td = rng.randint(lo, hi)
        cur, fx = gen_pair(rng, p_err)
        if rng.random() < 0.55:
            ccur, cfx = None, None
        else:
            ccur, cfx = gen_pair(rng, p_err)
        rows.append({"td": td, "cur": cur, "fx": fx, "ccur": ccur, "cfx": cfx})
    return rows


def has_roc(i):
    return i % 3 == 1


def rows_csv(rows):
    lines = [",".join(HEADER)]
    for i, r in enumerate(rows):
        lines.append(",".join(["S%d" % i, R.iso(r["td"]), R.iso(r["td"] + 2), "Buy", "10", "2.5", "1",
                               r["cur"] or "", r["fx"] or "", r["ccur"] or "", r["cfx"] or ""]))
        if has_roc(i):
            # a return of capital in the same currency, with the same rate cell, traded the same day
            lines.append(",".join(["S%d" % i, R.iso(r["td"]), R.iso(r["td"] + 2), "RoC", "", "0.5", "",
                                   r["cur"] or "", r["fx"] or "", "", ""]))
    return "\n".join(lines) + "\n"


def rows_ints(truth, today, avail, rows):
    out = [1] + R.truth_ints(truth) + [today, avail, len(rows)]
    for r in rows:
        out += [r["td"], cur_code(r["cur"])]
        out += ([1] + qenc(Fraction(r["fx"]))) if r["fx"] is not None else [0]
        out += [cur_code(r["ccur"])]
        out += ([1] + qenc(Fraction(r["cfx"]))) if r["cfx"] is not None else [0]
    return out


def classify_rows_err(msg):
    """(kind, commission flag or None, code)"""
    com = None
    if msg.startswith("Commission exchange rate error: "):
        com = 1
    elif msg.startswith("Exchange rate error: "):
        com = 0
    if com is not None:
        if "does not support automatically loaded day rates" in msg:
            return ("row", com, 1)
        return ("rate", com, R.classify(msg))
    if "specified but" in msg and "not found" in msg:
        first = msg.split("specified but")[0]
        c = 1 if "commission" in first else 0
        return ("row", c, 2 if "exchange rate" in first else 3)
    if "must be a positive value" in msg:
        return ("row", 1 if "commission" in msg else 0, 4)
    if "Default currency (CAD) exchange rate was not 1" in msg:
        return ("row", None, 5)
    return ("other", None, msg[:80])


def expected_pair(pub, today, td, cur, fx):
    """what the property says about one (currency, rate) pair of a row:
    ('rate', q) | ('none',) | ('error',) | ('outside',)"""
    c = cur.upper() if cur else None
    if fx is not None:
        if c is None:
            return ("outside",)          # a rate without a currency: not spoken about
        q = Fraction(fx)
        if q <= 0:
            return ("error",)
        if c == "CAD" and q != 1:
            return ("error",)
        return ("rate", q)               # explicit rate wins
    if c is None:
        return ("none",)
    if c == "CAD":
        return ("rate", Fraction(1))
    if c == "USD":
        a = R.rule(pub, today, td)       # keyed on the TRADE date
        return ("rate", a[2]) if a[0] == "ok" else ("error",)
    return ("error",)                    # other currencies must carry their own rate


def cell_problem(cell, val, cur, rate):
    """None, or what is wrong with a rendered money cell for `val` of currency `cur` at `rate`"""
    lines = cell.split("\n")
    m = re.fullmatch(r"\$(-?[0-9]+(?:\.[0-9]+)?)", lines[0])
    if not m:
        return "not a dollar figure"
    cad = Fraction(m.group(1))
    if cur == "CAD":
        if len(lines) != 1:
            return "a CAD figure with a foreign-currency line"
        return None if cad == val else "expected $%s" % val
    if len(lines) != 2:
        return "no foreign-currency line"
    m2 = re.fullmatch(r"\((-?[0-9]+(?:\.[0-9]+)?) (\S+)\)", lines[1])
    if not m2:
        return "foreign-currency line not understood"
    if m2.group(2).upper() != cur:
        return "currency shown is %s" % m2.group(2)
    if Fraction(m2.group(1)) != val:
        return "foreign value shown is %s, expected %s" % (m2.group(1), val)
    want = val * rate
    if abs(cad - want) > Fraction(1, 10 ** 20) * max(Fraction(1), abs(want)):
        return "CAD value %s, expected %s" % (m.group(1), float(want))
    return None


def check_rows(res, ctx, batch):
    st = ctx["stats"]
    hc = [{"truth": [{"day": o["day"], "json": o["json"]} for o in truth], "today": today, "avail": avail,
           "csv": rows_csv(rows)} for truth, today, avail, rows in batch]
    impl = run_harness(ctx["exe"], "rows", hc)
    mod = run_model([rows_ints(*b) for b in batch], group="rates")
    for (truth, today, avail, rows), h, io, mo in zip(batch, hc, impl, mod):
        st["evaluations"] += 1
        st["row_files"] += 1
        # implementation observables
        if io.get("status") != "ok":
            iobs = ("panic", io.get("panic"))
        elif "err" in io:
            iobs = ("err",) + classify_rows_err(io["err"])
        else:
            l = []
            for k in range(len(rows)):
                s = io["secs"].get("S%d" % k)
                if s is None or s["err"] is not None or len(s["rows"]) != (2 if has_roc(k) else 1):
                    l.append(None)
                else:
                    l.append((Fraction(s["rows"][0]["rate"]), Fraction(s["rows"][0]["crate"])))
            iobs = ("ok", l)
        # model observables
        rd = Reader(mo)
        assert rd.z() == 1
        t = rd.z()
        if t == 1:
            mobs = ("ok", [(rd.q(), rd.q()) for _ in range(rd.z())])
        elif t == 0:
            kind = "rate" if rd.z() == 0 else "row"
            mobs = ("err", kind, rd.z(), rd.z())
        else:
            mobs = ("panic", None)
        same = mobs == iobs
        if not same and mobs[0] == "err" and iobs[0] == "err" and iobs[2] is None:
            same = (mobs[1], mobs[3]) == (iobs[1], iobs[3])     # commission flag not visible in the message
        if not same:
            st["correspondence_diffs"] += 1
            ctx["corr_diffs"].append((dict(h, replay_mode="rows", replay_case=[truth, today, avail, rows]),
                                      "rows: model %s, implementation %s" % (str(mobs)[:300], str(iobs)[:300])))
        # oracle: the decision rules
        pub = R.pub_of(truth, avail)
        exp = []
        for r in rows:
            tx = expected_pair(pub, today, r["td"], r["cur"], r["fx"])
            cm = expected_pair(pub, today, r["td"], r["ccur"], r["cfx"])
            exp.append((tx, cm))
        flat = [x for p in exp for x in p]
        if any(x[0] == "outside" for x in flat):
            st["rows-outside-statement"] += 1
            continue
        want_err = any(x[0] == "error" for x in flat)
        st["rows-expected-error" if want_err else "rows-expected-ok"] += 1
        for r in rows:
            for c, f in ((r["cur"], r["fx"]), (r["ccur"], r["cfx"])):
                st["pair-%s-%s" % ((c or "none").upper(), "explicit" if f is not None else "none")] += 1
        if iobs[0] == "panic":
            res.violation("failing-input", "rows: panic %s" % (iobs[1],),
                          {"input": h, "replay_mode": "rows", "replay_case": [truth, today, avail, rows]})
        elif want_err != (iobs[0] == "err"):
            res.violation("failing-input",
                          "rows: the decision rules %s, the implementation %s" % (
                              "demand an error" if want_err else "give rates for every row",
                              "accepted the file" if iobs[0] == "ok" else "stopped: " + io.get("err", "")),
                          {"input": h, "expected_spec": str(exp), "actual_impl": str(iobs)[:500],
                           "replay_mode": "rows", "replay_case": [truth, today, avail, rows]})
        elif not want_err:
            for k, ((tx, cm), got) in enumerate(zip(exp, iobs[1])):
                etx = tx[1] if tx[0] == "rate" else Fraction(1)
                ecm = cm[1] if cm[0] == "rate" else etx
                if got != (etx, ecm):
                    res.violation("failing-input",
                                  "row %d (trade date %s): rates used %s, the decision rules give %s" % (
                                      k, R.iso(rows[k]["td"]), got, (etx, ecm)),
                                  {"input": h, "row": k, "expected_spec": str((etx, ecm)), "actual_impl": str(got),
                                   "replay_mode": "rows", "replay_case": [truth, today, avail, rows]})
                    break
            # the Amount / Amt/Share / Commission cells of the report: converted with the rate of their OWN
            # currency ("$<CAD value>" and, for a foreign currency, "(<value> <CUR>)" underneath)
            for k, (r, (tx, cm)) in enumerate(zip(rows, exp)):
                cells = (io["secs"].get("S%d" % k) or {}).get("cells")
                if not isinstance(cells, list) or len(cells) != (2 if has_roc(k) else 1):
                    continue
                etx = tx[1] if tx[0] == "rate" else Fraction(1)
                ecm = cm[1] if cm[0] == "rate" else etx
                tcur = (r["cur"] or "CAD").upper()
                ccur = (r["ccur"] or tcur).upper()
                checks = [("Amount", cells[0][0], Fraction(25), tcur, etx),
                          ("Amt/Share", cells[0][1], Fraction(5, 2), tcur, etx),
                          ("Commission", cells[0][2], Fraction(1), ccur, ecm)]
                if has_roc(k):
                    checks += [("Amount of the RoC row", cells[1][0], Fraction(5), tcur, etx),
                               ("Amt/Share of the RoC row", cells[1][1], Fraction(1, 2), tcur, etx)]
                for name, cell, val, cur, rate in checks:
                    st["cells-checked"] += 1
                    bad = cell_problem(cell, val, cur, rate)
                    if bad:
                        res.violation("failing-input",
                                      "row %d (trade date %s): the %s cell shows %r: %s (currency %s, rate by the decision rules %s)" % (
                                          k, R.iso(r["td"]), name, cell, bad, cur, rate),
                                      {"input": h, "row": k, "cell": name, "actual_impl": cell,
                                       "replay_mode": "rows", "replay_case": [truth, today, avail, rows]})
                        break
            key = ("rows", hashlib.sha1((h["csv"] + json.dumps(h["truth"])).encode()).hexdigest())
            if key not in ctx["seen"] and any(
                    c and c.upper() == "USD" and f is None
                    for r in rows for c, f in ((r["cur"], r["fx"]), (r["ccur"], r["cfx"]))):
                ctx["seen"].add(key)
                st["distinct_nontrivial"] += 1
                st["row-files-with-USD-lookup"] += 1


# ------------------------------------------------------------------ support checks
def check_division(res, ctx, rng, n):
    """rust_decimal division = fit (the inversion of daily observations)"""
    cases = []
    for _ in range(n):
        b = R.gen_value(rng, True) if rng.random() < 0.7 else "%d.%s" % (
            rng.randint(0, 10 ** rng.randint(0, 10)), "".join(rng.choice("0123456789") for _ in range(rng.randint(0, 15))) + "7")
        a = "1" if rng.random() < 0.8 else "%d.%02d" % (rng.randint(0, 999), rng.randint(0, 99))
        cases.append((a, b))
    impl = run_harness(ctx["exe"], "arith", [{"a": a, "b": b} for a, b in cases])
    mod = run_model([[5] + qenc(Fraction(a)) + qenc(Fraction(b)) for a, b in cases], group="rates")
    bad = []
    for (a, b), io, mo in zip(cases, impl, mod):
        rd = Reader(mo)
        assert rd.z() == 1
        mv = rd.q() if rd.z() else None
        iv = Fraction(io["r"]) if io.get("r") is not None else None
        pv = R.fit(Fraction(a) / Fraction(b))
        if not (mv == iv == pv):
            bad.append({"a": a, "b": b, "impl": str(iv), "model": str(mv), "py": str(pv)})
    if bad:
        res.violation("broken-correspondence", "rust_decimal division does not behave like Base/Fit.v fit: %s" % bad[:3],
                      {"theorem_or_projection": "dec division (inversion of FXCADUSD)", "examples": bad[:3]}, found_input=False)
    return {"pairs": n, "mismatches": len(bad)}


def check_dates(res, ctx, rng, n):
    """the model's calendar (year_of, civil) = the time crate's"""
    days = [0, -1, 1, R.day(2016, 12, 31), R.day(2017, 1, 1), R.day(2020, 2, 29), R.day(2100, 2, 28), R.day(2100, 3, 1),
            R.day(2000, 2, 29), R.day(1900, 3, 1), R.day(1, 1, 1), R.day(9999, 12, 31)]
    for y in range(1995, 2035):
        days += [R.day(y, 1, 1), R.day(y, 12, 31)]
    days += [rng.randint(R.day(1, 1, 1), R.day(9999, 12, 31)) for _ in range(n)]
    days += [rng.randint(R.day(1990, 1, 1), R.day(2040, 12, 31)) for _ in range(n)]
    io = run_harness(ctx["exe"], "dates", [{"days": days}], nproc=1)[0]
    mo = run_model([[2, len(days)] + days], group="rates")[0]
    rd = Reader(mo)
    assert rd.z() == 1
    bad = []
    for dn, (iy, itext) in zip(days, io["dates"]):
        my, cy, cm, cd = rd.z(), rd.z(), rd.z(), rd.z()
        py = R.date_of(dn)
        if not (my == iy == py.year and "%04d-%02d-%02d" % (cy, cm, cd) == itext == py.isoformat()):
            bad.append((dn, iy, itext, my, cy, cm, cd))
    if bad:
        res.violation("broken-correspondence", "calendar of the model differs from the time crate: %s" % bad[:3],
                      {"theorem_or_projection": "year_of / civil (Model/Rates.v, Model/CrashFs.v)", "examples": bad[:3]},
                      found_input=False)
    return {"days": len(days), "mismatches": len(bad)}


def run(res, ctx):
    tier, seed = ctx["tier"], ctx["seed"]
    rng = random.Random(seed * 7919 + 12)
    ctx.update(stats=collections.Counter(), seen=set(), samples=[], corr_diffs=[])
    st = ctx["stats"]
    div = check_division(res, ctx, rng, 10000 if tier == "quick" else 100000)
    dates = check_dates(res, ctx, rng, 2000 if tier == "quick" else 40000)

    batch = []
    for name, truth, todays, lookups in corpus():
        for today, avail in todays:
            batch.append((name, truth, today, avail, lookups, True, "mem"))
            for dd in lookups:          # and every look-up by its own loader over an empty cache
                batch.append((name + "-single", truth, today, avail, [dd], True, "csv"))
    # irregular remote data (not calendars: unsorted / repeated days) -- model fidelity only
    tr = [R.mk_obs(R.day(2022, 1, 10), daily="0.79"), R.mk_obs(R.day(2022, 1, 5), daily="0.78"),
          R.mk_obs(R.day(2022, 1, 5), daily="0.77"), R.mk_obs(R.day(2022, 1, 12), daily="0.76"),
          R.mk_obs(R.day(2022, 1, 3), daily="0.75")]
    batch.append(("irregular", tr, R.day(2022, 1, 20), R.day(2022, 1, 20),
                  list(range(R.day(2021, 12, 30), R.day(2022, 1, 22))), False, "mem"))
    check_lookups(res, ctx, batch)

    n = 1500 if tier == "quick" else 12000
    done = 0
    while done < n:
        batch = []
        for _ in range(min(250, n - done)):
            truth, todays, lookups = gen_calendar(rng)
            for today, avail in todays:
                batch.append(("random", truth, today, avail, lookups, True, rng.choice(["mem", "csv"])))
                if rng.random() < 0.3:
                    batch.append(("random-single", truth, today, avail, [rng.choice(lookups)], True, "mem"))
            done += 1
        check_lookups(res, ctx, batch)

    # the same rule when an earlier run (same cache, earlier today) has left a partly filled year behind
    batch = []
    for _ in range(200 if tier == "quick" else 2000):
        y = rng.choice([2015, 2016, 2017, 2021, 2022])
        start = R.day(y, rng.choice([3, 6, 11, 12]), rng.randint(1, 12))
        end = start + rng.randint(20, 45)
        days = R.gen_pub_days(rng, start, end)
        if len(days) < 4:
            continue
        truth = R.gen_truth(rng, days)
        t1 = rng.choice(days[1:-1]) + rng.choice([0, 1])
        pre = [{"today": t1, "avail": t1, "force": False,
                "lookups": [rng.randint(start, t1) for _ in range(rng.randint(1, 3))]}]
        t2 = rng.choice([days[-1] + 1, end + rng.randint(1, 20), R.day(y + 1, rng.randint(1, 3), rng.randint(1, 28)),
                         R.day(y + 2, 1, 15)])
        lookups = [rng.randint(start - 2, min(end + 3, t2)) for _ in range(rng.randint(3, 12))]
        batch.append(("after-earlier-run", truth, t2, t2, lookups, True, rng.choice(["mem", "csv"]), pre))
    check_lookups(res, ctx, batch)

    # decision rules through the application path
    nrows = 1500 if tier == "quick" else 12000
    batch = []
    for _ in range(nrows):
        truth, todays, lookups = gen_calendar(rng)
        today, avail = todays[0]
        days = [o["day"] for o in truth] or [today]
        if rng.random() < 0.7:      # trade dates the rule has a rate for (most files are accepted)
            lo, hi = min(days), max(min(days), min(max(days) + 3, today - 1))
        else:
            lo, hi = min(days) - 9, max(min(days), min(max(days) + 9, today + 1))
        batch.append((truth, today, avail, gen_rows(rng, lo, max(lo, hi), rng.randint(1, 6))))
    check_rows(res, ctx, batch)

    # the remote document layer: generated documents as text to parse_rates_json, as trees to Model/RatesJson.v
    # (C12_document_to_observations, C12_malformed_document_is_error); number tokens one by one
    rng_j = random.Random(seed * 7919 + 1212)
    jsonnum = RJ.run_pass(res, ctx, rng_j, 4000 if tier == "quick" else 40000, 3000 if tier == "quick" else 30000)

    if ctx["corr_diffs"] and not res.violations:
        hc, d = ctx["corr_diffs"][0]
        res.violation("broken-correspondence", "model and implementation differ: " + d,
                      {"theorem_or_projection": "correspondence projection C12 (answer per look-up: date and rate as exact rational or error class; series requested per year; rows: rates or error class)",
                       "input": hc, "difference": d, "differing_cases": len(ctx["corr_diffs"]),
                       "replay_mode": hc.get("replay_mode"), "replay_case": hc.get("replay_case")}, found_input=False)
    res.coverage.update({
        "evaluations": st["evaluations"],
        "distinct_nontrivial": st["distinct_nontrivial"],
        "rule": "seeded publication calendars (weekdays with holidays / runs with gaps 0..9 / sparse; windows across year ends incl. 2016->2017; malformed, zero, negative, cross-series observations) x (today, published-today flag) x look-up dates, each through RateLoader over an empty cache (in-memory and CSV) with the generated JSON served by our HttpRequester; plus CSV files of Buy rows through run_acb_app_to_delta_models. Non-trivial = a look-up whose date has no published rate (look-back, today handling or error), distinct by (calendar, today, availability, date); plus row files containing a USD row without explicit rate",
        "samples": ctx["samples"],
        "input_distribution": {k: v for k, v in sorted(st.items())},
        "lookups_checked_against_rule": st["lookups"],
        "division_validation": div,
        "calendar_validation": dates,
        "json_number_validation": jsonnum,
        "json_documents": {k: v for k, v in sorted(st.items()) if k.startswith("json-")},
        "traces_validated_against_impl": st["evaluations"],
    })
    res.assumptions += [
        "the json crate's text -> tree parsing (objects, arrays, strings, escapes) is a hypothesis: the tree given to Model/RatesJson.v is built from the same text with Python's json module (members in document order, number tokens kept as text); number tokens -> (sign, u64 mantissa, i16 exponent) -> Display -> Decimal::from_str IS modelled and compared token by token",
        "Decimal::from_str is modelled exactly on [+-] digits [. digits] with <= 28 fractional digits and a mantissa <= 2^96-1 (the generator stays inside; longer fractions are rounded and `_` separators accepted by rust_decimal, not modelled)",
        "premise of the rule: observations of a year arrive in ascending date order, one per day, none dated after today (the Bank of Canada does not publish future rates)",
        "rust_decimal division = fit and time crate calendar = Model/Rates.v year_of/jan1 are assumed oracles, re-validated on every run",
    ]


def replay(res, ctx, path):
    import common
    rep = json.load(open(path))
    ctx.update(stats=collections.Counter(), seen=set(), samples=[], corr_diffs=[])
    r2 = common.Result("C12", ctx["tier"], ctx["seed"])
    mode, case = rep.get("replay_mode"), rep.get("replay_case")
    if mode == "lookups":
        name, truth, today, avail, lookups, oracle, cache = case[:7]
        pre = case[7] if len(case) > 7 else []
        check_lookups(r2, ctx, [(name, [R.load_obs(o) for o in truth], today, avail, lookups, oracle, cache, pre)])
    elif mode == "rows":
        truth, today, avail, rows = case
        check_rows(r2, ctx, [([R.load_obs(o) for o in truth], today, avail, rows)])
    elif mode == "doc":
        check_docs_replay(r2, ctx, case, rep)
    elif mode == "num":
        RJ.check_numbers(r2, ctx, list(case))
    else:
        print("replay: this replay file names no input (%s)" % rep.get("what", "")[:200])
        return 1
    return R.replay_report(r2, ctx, mode)


def check_docs_replay(r2, ctx, text, rep):
    """a document replayed from its text (no expectation attached: correspondence and the never-zero clause)"""
    RJ.check_docs(r2, ctx, [("replay", RJ.tree_of_text(text), None)])
