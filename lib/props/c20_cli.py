# C20 through the real binary: questrade-statement-fmv on real PDF files (written
# by lib/pdfwrite.py) of 1-12 pages with the month on page 1 and a well-formed
# allocation table on ANY page: the month, the total and every holding come
# back as listed, whatever the page count and wherever the table is - the page
# hints may only change how fast it is found.
import csv
import io
import os
import shutil
import subprocess
import tempfile

import pdfwrite
from common import build_bins, child_env, BUILD

SQ = pdfwrite.SQUARE


def tables(rng):
    """(lines of the table, [(description, fmv text)], total text)"""
    t = []
    t.append(([SQ + " CI BALANCED ASSET ALLOCATION ETF (CBAL) 60.0 60,000.0",
               SQ + " ANOTHER ASSET", "ALLOCATION FUND SERIES F (AAF)", "40.0 40,000.0",
               "100.0 100,000.0"],
              [("CI BALANCED ASSET ALLOCATION ETF (CBAL)", "60000.00"),
               ("ANOTHER ASSET ALLOCATION FUND SERIES F (AAF)", "40000.00")], "100000.00"))
    t.append(([SQ + " BLABLA ETF (BLABLA) 80.0 80,000.0",
               SQ + " SOME GIC 01/01/2024", "4.00% 1Y DUE 01/01/2024  INT  4.000% (XXXXXX)", "20.0 20,000.0",
               "100.0 100,000.0"],
              [("BLABLA ETF (BLABLA)", "80000.00"),
               ("SOME GIC 01/01/2024 4.00% 1Y DUE 01/01/2024  INT  4.000% (XXXXXX)", "20000.00")], "100000.00"))
    # several multi-line holdings: continuation lines add up over the table
    hold, lines = [], []
    n = rng.choice([3, 4, 5])
    for i in range(n):
        lines += [SQ + " GIC NUMBER %d 01/0%d/2024" % (i, i + 1), "3.%d0%% 1Y DUE 01/0%d/2025" % (i, i + 1), "INT  3.%d00%% (GIC%dX)" % (i, i),
                  "%d.0 %d,000.0" % (100 // n if i else 100 - (n - 1) * (100 // n), 10 * (100 // n if i else 100 - (n - 1) * (100 // n)))]
        share = 100 // n if i else 100 - (n - 1) * (100 // n)
        hold.append(("GIC NUMBER %d 01/0%d/2024 3.%d0%% 1Y DUE 01/0%d/2025 INT  3.%d00%% (GIC%dX)" % (i, i + 1, i, i + 1, i, i),
                     "%d000.00" % (10 * share)))
    lines.append("100.0 1,000,000.0")
    t.append((lines, hold, "1000000.00"))
    return t


def run(res, ctx, rng, st):
    bindir, blog = build_bins()
    tool = os.path.join(bindir or "", "questrade-statement-fmv")
    if bindir is None or not os.path.exists(tool):
        st["cli-unavailable"] += 1
        return
    months = ["March 31, 2024", "September 30, 2024", "December 31, 2023"]
    cases = []
    for n_pages in range(1, 13):
        for tp in range(1, n_pages + 1):
            cases.append((n_pages, tp))
    if ctx["tier"] == "quick":
        keep = [(n, t) for n, t in cases if t in (1, 2, n - 1, n, 7, 6, 8) or n <= 5]
        cases = sorted(set(keep))
    base = tempfile.mkdtemp(prefix="c20cli-", dir=os.path.join(BUILD, "run"))
    try:
        tabs = tables(rng)
        for k, (n_pages, tp) in enumerate(cases):
            lines_t, hold, total = tabs[k % len(tabs)]
            month = months[k % len(months)]
            pages = []
            for p in range(1, n_pages + 1):
                ls = []
                if p == 1:
                    ls += ["Questrade", "Account #:  1234 Current month:  %s and more" % month]
                if p == tp:
                    ls += ["Securities Owned", "Combined in (CAD)", "ALLOCATION (%) MARKET VALUE ($)"] + lines_t
                pages.append(ls or ["Activity details, page %d" % p])
            path = os.path.join(base, "st_%d_%d.pdf" % (n_pages, tp))
            open(path, "wb").write(pdfwrite.make_pdf(pages))
            p = subprocess.run([tool, path], stdout=subprocess.PIPE, stderr=subprocess.PIPE, text=True,
                               env=child_env({"HOME": base}), cwd=base, timeout=120)
            st["evaluations"] += 1
            st["cli-pdf-statements"] += 1
            what = None
            if "panicked at" in p.stderr:
                what = "panic: " + p.stderr[-300:]
            elif p.returncode != 0:
                what = "the tool fails: " + (p.stderr or p.stdout).strip()[-300:]
            else:
                rows = list(csv.reader(io.StringIO(p.stdout)))
                got = dict(zip(rows[0], rows[1])) if len(rows) >= 2 else {}
                notes = {}
                for r in rows[2:]:
                    if r and " = " in r[0]:
                        ab, desc = r[0].split(" = ", 1)
                        notes[desc] = ab
                if got.get("Month") != month:
                    what = "month %r, the statement says %r" % (got.get("Month"), month)
                elif got.get("Total FMV (CAD)") != total:
                    what = "total %r, the statement says %r" % (got.get("Total FMV (CAD)"), total)
                else:
                    for desc, fmv in hold:
                        if desc not in notes or got.get(notes[desc]) != fmv:
                            what = "holding %r: %r, the statement says %r" % (desc, got.get(notes.get(desc)), fmv)
                            break
                    if what is None and len(notes) != len(hold):
                        what = "%d holdings returned, the table lists %d" % (len(notes), len(hold))
            if what:
                res.violation("failing-input", "questrade-statement-fmv on a %d-page statement with the table on page %d: %s" % (n_pages, tp, what),
                              {"case_kind": "cli-pdf", "pages": pages, "actual_impl": p.stdout[-800:], "stderr": p.stderr[-400:]})
                return
    finally:
        shutil.rmtree(base, ignore_errors=True)
