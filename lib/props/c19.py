# C19 - E*TRADE extraction accounts for every benefit and every sold share once.
#
# The regex text layer is NOT modelled: abstract confirmations are rendered into
# the supported text layouts, the real tool (run_with_args through the harness,
# and the etrade-plan-pdf-tx-extract binary for a sample) runs on the .txt files,
# and its CSV / errors are compared with the extracted model run on the records
# (differential).  Independently, the property itself is evaluated on the tool's
# output (etrade.oracle) and the CSV is fed to the real acb reader.
import collections
import copy
import hashlib
import json
import os
import random
import re
import shutil
import subprocess
from fractions import Fraction

import common
import etrade as E
import etradetext as T
from common import run_harness, run_model

RUNROOT = os.path.join(common.BUILD, "run")


# ------------------------------------------------------------------ generator

def money(rng, lo, hi, dp):
    v = rng.randint(int(lo * 10 ** dp), int(hi * 10 ** dp))
    return "%d.%0*d" % (v // 10 ** dp, dp, v % 10 ** dp)


def near(rng, p, spread, dp):
    """a printed price near p (a printed decimal)"""
    base = int(round(float(p) * 10 ** dp))
    v = max(1, base + rng.randint(-spread, spread))
    return "%d.%0*d" % (v // 10 ** dp, dp, v % 10 ** dp)


def split_int(rng, n, k):
    k = max(1, min(k, n))
    cuts = sorted(rng.sample(range(1, n), k - 1)) if k > 1 else []
    parts = [b - a for a, b in zip([0] + cuts, cuts + [n])]
    return parts


def mk_trade(rng, sym, td, qty, price, act="Sell", sd_off=None):
    return dict(sym=sym, td=td, sd=td + (sd_off if sd_off is not None else rng.choice([1, 2, 2, 2, 3, 4, 5])),
                qty=qty, price=price, act=act,
                commission=money(rng, 0, 25, 2) if rng.random() < 0.7 else None,
                fee=money(rng, 0, 1, 2) if rng.random() < 0.7 else None)


def gen_case(rng, big=False):
    syms = ["FOO"] if rng.random() < 0.8 else ["FOO", rng.choice(["BAR", "BRK.B"])]
    base = rng.randint(E.datetime.date(2021, 1, 5).toordinal(), E.datetime.date(2025, 11, 20).toordinal())
    files = []
    trades = []      # abstract trades, later packed into files
    nb = rng.choice([1, 1, 2, 2, 2, 3, 3, 4])
    if big:
        nb = 1
    small = rng.random() < 0.5      # small share counts => many coinciding sums
    award = rng.randint(10000, 99990)
    grantno = rng.randint(1000, 9000)
    for bi in range(nb):
        kind = rng.choice(["rsu", "rsu", "rsu", "espp", "espp", "eso"])
        sym = rng.choice(syms)
        date = base + rng.choice([0, 0, 1, 2, 3, 5, 6, 9, 14])
        sold_n = rng.randint(2, 12) if small else rng.randint(5, 60)
        if big:
            sold_n = rng.randint(8, 30)
        stc_p = money(rng, 40, 220, rng.choice([2, 4, 6]))
        fmv = money(rng, 40, 220, 6)
        has_stc = True
        if kind == "rsu":
            frac = rng.random() < 0.04
            rec = dict(sym=sym, date=date, award="R%d" % (award + bi), released="%d.0000" % (sold_n + rng.randint(1, 200)),
                       sold=("%d.5000" % sold_n) if frac else ("%d.0000" % sold_n), fmv=fmv, sale=stc_p, fee=money(rng, 0, 30, 2))
        elif kind == "espp":
            has_stc = rng.random() < 0.7
            rec = dict(sym=sym, date=date, purchased="%d.0000" % (sold_n + rng.randint(1, 200)), fmv=fmv)
            if has_stc:
                rec.update(sold="%d.0000" % sold_n, sale=stc_p, fee=money(rng, 0, 30, 2))
                if rng.random() < 0.08:     # incomplete sell-to-cover block
                    rec[rng.choice(["sold", "sale", "fee"])] = None
                    has_stc = rec["sold"] is not None
        else:
            ng = rng.choice([1, 1, 2, 3])
            sale = money(rng, 40, 220, 2)
            stc_p = sale
            grants = [dict(num=str(grantno + 10 * bi + g), fmv=(money(rng, 40, 220, 2) if rng.random() < 0.8 else "1," + money(rng, 100, 900, 2)),
                           shares=str(rng.randint(10, 400)), sale=sale, fee=money(rng, 0, 20, 2)) for g in range(ng)]
            rec = dict(sym=sym, date=date, extype=rng.choice(["Same-Day Sale", "Sell to Cover", "Cashless Exercise"]),
                       shares_sold=(str(sold_n) if sold_n < 1000 else "{:,}".format(sold_n)), grants=grants)
        name = "%s%s_%d.txt" % (rng.choice("abcmxyz"), kind, bi)
        files.append(dict(kind=kind, style=rng.choice([0, 1]), rec=rec, path=name))
        if not has_stc:
            continue
        # the trades that make up this sell-to-cover
        mode = rng.choices(["exact", "split", "split2dates", "missing", "late", "early", "wrongsym", "off_by_one"],
                           weights=[40, 44, 6, 1.5, 2, 1, 1.5, 2.5])[0]
        if big:
            mode = "split"
        off = rng.choice([0, 0, 1, 1, 1, 2, 2, 3, 4, 5])
        if mode == "late":
            off = rng.choice([6, 7])
        if mode == "early":
            off = -rng.choice([1, 2])
        k = 1 if mode == "exact" else rng.choice([2, 2, 3, 3, 4])
        if big:
            k = rng.choice([3, 4, 5])
        parts = split_int(rng, sold_n, k)
        if mode == "off_by_one":
            parts[0] += rng.choice([-1, 1])
            parts = [p for p in parts if p > 0] or [1]
        if mode == "missing":
            parts = []
        sd_off = rng.choice([1, 2, 2, 3, 4])
        for j, pn in enumerate(parts):
            td = date + off + (rng.choice([0, 1]) if mode == "split2dates" and j > 0 else 0)
            tsym = sym if mode != "wrongsym" else ("ZED" if len(syms) == 1 else [s for s in syms if s != sym][0])
            trades.append(mk_trade(rng, tsym, td, pn, near(rng, stc_p, rng.choice([0, 5, 50, 300]), rng.choice([2, 3, 4])),
                                   sd_off=sd_off if mode != "split2dates" else None))
    # other sales / purchases of the employee around the same days
    nx = rng.choice([0, 0, 1, 1, 2, 3, 4])
    if big:
        nx = rng.randint(4, 8)
    for _ in range(nx):
        sym = rng.choice(syms)
        td = base + rng.randint(-3, 16) if not big else base + rng.randint(0, 7)
        if trades and rng.random() < 0.55:
            qty = rng.choice(trades)["qty"]          # equal share counts
        else:
            qty = rng.randint(1, 12) if small else rng.randint(1, 60)
        act = "Sell" if rng.random() < 0.85 else "Buy"
        trades.append(mk_trade(rng, sym, td, qty, money(rng, 40, 220, rng.choice([2, 3, 4])), act=act))
    # the search is exponential in the number of candidate sales of one benefit
    # (2^n - 1 sets, in the code and in the model alike): keep n <= 14
    del trades[12:]
    if trades and rng.random() < 0.25:
        # a sale identical in every printed figure to another one
        trades.append(copy.deepcopy(rng.choice(trades)))
    # pack trades into documents
    rng.shuffle(trades)
    tfiles = []
    pend = collections.OrderedDict()
    for t in trades:
        layout = "tc_pre" if rng.random() < 0.5 else "tc_post"
        if layout == "tc_post":
            ttype = {"Sell": rng.choice(["Sold", "Sold", "Sold Short"]), "Buy": "Bought"}[t["act"]]
            tfiles.append(dict(kind="tc_post", style=rng.choice([0, 1]),
                               rec=dict(acct="123-XXX789-111", td=t["td"], sd=t["sd"], qty=t["qty"], price=t["price"], ttype=ttype,
                                        sym=t["sym"], commission=t["commission"], fee=t["fee"])))
        else:
            t2 = dict(t, act=t["act"].upper())
            if t2["commission"] is None and t2["fee"] is None:
                t2["fee"] = "0.01"
            pend.setdefault((t["td"], t["sd"]), []).append(t2)
    for (td, sd), ts in pend.items():
        while ts:
            n = rng.choice([1, 2, 3])
            tfiles.append(dict(kind="tc_pre", style=rng.choice([0, 1]), rec=dict(acct="XXXX-1234", trades=ts[:n])))
            ts = ts[n:]
    dirs = ["", "", "d1", "d2"]
    for i, f in enumerate(tfiles):
        d = rng.choice(dirs)
        f["path"] = (d + "/" if d else "") + "%stc_%d.txt" % (rng.choice("abcmxyz"), i)
    # identical confirmation under the same file name in another directory
    posts = [f for f in tfiles if f["kind"] == "tc_post"]
    if posts and rng.random() < 0.2:
        f = copy.deepcopy(rng.choice(posts))
        bn = f["path"].split("/")[-1]
        have = {g["path"] for g in tfiles}
        for d in ("d1", "d2", "d3"):
            if d + "/" + bn not in have and d + "/" + bn != f["path"]:
                f["path"] = d + "/" + bn
                tfiles.append(f)
                break
    for f in files:
        d = rng.choice(dirs)
        f["path"] = (d + "/" if d else "") + f["path"]
    files += tfiles
    rng.shuffle(files)          # argument order
    return dict(files=files)


def F(kind, path, rec, style=0):
    return dict(kind=kind, path=path, rec=rec, style=style)


def corpus():
    """hand-written boundary cases (day numbers via date ordinals)"""
    d = E.datetime.date(2024, 2, 20).toordinal()
    rsu = lambda sold, date=d, award="R12353", sale="106.360000", sym="FOO", released="100.0000": dict(
        sym=sym, date=date, award=award, released=released, sold=sold, fmv="105.610000", sale=sale, fee="4.17")
    post = lambda td, qty, price, sd=None, ttype="Sold", sym="FOO", c="3.91", f="0.26": dict(
        acct="123-XXX789-111", td=td, sd=sd if sd is not None else td + 2, qty=qty, price=price, ttype=ttype, sym=sym, commission=c, fee=f)
    pre = lambda td, qty, price, sd=None, act="SELL", sym="FOO", c="20.20", f="0.02": dict(
        td=td, sd=sd if sd is not None else td + 2, sym=sym, act=act, qty=qty, price=price, commission=c, fee=f)
    cs = []
    # 1. the repository's own 2022 scenario, rebuilt from records
    d22 = E.datetime.date(2022, 2, 15).toordinal()
    cs.append(dict(label="2022 sample", files=[
        F("espp", "espp.txt", dict(sym="FOO", date=d22, purchased="57.0000", fmv="100.500000", sold="15.0000", sale="101.000000", fee="20.22")),
        F("rsu", "rsu.txt", dict(sym="FOO", date=d22 + 7, award="R12353", released="50.0000", sold="13.0000", fmv="100.500000", sale="108.848900", fee="21.30"), 1),
        F("tc_pre", "trade_conf_1.txt", dict(acct="XXXX-1234", trades=[pre(d22 + 1, 15, "101.00")])),
        F("tc_pre", "trade_conf_2.txt", dict(acct="XXXX-1234", trades=[pre(d22 + 9, 12, "108.50", sd=d22 + 13, c="21.22", f="0.07"),
                                                                         pre(d22 + 9, 1, "113.00", sd=d22 + 13, c=None, f="0.01")]), 1)]))
    # 2. identical confirmations under the same file name in two directories, a third sale between them
    cs.append(dict(label="equal confirmations, both consumed, not adjacent", files=[
        F("rsu", "r/rsu.txt", rsu("10.0000")),
        F("tc_post", "a/t.txt", post(d + 1, 5, "106.36")),
        F("tc_post", "a/x.txt", post(d + 1, 3, "107.00")),
        F("tc_post", "b/t.txt", post(d + 1, 5, "106.36"))]))
    # 3. same, pre-2023 layout with two rows per document
    cs.append(dict(label="equal pre-2023 documents in two directories", files=[
        F("rsu", "rsu.txt", rsu("12.0000")),
        F("tc_pre", "a/tc.txt", dict(acct="XXXX-1234", trades=[pre(d + 2, 6, "106.36"), pre(d + 2, 4, "99.00")])),
        F("tc_pre", "b/tc.txt", dict(acct="XXXX-1234", trades=[pre(d + 2, 6, "106.36"), pre(d + 2, 4, "99.00")]), 1)]))
    # 4. window boundaries: +5 accepted, +6 and -1 are errors
    for off, lab in ((5, "5 days after"), (6, "6 days after"), (-1, "1 day before"), (0, "same day")):
        cs.append(dict(label="window: trade " + lab, files=[F("rsu", "rsu.txt", rsu("5.0000")),
                                                              F("tc_post", "tc.txt", post(d + off, 5, "106.00"))]))
    # 5. several benefits close together competing for the same trades (file order decides)
    for names in (("a_rsu.txt", "b_rsu.txt"), ("b_rsu.txt", "a_rsu.txt")):
        cs.append(dict(label="two benefits one day apart, order " + names[0], files=[
            F("rsu", names[0], rsu("3.0000", date=d)),
            F("rsu", names[1], rsu("7.0000", date=d + 1, award="R12307", sale="111.360000")),
            F("tc_post", "t1.txt", post(d + 1, 3, "106.30")),
            F("tc_post", "t2.txt", post(d + 2, 4, "150.00")),
            F("tc_post", "t3.txt", post(d + 3, 5, "111.30")),
            F("tc_post", "t4.txt", post(d + 3, 2, "111.50"))]))
    # 6. equal share counts: price decides; multi-trade combination beats the single equal trade
    cs.append(dict(label="closest average price wins", files=[
        F("rsu", "rsu.txt", rsu("5.0000", sale="100.000000")),
        F("tc_post", "t1.txt", post(d + 1, 5, "400.00")),
        F("tc_post", "t2.txt", post(d + 1, 1, "99.00")),
        F("tc_post", "t3.txt", post(d + 1, 4, "101.00"))]))
    # 7. symmetric prices around the benefit price: decided by rust_decimal rounding of the averages
    cs.append(dict(label="tie broken by rounding of the average", files=[
        F("rsu", "rsu.txt", rsu("3.0000", sale="100.000000")),
        F("tc_post", "t1.txt", post(d + 1, 3, "99.666667")),
        F("tc_post", "t2.txt", post(d + 1, 1, "100.00")),
        F("tc_post", "t3.txt", post(d + 1, 2, "100.50")),
        F("tc_post", "t4.txt", post(d + 1, 3, "100.333333"))]))
    # 8. ESPP without sell-to-cover, manual buy, ESO with two grants, second security
    cs.append(dict(label="espp without stc, eso two grants, buys, other security", files=[
        F("espp", "espp.txt", dict(sym="FOO", date=d, purchased="57.0000", fmv="100.500000"), 1),
        F("eso", "eso.txt", dict(sym="FOO", date=d + 1, extype="Same-Day Sale", shares_sold="35",
                                 grants=[dict(num="1234", fmv="1,000.00", shares="100", sale="120.00", fee="10.00"),
                                         dict(num="1235", fmv="90.25", shares="200", sale="120.00", fee="11.00")])),
        F("tc_pre", "tc1.txt", dict(acct="XXXX-1234", trades=[pre(d + 1, 35, "120.00"), pre(d + 1, 35, "120.00", sym="BAR"),
                                                              pre(d + 1, 4, "88.00", act="BUY")])),
        F("tc_post", "tc2.txt", post(d + 4, 9, "130.10", ttype="Bought"))]))
    # 9. incomplete ESPP sell-to-cover block (no fee): unique match but incomplete data -> error
    cs.append(dict(label="espp sell-to-cover without fees", files=[
        F("espp", "espp.txt", dict(sym="FOO", date=d, purchased="57.0000", fmv="100.500000", sold="15.0000", sale="101.000000", fee=None)),
        F("tc_post", "tc.txt", post(d + 1, 15, "101.00"))]))
    # 10. no sale price and two candidate sets: ambiguous -> error
    cs.append(dict(label="espp without sale price, two candidate sets", files=[
        F("espp", "espp.txt", dict(sym="FOO", date=d, purchased="57.0000", fmv="100.500000", sold="15.0000", sale=None, fee="1.00")),
        F("tc_post", "t1.txt", post(d + 1, 15, "101.00")),
        F("tc_post", "t2.txt", post(d + 2, 15, "102.00"))]))
    # 11. matched trades with varying dates (warning), leftovers, sort by settlement date
    cs.append(dict(label="varying dates inside one sell-to-cover; settlement order differs from trade order", files=[
        F("rsu", "rsu.txt", rsu("5.0000")),
        F("tc_post", "t1.txt", post(d, 4, "106.00", sd=d + 6)),
        F("tc_post", "t2.txt", post(d + 1, 1, "106.10", sd=d + 2)),
        F("tc_post", "t3.txt", post(d - 4, 8, "150.78", sd=d + 1)),
        F("tc_post", "t4.txt", post(d + 1, 3, "150.00", sd=d + 3))]))
    # 12. nine candidate sales for one benefit (2^9-1 combinations)
    cs.append(dict(label="nine candidates", files=[F("rsu", "rsu.txt", rsu("25.0000"))] + [
        F("tc_post", "t%d.txt" % i, post(d + 1 + i % 3, qx, px)) for i, (qx, px) in enumerate(
            [(10, "106.30"), (9, "106.40"), (6, "106.50"), (5, "105.00"), (4, "120.00"), (3, "99.00"), (2, "101.00"), (1, "100.00"), (7, "108.00")])]))
    return cs


# ------------------------------------------------------------------ running

def materialise(case, root, k):
    d = os.path.join(root, "c%05d" % k)
    paths = []
    for f in case["files"]:
        p = os.path.join(d, f["path"])
        os.makedirs(os.path.dirname(p), exist_ok=True)
        with open(p, "w") as fh:
            fh.write(E.render(f))
        paths.append(p)
    return paths


def replay_obj(case, paths_texts=None):
    return {"files": [{"path": f["path"], "kind": f["kind"], "style": f.get("style", 0), "rec": f["rec"], "text": E.render(f)}
                      for f in case["files"]], "label": case.get("label")}


def check_cases(res, ctx, cases, root, offset, bins):
    st = ctx["stats"]
    paths = [materialise(c, root, offset + k) for k, c in enumerate(cases)]
    for c in cases:
        ctx.setdefault("text_files", []).extend(c["files"])      # for the text-layer pass
    impl_raw = run_harness(ctx["exe"], "extract", [{"files": p} for p in paths])
    recs = [E.records(c["files"]) for c in cases]
    tabs = [E.Tables() for _ in cases]
    enc = [E.encode(b, t, tab) for (b, t), tab in zip(recs, tabs)]
    mod_raw = run_model(enc, group="etrade")
    impls = [E.parse_impl(o) for o in impl_raw]
    # the emitted CSV through the real acb reader
    jobs = [(k, o["out"]) for k, (o, i) in enumerate(zip(impl_raw, impls)) if i["status"] == "rows"]
    acb = dict(zip([k for k, _ in jobs], run_harness(ctx["exe"], "acbparse", [{"csv": t} for _, t in jobs])))
    for k, c in enumerate(cases):
        bens, trs = recs[k]
        impl = impls[k]
        model = E.parse_model(mod_raw[k], tabs[k])
        st["evaluations"] += 1
        st["impl-" + impl["status"]] += 1
        st["benefits-%d" % len(bens)] += 1
        st["trades-%d" % min(12, len(trs))] += 1
        for f in c["files"]:
            st["layout-%s-%d" % (f["kind"], f.get("style", 0))] += 1
        ncand, multi = E.search_stats(bens, trs)
        st["max-candidates-%d" % min(12, ncand)] += 1
        if impl["status"] == "rows":
            st["rows"] += len(impl["rows"])
            st["manual-rows"] += len([r for r in impl["rows"] if r["memo"] == "(manual trade)"])
            st["warnings"] += impl["warnings"]
            if any(len(m) >= 2 for m in model.get("matched", [])):
                st["multi-trade-match"] += 1
        if impl["status"] in ("other-error", "bad-output", "panic"):
            # the text layer (not modelled) refused a generated document, or the tool crashed
            res.violation("failing-input" if impl["status"] == "panic" else "broken-correspondence",
                          "etrade-plan-pdf-tx-extract: %s on generated confirmations: %s" % (impl["status"], impl.get("detail") or impl.get("panic")),
                          {"input": replay_obj(c), "actual_impl": impl_raw[k],
                           "theorem_or_projection": "text layer accepts the rendered layouts"},
                          found_input=impl["status"] == "panic")
            continue
        h = hashlib.sha1(json.dumps(sorted((f["path"], E.render(f)) for f in c["files"])).encode()).hexdigest()
        if (ncand >= 2 or impl["status"] == "errors") and h not in ctx["seen"]:
            ctx["seen"].add(h)
            st["distinct_nontrivial"] += 1
            if multi:
                st["nontrivial-several-matching-sets"] += 1
            if len(ctx["samples"]) < 3:
                ctx["samples"].append({"files": {f["path"]: f["rec"] for f in c["files"]},
                                       "argument_order": [f["path"] for f in c["files"]],
                                       "outcome": impl["status"], "csv": impl_raw[k].get("out")})
        # 1. the property itself, on the implementation's output
        bad = E.oracle(bens, trs, impl)
        if impl["status"] == "rows":
            a = acb[k]
            if a["status"] != "ok":
                bad.append(("the emitted CSV is not readable by acb", a.get("error")))
            else:
                for r in a["rows"]:
                    if not r["ok"]:
                        zero = any(b["shares"] == 0 or b["stc_shares"] == 0 for b in bens) or any(t["shares"] == 0 for t in trs)
                        if not zero:
                            bad.append(("an emitted row is rejected by acb (Tx::try_from)", "%s: %s" % (r.get("memo"), r.get("err"))))
                st["rows-accepted-by-acb"] += len([r for r in a["rows"] if r["ok"]])
        for what, detail in bad:
            res.violation("failing-input", "%s: %s" % (what, detail),
                          {"input": replay_obj(c), "expected_spec": what, "actual_impl": impl_raw[k]})
            st["oracle-failures"] += 1
            break
        # 2. correspondence with the model
        dd = E.diff(model, impl, bens)
        if dd is not None:
            st["correspondence_diffs"] += 1
            ctx["corr_diffs"].append((c, impl_raw[k], dd))
        elif impl["status"] == "rows":
            for mr, ar in zip(model["rows"], acb[k]["rows"] if acb[k]["status"] == "ok" else []):
                if mr["accepts"] != ar["ok"]:
                    st["correspondence_diffs"] += 1
                    ctx["corr_diffs"].append((c, impl_raw[k], "acb_accepts of the model says %s, Tx::try_from says %s for row %r" % (
                        mr["accepts"], ar["ok"], ar.get("memo"))))
                    break
        # 3. the real process, for a sample
        if bins and (k < ctx["nproc_sample"]):
            exe = os.path.join(bins, "etrade-plan-pdf-tx-extract")
            home = os.path.join(root, "home")
            os.makedirs(home, exist_ok=True)
            p = subprocess.run([exe] + paths[k], stdout=subprocess.PIPE, stderr=subprocess.PIPE, text=True,
                               env=common.child_env({"HOME": home}), timeout=120)
            st["process-runs"] += 1
            if (p.returncode != 0) != (impl_raw[k]["rc"] != 0) or p.stdout != impl_raw[k]["out"]:
                res.violation("broken-correspondence",
                              "the etrade-plan-pdf-tx-extract process and run_with_args disagree (exit %d vs rc %d)" % (p.returncode, impl_raw[k]["rc"]),
                              {"theorem_or_projection": "binary vs library entry point", "input": replay_obj(c),
                               "process_stdout": p.stdout, "process_stderr": p.stderr[-1000:], "library": impl_raw[k]}, found_input=False)


# ------------------------------------------------------------------ text layer (Model/EtradeText.v)

GRANT_ROW_RE = re.compile(r"Grant Number\s+\d+")


def eso_named_grants(text):
    """number of `Grant Number <n>` rows between "Exercise Details" and the last "Exercise Date" (what the
    document says it exercises), independent of the model"""
    q = text.rfind("Exercise Date")
    if q < 0:
        return None
    p = text.rfind("Exercise Details", 0, q)      # the last one that ends before it
    if p < 0:
        return None
    return len(GRANT_ROW_RE.findall(text[p:q + len("Exercise Date")]))


def eso_regression(res, ctx, root):
    """regression case of the fixed defect c454485 through the whole tool: an exercise confirmation with a missing
    per-grant row must end in a diagnostic; the silent loss of the grant is a failing input"""
    files, lost, kept = T.eso_missing_row_witness()
    d = os.path.join(root, "eso-missing-row")
    paths = []
    for name, text in files:
        p = os.path.join(d, name)
        os.makedirs(os.path.dirname(p), exist_ok=True)
        open(p, "w").write(text)
        paths.append(p)
    o = run_harness(ctx["exe"], "extract", [{"files": paths}], nproc=1)[0]
    ctx["stats"]["eso-missing-row-regression"] += 1
    if o.get("status") == "panic":
        return          # totality is C05's; the text pass compares the outcome class with the model
    if o.get("rc") == 0:
        if lost not in o.get("out", ""):
            res.violation("failing-input", "an exercise confirmation names two grants (100 and 200 exercised shares); the tool exits 0 and the "
                          "output has no purchase for the grant whose Comission/Fee row is missing (%s)" % lost,
                          {"text_files": [{"path": n, "text": t} for n, t in files], "lost": lost, "actual_impl": o,
                           "expected_spec": "each benefit yields one purchase, or the tool reports an error"})
    elif "Exercise details are incomplete" in o.get("err", ""):
        ctx["stats"]["eso-missing-row-diagnosed"] += 1


def text_pass(res, ctx, rng, root):
    """every document the check rendered, damaged variants of them, a hand-written adversarial corpus and token
    soups: parse_pdf_text of the real code (harness mode parsetext) against the extracted model
    (Model/EtradeText.parse_text); rendered documents also against the records the generator meant
    (the statement's data is returned exactly) and the Gallina renderers against the Python ones"""
    st = ctx["stats"]
    tier = ctx["tier"]
    eso_regression(res, ctx, root)
    seen = set()
    plain = []
    for f in ctx.get("text_files", []):
        key = json.dumps([f["kind"], f.get("style", 0), f["rec"]], sort_keys=True)
        if key in seen:
            continue
        seen.add(key)
        plain.append(f)
    cap = 9000 if tier == "quick" else 30000
    if len(plain) > cap:
        plain = plain[:len(corpus()) * 4] + rng.sample(plain[len(corpus()) * 4:], cap - len(corpus()) * 4)
    docs = []          # (origin, kind, op, file-or-None, text, path)
    for f in plain:
        txt = E.render(f)
        docs.append(("rendered", f["kind"], "plain", f, txt, f["path"]))
        ops = T.damage_ops(f["kind"])
        for op in rng.sample(ops, 2 if tier == "quick" else 4):
            d = T.damage(rng, txt, op)
            if d != txt:
                docs.append(("damaged", f["kind"], op, f, d, f["path"]))
                if rng.random() < 0.15:
                    op2 = rng.choice(ops)
                    docs.append(("damaged", f["kind"], op + "+" + op2, f, T.damage(rng, d, op2), f["path"]))
    for lab, txt in T.adversarial_corpus():
        docs.append(("adversarial", lab.split()[0], lab, None, txt, "adv/doc.txt"))
    for kind in sorted(T.VOCAB):
        for _ in range(150 if tier == "quick" else 1500):
            docs.append(("soup", kind, "soup", None, T.soup(rng, kind), "soup/doc.txt"))
    impl_raw = run_harness(ctx["exe"], "parsetext", [{"text": d[4], "path": d[5]} for d in docs])
    mod_raw = run_model([T.enc_text(d[4]) for d in docs], group="etradetext")
    lay_jobs = [(i, T.enc_layout(d[3])) for i, d in enumerate(docs) if d[2] == "plain"]
    lay_jobs = [(i, e) for i, e in lay_jobs if e is not None]
    lay_out = dict(zip([i for i, _ in lay_jobs], run_model([e for _, e in lay_jobs], group="etradetext")))
    diffs, exp_fail, panics, dropped = [], [], [], []
    for i, (d, io_, mo) in enumerate(zip(docs, impl_raw, mod_raw)):
        origin, kind, op, f, txt, path = d
        impl = T.canon_impl(io_, path.split("/")[-1])
        model = T.parse_model(mo)
        st["text-docs"] += 1
        st["text-%s-%s-%s" % (origin, kind if origin != "adversarial" else "corpus", impl["status"])] += 1
        if origin == "damaged":
            st["text-damage-%s" % op.split("+")[0]] += 1
        if impl["status"] == "ok":
            st["text-records"] += len(impl["recs"])
        dd = T.diff(model, impl)
        if dd is not None:
            diffs.append((d, io_, dd))
        if impl["status"] == "panic":
            panics.append((d, io_))
        if op == "plain":
            ex = T.expected(f)
            de = T.diff(ex, impl, "printed data")
            if de is not None:
                exp_fail.append((d, io_, de))
            # the round-trip statements (C19_*_text_roundtrip, C19_text_roundtrips_full) on this record:
            # the MODEL returns the printed data
            dm = T.diff(ex, model, "printed data")
            st["text-roundtrip-statement-evaluations"] += 1
            if dm is not None:
                diffs.append((d, io_, "the model does not return the printed data of a rendered document (round-trip statement): "
                              + dm.replace("implementation", "model")))
            if i in lay_out:
                st["text-gallina-renderings"] += 1
                if T.dec_render(lay_out[i]) != txt:
                    diffs.append((d, io_, "Spec/EtradeLayout.render_%s differs from the Python renderer" % kind))
        # the property on exercise confirmations: every named grant is a benefit, or an error
        if impl["status"] == "ok" and impl["kind"] == "benefits" and any(r["note"].startswith("Option Grant") for r in impl["recs"]):
            n = eso_named_grants(txt)
            if n is not None and n > len(impl["recs"]):
                dropped.append((d, io_, n, len(impl["recs"])))
    st["text-model-diffs"] = len(diffs)
    st["text-panics-of-the-real-code"] = len(panics)
    st["text-eso-grants-silently-dropped"] = len(dropped)
    ctx["text_panics"] = [dict(kind=d[1], op=d[2], panic=io_.get("panic"), text=d[4]) for d, io_ in panics[:3]]
    for d, io_, de in exp_fail[:1]:
        res.violation("failing-input", "text layer: a document in a supported layout is not read as printed: " + de,
                      {"text_doc": {"text": d[4], "path": d[5], "kind": d[1], "rec": d[3]["rec"], "style": d[3].get("style", 0)},
                       "expected_spec": "parse_pdf_text returns the printed data of the document", "actual_impl": io_,
                       "differing_documents": len(exp_fail)})
    if dropped:
        d, io_, n, m = dropped[0]
        res.violation("failing-input", "text layer: an exercise confirmation names %d grants, %d benefits are returned and no error" % (n, m),
                      {"text_doc": {"text": d[4], "path": d[5], "kind": d[1]}, "actual_impl": io_,
                       "expected_spec": "each benefit is accounted for exactly once, or an error", "documents": len(dropped)})
    if diffs and not res.violations:
        d, io_, dd = diffs[0]
        res.violation("broken-correspondence", "text-layer model and parse_pdf_text differ (%s document, %s): %s" % (d[1], d[2], dd),
                      {"theorem_or_projection": "etrade text layer (outcome class ok/error/panic; every field of every BenefitEntry / BrokerTx)",
                       "text_doc": {"text": d[4], "path": d[5], "kind": d[1]}, "actual_impl": io_, "difference": dd,
                       "differing_documents": len(diffs)}, found_input=False)


def run(res, ctx):
    tier, seed = ctx["tier"], ctx["seed"]
    rng = random.Random(seed * 104729 + 19)
    ctx.update(stats=collections.Counter(), seen=set(), samples=[], corr_diffs=[], nproc_sample=0)
    root = os.path.join(RUNROOT, "etrade-%d-%d" % (os.getpid(), seed))
    shutil.rmtree(root, ignore_errors=True)
    os.makedirs(root, exist_ok=True)
    bins, out = common.build_bins()
    if bins is None:
        res.violation("broken-correspondence", "the repository's binaries do not build", {"theorem_or_projection": "build_bins", "log": out[-2000:]}, found_input=False)
    try:
        cs = corpus()
        ctx["nproc_sample"] = len(cs)
        check_cases(res, ctx, cs, root, 0, bins)
        n = 1500 if tier == "quick" else 8000
        nbig = 30 if tier == "quick" else 300
        batch = 500
        done = 0
        off = len(cs)
        while done < n:
            m = min(batch, n - done)
            cases = [gen_case(rng) for _ in range(m)]
            ctx["nproc_sample"] = 25 if (tier == "quick" or done < 2000) else 0
            check_cases(res, ctx, cases, root, off, bins)
            if tier == "thorough":
                shutil.rmtree(root, ignore_errors=True)
                os.makedirs(root, exist_ok=True)
            done += m
            off += m
        ctx["nproc_sample"] = 3
        check_cases(res, ctx, [gen_case(rng, big=True) for _ in range(nbig)], root, off, bins)
        text_pass(res, ctx, random.Random(seed * 7919 + 190), root)
    finally:
        shutil.rmtree(root, ignore_errors=True)
    st = ctx["stats"]
    if ctx["corr_diffs"] and not res.violations:
        c, io_, d = ctx["corr_diffs"][0]
        res.violation("broken-correspondence", "model (dec) and implementation differ: " + d,
                      {"theorem_or_projection": "correspondence projection C19 (outcome class; emitted rows in order: security, dates, action, shares, price, fees, memo; error list; warning count)",
                       "input": replay_obj(c), "actual_impl": io_, "difference": d, "differing_cases": len(ctx["corr_diffs"])},
                      found_input=False)
    res.coverage.update({
        "evaluations": st["evaluations"],
        "distinct_nontrivial": st["distinct_nontrivial"],
        "rule": "hand-written corpus (%d boundary scenarios incl. the repository's 2022 sample rebuilt from records) + seeded random sets of "
                "confirmations: 1-4 benefits (RSU/ESPP with or without or with incomplete sell-to-cover/ESO with 1-3 grants) a few days apart, their "
                "sell-to-cover split over 1-5 sales (in window, late, early, missing, wrong security, off by one), 0-8 other sales/purchases with "
                "coinciding share counts, identical sales, identical documents under one file name in two directories; both trade-confirmation "
                "layouts x 2 whitespace styles, random file names/directories and argument order; a batch with 8-13 candidate sales per benefit. "
                "Non-trivial = some benefit has >= 2 candidate sales in its window (the subset search has a choice) or the run ends in matching errors; "
                "distinct by SHA-1 of the (path, text) set" % len(corpus()),
        "samples": ctx["samples"],
        "input_distribution": {k: v for k, v in sorted(st.items())},
        "traces_validated_against_impl": st["evaluations"] - st["correspondence_diffs"],
        "text_layer": "modelled (coq/Model/EtradeText.v, theorems C19_*_text_roundtrip / C19_text_never_panics_refuted / C19_zip_truncation): "
                      "parse_pdf_text of the real code vs the extracted model on every rendered document, damaged variants (lines dropped/duplicated/"
                      "swapped/joined, truncation, repeated sections, $ and , variations, blank lines, CRLF, extra parentheses, dropped words, digit edits), "
                      "a hand-written adversarial corpus and token soups; counts per origin/kind/outcome under input_distribution text-*",
        "text_layer_documents": st["text-docs"],
        "text_layer_model_diffs": st["text-model-diffs"],
        "text_layer_panics_of_the_real_code": ctx.get("text_panics", []),
    })
    res.assumptions += [
        "the regex text layer is modelled over Unicode scalar values with ASCII digits; non-ASCII members of \\d / \\w, Unicode case folding of (?i) and invalid UTF-8 are outside the model",
        "file arguments are sorted by the tool (PathBuf order); the model receives the records in that order (computed by the check)",
        "acb acceptance of emitted rows is checked with parse_tx_csv + Tx::try_from after supplying the USD rate load_tx_rates would load; share counts are positive in generated documents",
        "u32 read_index overflow and Date saturation at 9999-12-31 are not modelled",
    ]


def replay_text(res, ctx, obj):
    """replay of a text-layer violation: one document through parse_pdf_text and the extracted model"""
    d = obj["text_doc"]
    io_ = run_harness(ctx["exe"], "parsetext", [{"text": d["text"], "path": d.get("path", "doc.txt")}], nproc=1)[0]
    mo = run_model([T.enc_text(d["text"])], nproc=1, group="etradetext")[0]
    impl = T.canon_impl(io_, d.get("path", "doc.txt").split("/")[-1])
    model = T.parse_model(mo)
    if d.get("rec") is not None:
        f = {"kind": d["kind"], "rec": d["rec"], "style": d.get("style", 0), "path": d.get("path", "doc.txt")}
        de = T.diff(T.expected(f), impl, "printed data")
        if de is not None:
            res.violation("failing-input", "text layer: a document in a supported layout is not read as printed: " + de,
                          {"text_doc": d, "actual_impl": io_})
    if impl["status"] == "ok" and impl["kind"] == "benefits" and any(r["note"].startswith("Option Grant") for r in impl["recs"]):
        n = eso_named_grants(d["text"])
        if n is not None and n > len(impl["recs"]):
            res.violation("failing-input", "text layer: an exercise confirmation names %d grants, %d benefits are returned and no error" % (n, len(impl["recs"])),
                          {"text_doc": d, "actual_impl": io_})
    dd = T.diff(model, impl)
    if dd is not None and not res.violations:
        res.violation("broken-correspondence", "text-layer model and parse_pdf_text differ: " + dd,
                      {"theorem_or_projection": "etrade text layer", "text_doc": d, "actual_impl": io_}, found_input=False)
    res.coverage.update({"evaluations": 1, "distinct_nontrivial": 1, "rule": "replay of a text-layer document", "samples": [{"outcome": impl["status"]}]})
    return res.finish(common.check_proofs("C19"))


def replay_text_files(res, ctx, obj):
    """replay of a whole-tool text regression: the files through run_with_args; a grant named in the text that is
    missing from the output of a successful run is the failure"""
    root = os.path.join(RUNROOT, "etrade-replay-%d" % os.getpid())
    paths = []
    try:
        for f in obj["text_files"]:
            p = os.path.join(root, f["path"])
            os.makedirs(os.path.dirname(p), exist_ok=True)
            open(p, "w").write(f["text"])
            paths.append(p)
        o = run_harness(ctx["exe"], "extract", [{"files": paths}], nproc=1)[0]
    finally:
        shutil.rmtree(root, ignore_errors=True)
    if o.get("rc") == 0 and obj.get("lost") and obj["lost"] not in o.get("out", ""):
        res.violation("failing-input", "the tool exits 0 and the output has no purchase for %s, which the exercise confirmation names" % obj["lost"],
                      {"text_files": obj["text_files"], "lost": obj["lost"], "actual_impl": o})
    res.coverage.update({"evaluations": 1, "distinct_nontrivial": 1, "rule": "replay of a text regression case", "samples": [{"rc": o.get("rc")}]})
    return res.finish(common.check_proofs("C19"))


def replay(res, ctx, path):
    obj = json.load(open(path))
    if "text_files" in obj:
        return replay_text_files(res, ctx, obj)
    if "text_doc" in obj:
        return replay_text(res, ctx, obj)
    case = {"files": [{"path": f["path"], "kind": f["kind"], "style": f.get("style", 0), "rec": f["rec"]} for f in obj["input"]["files"]]}
    ctx.update(stats=collections.Counter(), seen=set(), samples=[], corr_diffs=[], nproc_sample=1)
    root = os.path.join(RUNROOT, "etrade-replay-%d" % os.getpid())
    os.makedirs(root, exist_ok=True)
    bins, _ = common.build_bins()
    try:
        check_cases(res, ctx, [case], root, 0, bins)
    finally:
        shutil.rmtree(root, ignore_errors=True)
    if ctx["corr_diffs"] and not res.violations:
        c, io_, d = ctx["corr_diffs"][0]
        res.violation("broken-correspondence", "model (dec) and implementation differ: " + d,
                      {"theorem_or_projection": "correspondence projection C19", "input": replay_obj(c), "actual_impl": io_}, found_input=False)
    res.coverage.update({"evaluations": 1, "distinct_nontrivial": ctx["stats"]["distinct_nontrivial"], "rule": "replay of " + path,
                         "samples": ctx["samples"] or [{"replay": path}]})
    return res.finish(common.check_proofs("C19"))
