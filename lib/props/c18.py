# C18 - Questrade conversion keeps every trade and conserves USD cash.
#
# Correspondence: the model (coq/Model/Questrade.v, FxTracker.v, arithmetic
# `dec`) against
#   * questrade::sheet_to_txs on office::Range sheets built in memory (+ sort)
#   * tx_export_convert_impl::run_with_args on real .xlsx files written with
#     rust_xlsxwriter, with option combinations; the CSV is re-read with acb's
#     own parser
#   * the tx-export-convert binary on a few of those files (clap options)
# Oracles on the implementation's output, computed here from the generated
# activities (independent of the model):
#   one row per BUY/SELL/DIS/LIQ activity with its dates, |quantity|, price,
#   |commission|, currency, registered flag; signed sum of USD.FX shares = net
#   USD cash flow; implied rate of each conversion; same output for a second
#   column layout (permutation + unrelated / blank-headed columns); every
#   emitted row accepted by acb (Tx::try_from in the harness).
import collections
import hashlib
import json
import os
import random
import re
import subprocess
from fractions import Fraction

import common
from common import run_harness, run_model, qenc
from qtlib import enc_text, enc_list, model_reader, known_findings, dfrac

BASE_HEADERS = ["Transaction Date", "Settlement Date", "Action", "Symbol", "Description", "Quantity", "Price",
                "Gross Amount", "Commission", "Net Amount", "Currency", "Account #", "Activity Type", "Account Type"]
USED = ["Action", "Transaction Date", "Settlement Date", "Account Type", "Account #", "Currency", "Net Amount",
        "Symbol", "Price", "Quantity", "Commission"]
COL_ID = {"Action": 1, "Transaction Date": 2, "Settlement Date": 3, "Account Type": 4, "Account #": 5, "Currency": 6,
          "Net Amount": 7, "Symbol": 8, "Price": 9, "Quantity": 10, "Commission": 11}
ACCOUNTS = [("Individual margin", "12345678"), ("Individual TFSA", "55550001"), ("Individual RRSP", "7770002"),
            ("Family RESP", "8880003"), ("Joint Margin", "99990004"), ("Spousal rrsp", "1110005")]
SYMBOLS = ["FOO", "BAR.TO", "XYZ", "H038778", "VTI", "DLR.TO", "QQQ"]
IGNORED = ["BRW", "TFI", "TF6", "MGR", "DEP", "NAC", "CON", "INT", "EFT", "RDM", ""]
TIMES = [" 12:00:00 AM", " 12:00:00 AM", " 12:00:00 AM", " 09:30:00 AM", ""]


# ------------------------------------------------------------ generation
def case_word(rng, w):
    r = rng.random()
    return w if r < 0.5 else (w.lower() if r < 0.75 else w.capitalize())


def dstr(rng, lo, hi, places):
    v = Fraction(rng.randrange(lo * 10 ** places, hi * 10 ** places), 10 ** places)
    s = "%.*f" % (places, float(v))
    return s


def gen_date(rng, base_day):
    d = base_day + rng.randrange(0, 6)
    m, dd = 1 + (d // 28) % 12, 1 + d % 28
    return "2023-%02d-%02d" % (m, dd)


def gen_activities(rng, well_formed=True):
    """a list of activities; when well_formed, every row converts without error"""
    n = rng.choice([0, 1, 2, 3, 5, 8, 12, 20])
    accounts = rng.sample(ACCOUNTS, rng.choice([1, 1, 1, 2, 3]))
    acts = []
    day = rng.randrange(0, 300)
    for _ in range(n):
        if rng.random() < 0.6:
            day += rng.choice([0, 0, 0, 1, 2, 9])
        acct = rng.choice(accounts)
        td = "2023-%02d-%02d" % (1 + (day // 28) % 12, 1 + day % 28)
        sday = day + rng.choice([0, 1, 2, 2])
        sd = "2023-%02d-%02d" % (1 + (sday // 28) % 12, 1 + sday % 28) if sday // 28 < 12 else "2024-01-%02d" % (1 + sday % 28)
        tm = rng.choice(TIMES)
        base = {"td": td + tm, "sd": sd + rng.choice(TIMES), "acct": acct, "sym": "", "qty": None, "price": None,
                "comm": None, "net": None, "cur": rng.choice(["CAD", "USD", "USD", "CAD", "usd", ""])}
        k = rng.random()
        if k < 0.5:
            action = rng.choice(["Buy", "Sell", "Buy", "Sell", "DIS", "LIQ"])
            q = dstr(rng, 1, 500, rng.choice([0, 0, 2, 4]))
            if action in ("Sell", "LIQ") and rng.random() < 0.8:
                q = "-" + q
            if action == "Buy" and rng.random() < 0.05:
                q = "-" + q
            price = dstr(rng, 0, 400, rng.choice([2, 2, 4])) if action != "DIS" else "0"
            comm = rng.choice(["0", "-4.95", "-9.99", "4.95", "-0.01", "-" + dstr(rng, 0, 20, 2)])
            if action == "DIS" and rng.random() < 0.7:
                comm = "0"
            if action == "LIQ" and rng.random() < 0.2:
                price = "0"          # a liquidation at no price, possibly with a fee
            base.update(kind="trade", action=case_word(rng, action), sym=rng.choice(SYMBOLS), qty=q, price=price,
                        comm=comm, net="0")
            acts.append(base)
        elif k < 0.65:
            base.update(kind="div", action=case_word(rng, "DIV"), sym=rng.choice(SYMBOLS), qty="0", price="0",
                        comm="0", net=dstr(rng, 0, 300, 2))
            if Fraction(base["net"]) == 0:
                base["net"] = "0.01"
            if rng.random() < 0.25:
                base["net"] = "-" + base["net"]     # a dividend correction / claw-back
            acts.append(base)
        elif k < 0.8:
            usd = dstr(rng, 1, 5000, 2)
            rate = Fraction(rng.randrange(120, 145), 100)
            cad = "%.2f" % float(Fraction(usd) * rate)
            if rng.random() < 0.5:
                usd = "-" + usd
            else:
                cad = "-" + cad
            a = dict(base, kind="fxt", action="FXT", cur="CAD", net=cad, qty="0", price="0", comm="0")
            b = dict(base, kind="fxt", action="FXT", cur="USD", net=usd, qty="0", price="0", comm="0")
            pair = [a, b] if rng.random() < 0.5 else [b, a]
            acts += pair
        else:
            base.update(kind="ignored", action=case_word(rng, rng.choice(IGNORED)), sym=rng.choice(SYMBOLS + [""]),
                        qty=rng.choice(["0", "5"]), price="0", comm="0", net=dstr(rng, 0, 100, 2))
            acts.append(base)
    if not well_formed and acts:
        for _ in range(rng.choice([1, 1, 2])):
            if not acts:
                break
            a = rng.choice(acts)
            m = rng.random()
            if m < 0.12:
                a["action"] = rng.choice(["XYZ", "Bought", "Buy "])
            elif m < 0.22:
                a["td"] = rng.choice(["2023-13-01", "01/02/2023", "", "2023-02-30 12:00:00 AM", "20230101"])
            elif m < 0.3:
                a["sd"] = rng.choice(["2023-00-10", "junk", "2023-1-1"])
            elif m < 0.4:
                # another currency; for an FXT row also the pair's other currency (two CAD / two USD rows)
                a["cur"] = rng.choice(["EUR", "GBP"]) if a["kind"] != "fxt" or rng.random() < 0.4 else rng.choice(["CAD", "USD"])
            elif m < 0.5:
                a["qty"] = rng.choice(["0", "abc", "", "1.2.3", "TRUE"])
            elif m < 0.58:
                a["price"] = rng.choice(["-1.5", "", "x"])
            elif m < 0.66:
                a["sym"] = ""
            elif m < 0.76 and a["kind"] == "fxt":
                a["net"] = rng.choice(["0", "100.00", "-100.00", ""])
            elif m < 0.86:
                acts.remove(a)          # may unpair an FXT
            elif m < 0.93 and a["kind"] == "fxt":
                a["acct"] = rng.choice(ACCOUNTS)
            else:
                a["net"] = rng.choice(["0", "", "n/a"])
    return acts


def date_ok(s):
    return re.match(r"^\d{4}-\d{2}-\d{2}", s) is not None and valid_date(s[:10])


def activities_well_formed(acts):
    """the executable hypothesis of the C18 theorems, on the generated
    activities: every row converts, conversions are adjacent CAD/USD pairs
    with non-zero legs of opposite sign, quantities are non-zero, prices are
    not negative, USD dividends are non-zero, currencies are CAD or USD"""
    i = 0
    while i < len(acts):
        a = acts[i]
        act = a["action"].upper()
        if act in IGNORED:
            i += 1
            continue
        if act not in ("BUY", "SELL", "DIS", "LIQ", "FXT", "DIV"):
            return False
        if not date_ok(a["td"]) or not date_ok(a["sd"]):
            return False
        cur = a["cur"].upper() or "CAD"
        if act == "FXT":
            if i + 1 >= len(acts) or acts[i + 1]["action"].upper() != "FXT":
                return False
            b = acts[i + 1]
            if not date_ok(b["td"]) or not date_ok(b["sd"]):
                return False
            if sorted([cur, b["cur"].upper() or "CAD"]) != ["CAD", "USD"]:
                return False
            if not is_num(a["net"]) or not is_num(b["net"]):
                return False
            x, y = Fraction(a["net"]), Fraction(b["net"])
            if x == 0 or y == 0 or x * y > 0:
                return False
            if a["td"][:10] != b["td"][:10] or a["acct"] != b["acct"]:
                return False
            i += 2
            continue
        if not row_plain_ok(a):
            return False
        i += 1
    return True


def row_plain_ok(a):
    act = a["action"].upper()
    cur = a["cur"].upper() or "CAD"
    if a["sym"] == "":
        return False
    if act == "DIV":
        if cur == "USD":
            return is_num(a["net"]) and Fraction(a["net"]) != 0
        return True
    if cur not in ("CAD", "USD"):
        return False
    if not (is_num(a["qty"]) and is_num(a["price"]) and is_num(a["comm"])):
        return False
    if Fraction(a["qty"]) == 0 or Fraction(a["price"]) < 0:
        return False
    return True


def is_num(s):
    return s is not None and re.match(r"^-?\d+(\.\d+)?$", s) is not None


def valid_date(s):
    y, m, d = int(s[:4]), int(s[5:7]), int(s[8:10])
    if not (1 <= m <= 12) or d < 1:
        return False
    dim = [31, 29 if (y % 4 == 0 and y % 100 != 0) or y % 400 == 0 else 28, 31, 30, 31, 30, 31, 31, 30, 31, 30, 31][m - 1]
    return d <= dim


# ------------------------------------------------------------ sheets
def num_cell(rng_style, s):
    if s is None or s == "":
        return None
    if not is_num(s):
        return {"s": s} if s not in ("TRUE",) else {"b": True}
    if rng_style == "str":
        return {"s": s}
    if rng_style == "int" and re.match(r"^-?\d+$", s):
        return {"i": int(s)}
    return {"f": s}


def row_cells(a, style):
    acct_num = {"i": int(a["acct"][1])} if style.get("acct_int") else {"s": a["acct"][1]}
    return {"Transaction Date": {"s": a["td"]} if a["td"] != "" else None,
            "Settlement Date": {"s": a["sd"]}, "Action": {"s": a["action"]} if a["action"] != "" or style.get("empty_str") else None,
            "Symbol": {"s": a["sym"]} if a["sym"] else None, "Description": {"s": "some description, with comma"},
            "Quantity": num_cell(style["num"], a["qty"]), "Price": num_cell(style["num"], a["price"]),
            "Gross Amount": {"f": "0"}, "Commission": num_cell(style["num"], a["comm"]),
            "Net Amount": num_cell(style["num"], a["net"]), "Currency": {"s": a["cur"]} if a["cur"] else None,
            "Account #": acct_num, "Activity Type": {"s": "Trades"}, "Account Type": {"s": a["acct"][0]}}


def gen_style(rng):
    return {"num": rng.choice(["float", "float", "float", "str", "int"]), "acct_int": rng.random() < 0.3,
            "empty_str": rng.random() < 0.5}


def canonical_layout():
    return [("named", h) for h in BASE_HEADERS]


def gen_layout(rng, blanks=True):
    cols = [("named", h) for h in BASE_HEADERS]
    rng.shuffle(cols)
    if rng.random() < 0.3:
        cols = [c for c in cols if c[1] in USED]           # unrelated columns removed
    for _ in range(rng.choice([0, 1, 1, 2, 3])):
        kind = rng.choice(["other", "other", "blank", "blank", "number", "bool"] if blanks else ["other"])
        hdr = {"other": {"s": rng.choice(["Notes", "Foo", "action", "Price ", "Net", "Quantity2"])}, "blank": None,
               "number": {"f": "7"}, "bool": {"b": True}}[kind]
        cols.insert(rng.randrange(len(cols) + 1), ("extra", hdr, rng.choice(["junk", "num", "empty", "date"])))
    return cols


def build_sheet(acts, style, layout):
    hdr = [({"s": c[1]} if c[0] == "named" else c[1]) for c in layout]
    rows = [hdr]
    for a in acts:
        rc = row_cells(a, style)
        row = []
        for c in layout:
            if c[0] == "named":
                row.append(rc[c[1]])
            else:
                row.append({"junk": {"s": "junk"}, "num": {"f": "3.25"}, "empty": None, "date": {"s": "2020-02-02"}}[c[2]])
        rows.append(row)
    return rows


# ------------------------------------------------------------ encoding for the model
def enc_cell(c):
    if c is None:
        return [0]
    if "s" in c:
        return [1] + enc_text(c["s"])
    if "i" in c:
        return [2, c["i"]]
    if "f" in c:
        d = c.get("d")
        return [3] + ([1] + qenc(Fraction(d)) if d is not None else [0]) + enc_text(c["f"])
    if "b" in c:
        return [4, int(c["b"])]
    raise ValueError("cell %r is not modelled" % (c,))


def enc_opt(v, f):
    return [0] if v is None else [1] + f(v)


def enc_run(sheet, opts, arith=1, policy=1):
    out = [10, arith, policy]
    out += enc_opt(opts.get("account_lit"), enc_text) + enc_opt(opts.get("security_lit"), enc_text)
    out += [int(bool(opts.get("no_fx"))), int(bool(opts.get("no_sort")))]
    out += enc_opt(opts.get("usd_exchange_rate"), lambda r: qenc(Fraction(r)))
    out += enc_list(sheet, lambda row: enc_list(row, enc_cell))
    return out


def read_run(ints):
    rd = model_reader(ints)

    def body():
        tag = rd.z()
        if tag == 0:
            return ("fatal", [], rd.lst(lambda: (rd.z(), rd.z())))
        if tag == 1:
            return ("accounts", [], [])
        rows = rd.lst(lambda: read_btx(rd))
        return ("out", rows, rd.lst(lambda: (rd.z(), rd.z())))
    return rd.res(body)


def read_btx(rd):
    t = {"sec": rd.text()}
    t["td"] = "%04d-%02d-%02d" % (rd.z(), rd.z(), rd.z())
    t["sd"] = "%04d-%02d-%02d" % (rd.z(), rd.z(), rd.z())
    t["tdt"], t["sdt"] = rd.text(), rd.text()
    t["act"] = "Buy" if rd.z() else "Sell"
    t["price"], t["shares"], t["comm"] = rd.q(), rd.q(), rd.q()
    t["cur"] = rd.text()
    t["rate"] = rd.q() if rd.z() else None
    t["reg"] = bool(rd.z())
    t["row"] = rd.z()
    t["acct"] = [rd.text(), rd.text()]
    tb = rd.z()
    t["tb"] = tb if tb else None
    return t


FULL_KEYS = ["sec", "td", "sd", "tdt", "sdt", "act", "price", "shares", "comm", "cur", "rate", "reg", "row", "acct", "tb"]
CSV_KEYS = ["sec", "td", "sd", "act", "price", "shares", "comm", "cur", "rate", "reg"]


def impl_btx(o, keys):
    t = {}
    for k in keys:
        v = o.get(k)
        if k in ("price", "shares", "comm", "rate"):
            v = dfrac(v)
        if k == "reg":
            v = bool(v)
        t[k] = v
    return t


ERR_PATTERNS = [
    (r"Sheet contained no column '(.*)'", lambda m: 100 + COL_ID.get(m.group(1), 0)),
    (r"Unrecognized transaction action", lambda m: 2000),
    (r"Unable to parse number from .* in ([A-Za-z #]+):", lambda m: 400 + COL_ID.get(m.group(1), 0)),
    (r"value in (.*) was empty", lambda m: 500 + COL_ID.get(m.group(1), 0)),
    (r"(?:true|false) in (.*) not convertible", lambda m: 600 + COL_ID.get(m.group(1), 0)),
    (r" in (.*) unconvertible to Decimal", lambda m: 700 + COL_ID.get(m.group(1), 0)),
    (r"Symbol was empty", lambda m: 2200),
    (r"FXTs not supported between", lambda m: 2300),
    (r"were on different dates", lambda m: 2400),
    (r"were in different accounts", lambda m: 2500),
    (r"Both FXTs have positive", lambda m: 2600),
    (r"Both FXTs have negative", lambda m: 2700),
    (r"has a zero .* amount", lambda m: 2650),
    (r"FX currency .* not supported", lambda m: 2800),
    (r"Unpaired FXT", lambda m: 2900),
]


def err_class(msg):
    m = re.match(r"^Row (\d+): (.*)$", msg, re.S)
    if not m:
        return (0, -1)
    row, body = int(m.group(1)), m.group(2)
    for pat, f in ERR_PATTERNS:
        mm = re.search(pat, body)
        if mm:
            return (row, f(mm))
    return (row, 2100)     # date errors (regex miss or the time crate's parse error)


def canon_err(e):
    r, c = e
    return (r, 2100 if 2100 <= c < 2200 else c)


def sheet_with_decimals(dump):
    """the decoded sheet reported by the harness -> cells for the model"""
    out = []
    for row in dump:
        out.append([None if c is None else c for c in row])
    return out


def has_unmodelled(dump):
    return any(c is not None and "e" in c for row in dump for c in row)


# ------------------------------------------------------------ oracles
def lookup(dump, name):
    """index of the column under header `name` (a later duplicate wins), by name"""
    idx = None
    for j, c in enumerate(dump[0]):
        if c is not None and c.get("s") == name:
            idx = j
    return idx


def cell_value(c):
    if c is None:
        return None
    if "d" in c:
        return Fraction(c["d"]) if c["d"] is not None else None
    if "i" in c:
        return Fraction(c["i"])
    if "s" in c and is_num(c["s"]):
        return Fraction(c["s"])
    return None


def cell_text(c):
    if c is None:
        return ""
    if "s" in c:
        return c["s"]
    if "i" in c:
        return str(c["i"])
    if "f" in c:
        return c["f"]
    return ""


def expected_from_sheet(dump, account_re=None, security_re=None):
    """From the decoded sheet (cells found under the named headers) of a
    well-formed export: the trade rows the converter must emit, the USD cash
    flow per account filter, and the conversions."""
    col = {h: lookup(dump, h) for h in USED}
    trades, flows, convs = [], Fraction(0), []
    pending = None
    for r, row in enumerate(dump[1:], start=2):
        g = lambda h: row[col[h]] if col[h] is not None else None
        act = cell_text(g("Action")).upper()
        if act in IGNORED:
            continue
        acct = cell_text(g("Account Type")) + " " + cell_text(g("Account #"))
        keep = account_re is None or re.search(account_re, acct) is not None
        reg = re.search(r"rrsp|tfsa|resp", cell_text(g("Account Type")), re.I) is not None
        cur = cell_text(g("Currency")).upper() or "CAD"
        td, sd = cell_text(g("Transaction Date"))[:10], cell_text(g("Settlement Date"))[:10]
        if act == "FXT":
            amt = cell_value(g("Net Amount"))
            if pending is None:
                pending = (cur, amt)
            else:
                legs = dict([pending, (cur, amt)])
                pending = None
                if keep:
                    flows += legs["USD"]
                    convs.append({"usd": legs["USD"], "cad": legs["CAD"], "row": r, "td": td, "reg": reg})
            continue
        if act == "DIV":
            if cur == "USD" and keep:
                flows += cell_value(g("Net Amount"))
            continue
        sym = cell_text(g("Symbol"))
        sym = "DLR.TO" if sym == "H038778" else sym
        q, p, c = cell_value(g("Quantity")), cell_value(g("Price")), cell_value(g("Commission"))
        buy = act in ("BUY", "DIS")
        if keep and (security_re is None or re.search(security_re, sym)):
            trades.append({"sec": sym, "td": td, "sd": sd, "act": "Buy" if buy else "Sell", "shares": abs(q), "price": p,
                           "comm": abs(c), "cur": cur, "reg": reg})
        if cur == "USD" and keep:
            flows += (-p * abs(q) if buy else p * abs(q)) - abs(c)
    return trades, flows, convs


def trade_key(t):
    return (t["sec"], t["td"], t["sd"], t["act"], t["shares"], t["price"], t["comm"], t["cur"], t["reg"])


def check_oracles(res, ctx, case, rows, opts, dump, errors, label):
    """rows: implementation output (dicts with Fractions); only called for
    well-formed exports (no conversion error expected)"""
    st = ctx["stats"]
    rep = dict(case_kind="export", export=case, opts=opts, path=label)
    if errors:
        res.violation("failing-input", "well-formed export: conversion reported errors %s" % errors[:3],
                      dict(rep, actual_impl=errors, expected_spec="no error"))
        return
    acc_re, sec_re = opts.get("account"), opts.get("security")
    trades, flows, convs = expected_from_sheet(dump, acc_re, sec_re)
    out_trades = [r for r in rows if not r["sec"].endswith(".FX")]
    out_fx = [r for r in rows if r["sec"].endswith(".FX")]
    st["oracle_trade_rows"] += len(trades)
    # one row per trade
    exp_keys = [trade_key(t) for t in trades]
    got_keys = [trade_key(t) for t in out_trades]
    same = (exp_keys == got_keys) if opts.get("no_sort") else (sorted(exp_keys, key=repr) == sorted(got_keys, key=repr))
    if not same:
        missing = [k for k in exp_keys if k not in got_keys]
        extra = [k for k in got_keys if k not in exp_keys]
        res.violation("failing-input", "one row per BUY/SELL/DIS/LIQ activity violated: missing %s unexpected %s" % (missing[:2], extra[:2]),
                      dict(rep, expected_spec=repr(exp_keys[:6]), actual_impl=repr(got_keys[:6])))
        return
    if not opts.get("no_sort"):
        # settlement date, then (when the date texts are known) the date text,
        # trades before FX rows, FX buys before FX sells
        def okey(r):
            fxk = 0 if not r["sec"].endswith(".FX") else (1 if r["act"] == "Buy" else 2)
            return (r["sd"], r.get("sdt") or "", fxk) if "sdt" in r else (r["sd"],)
        keys = [okey(r) for r in rows]
        bad = False
        if keys != sorted(keys) or bad:
            res.violation("failing-input", "output not ordered by settlement date / FX buys before FX sells",
                          dict(rep, actual_impl=repr([(r["sec"], r["sd"], r["act"]) for r in rows][:12])))
            return
    # USD cash
    if opts.get("no_fx"):
        if out_fx:
            res.violation("failing-input", "--no-fx but FX rows emitted", dict(rep, actual_impl=repr(out_fx[:3])))
        return
    if sec_re is None or re.search(sec_re, "USD.FX"):
        st["oracle_cash_checks"] += 1
        total = sum((r["shares"] if r["act"] == "Buy" else -r["shares"]) for r in out_fx)
        if total != flows:
            res.violation("failing-input", "USD cash not conserved: sum of signed USD.FX shares %s, net USD cash flow of the export %s" % (total, flows),
                          dict(rep, expected_spec=str(flows), actual_impl=str(total)))
            return
        # implied rates
        if opts.get("usd_exchange_rate") is None:
            with_rate = [r for r in out_fx if r["rate"] is not None]
            exp = sorted(((abs(c["usd"]), abs(c["cad"] / c["usd"])) for c in convs), key=repr)
            got = sorted(((r["shares"], r["rate"]) for r in with_rate), key=repr)
            ok = len(exp) == len(got) and all(a[0] == b[0] and abs(a[1] - b[1]) <= Fraction(1, 10 ** 24) for a, b in zip(exp, got))
            st["oracle_conversions"] += len(exp)
            if not ok:
                res.violation("failing-input", "conversion rows do not carry CAD leg / USD leg: expected %s got %s" % (exp[:3], got[:3]),
                              dict(rep, expected_spec=repr(exp), actual_impl=repr(got)))
                return
        else:
            want = Fraction(opts["usd_exchange_rate"])
            if any(r["rate"] != want for r in rows if r["cur"] == "USD"):
                res.violation("failing-input", "--usd-exchange-rate not applied to every USD row", rep)
                return
    bad = [(r["sec"], r["td"], r.get("accepted")) for r in rows if r.get("accepted") is not True]
    st["oracle_rows_fed_to_acb"] += len(rows)
    if bad:
        res.violation("failing-input", "emitted row rejected by acb: %s" % (bad[:2],), dict(rep, actual_impl=repr(bad[:5])))


# ------------------------------------------------------------ the in-memory path
def model_cells(dump):
    return [[c for c in row] for row in dump]


def compare_model(ctx, name, case_rep, m, impl_status, impl_rows, impl_errs, keys):
    """m = result of read_run; returns True when equal"""
    st = ctx["stats"]
    if m[0] == "panic" or impl_status == "panic":
        ok = m[0] == "panic" and impl_status == "panic"
        if not ok:
            st["corr_diffs"] += 1
            ctx["corr"].append((name, case_rep, "model %r, implementation status %s" % (m[:2], impl_status)))
        return ok
    kind, rows, errs = m[1]
    if any(900 <= c < 1000 for _, c in errs):
        st["model_gap_skipped"] += 1
        return True
    m_rows = [{k: r[k] for k in keys} for r in rows]
    a = (kind, m_rows, sorted(canon_err(e) for e in errs))
    b = (impl_status, impl_rows, sorted(canon_err(e) for e in impl_errs))
    if a != b:
        st["corr_diffs"] += 1
        d = "status %s/%s" % (a[0], b[0])
        if a[1] != b[1]:
            for i, (x, y) in enumerate(zip(a[1], b[1])):
                if x != y:
                    d += "; row %d: model %r implementation %r" % (i, x, y)
                    break
            else:
                d += "; %d/%d rows" % (len(a[1]), len(b[1]))
        if a[2] != b[2]:
            d += "; errors model %r implementation %r" % (a[2][:4], b[2][:4])
        ctx["corr"].append((name, case_rep, d))
        return False
    return True


def run_sheet_batch(res, ctx, cases):
    """cases: dicts {acts, style, layout, layout2, sort, wf}"""
    st = ctx["stats"]
    hc = []
    for c in cases:
        hc.append({"cells": build_sheet(c["acts"], c["style"], c["layout"]), "sort": c["sort"]})
        hc.append({"cells": build_sheet(c["acts"], c["style"], c["layout2"]), "sort": c["sort"]})
    impl = run_harness(ctx["exe"], "qt_sheet", hc)
    enc = []
    for i, c in enumerate(cases):
        for j in (0, 1):
            enc.append(enc_run(impl[2 * i + j]["sheet"], {"account_lit": "", "no_sort": not c["sort"]})
                       if not has_unmodelled(impl[2 * i + j]["sheet"]) else [10])
    mod = run_model(enc, group="questrade")
    for i, c in enumerate(cases):
        outs = []
        for j in (0, 1):
            o = impl[2 * i + j]
            st["evaluations"] += 1
            st["sheet_runs"] += 1
            rep = {"case_kind": "sheet", "acts": c["acts"], "style": c["style"], "layout": c["layout" if j == 0 else "layout2"],
                   "sort": c["sort"]}
            status = o.get("status")
            rows = [impl_btx(t, FULL_KEYS) for t in o.get("txs", [])]
            errs = [err_class(e) for e in o.get("errors", [])]
            st["sheet_status_" + str(status)] += 1
            if o.get("sheet") is not None and not has_unmodelled(o["sheet"]):
                m = read_run(mod[2 * i + j])
                compare_model(ctx, "sheet_to_txs (+sort)", rep, m, "out" if status == "ok" else status, rows, errs, FULL_KEYS)
            outs.append((status, rows, sorted(errs), o))
        # layout oracle: same activities, second layout
        a, b = outs
        st["layout_pairs"] += 1
        if (a[0], a[1], a[2]) != (b[0], b[1], b[2]):
            what = "output depends on the column layout: "
            if a[2] != b[2]:
                what += "errors %s vs %s" % (a[3].get("errors", [])[:2], b[3].get("errors", [])[:2])
            else:
                what += "%d vs %d rows" % (len(a[1]), len(b[1]))
            res.violation("failing-input", what,
                          {"case_kind": "layout", "acts": c["acts"], "style": c["style"], "layout": c["layout"],
                           "layout2": c["layout2"], "sort": c["sort"],
                           "expected_spec": "same transactions and errors for both layouts",
                           "actual_impl": {"layout": a[3].get("errors", [])[:3], "layout2": b[3].get("errors", [])[:3],
                                           "rows": [len(a[1]), len(b[1])]}})
            continue
        if c["wf"]:
            st["well_formed_exports"] += 1
            o = a[3]
            rows = [dict(impl_btx(t, FULL_KEYS), accepted=t.get("accepted")) for t in o.get("txs", [])]
            check_oracles(res, ctx, {"acts": c["acts"], "style": c["style"], "layout": c["layout"]}, rows,
                          {"no_sort": not c["sort"], "account": None}, o["sheet"], o.get("errors", []), "memory")
        h = hashlib.sha1(json.dumps(c["acts"], sort_keys=True).encode()).hexdigest()
        if h not in ctx["seen"] and nontrivial(c["acts"]):
            ctx["seen"].add(h)
            st["distinct_nontrivial"] += 1
            if len(ctx["samples"]) < 2:
                ctx["samples"].append({"activities": c["acts"][:6], "layout2": c["layout2"]})


def nontrivial(acts):
    kinds = set(a["kind"] for a in acts)
    usd_trade = any(a["kind"] == "trade" and a["cur"].upper() == "USD" for a in acts)
    return usd_trade and len(acts) >= 2 or "fxt" in kinds


# ------------------------------------------------------------ the file path
# (regex given to --account, the literal substring it is equivalent to on the generated "{type} {number}" account strings)
ACCOUNT_OPTS = [(None, None), (".", ""), ("TFSA", "TFSA"), ("12345678", "12345678"), ("margin", "margin"), ("RRSP 777", "RRSP 777"),
                ("^Individual margin", "Individual margin"), ("^Joint Margin 99990004$", "Joint Margin 99990004"),
                ("^Family", "Family"), ("0005$", "0005"), ("^Spousal rrsp 1110005$", "Spousal rrsp 1110005")]
SECURITY_OPTS = [(None, None), (None, None), ("FOO", "FOO"), ("USD", "USD"), ("TO", "TO"), ("X", "X")]


def gen_opts(rng, acts):
    accts = sorted(set(tuple(a["acct"]) for a in acts))
    acc = rng.choice(ACCOUNT_OPTS)
    if len(accts) > 1 and rng.random() < 0.7:
        acc = rng.choice(ACCOUNT_OPTS[1:])
    sec = rng.choice(SECURITY_OPTS)
    return {"account": acc[0], "account_lit": acc[1], "security": sec[0], "security_lit": sec[1],
            "no_fx": rng.random() < 0.25, "no_sort": rng.random() < 0.3,
            "usd_exchange_rate": rng.choice([None, None, "1.3", "1.25"])}


def harness_opts(o):
    return {k: o[k] for k in ("account", "security", "no_fx", "no_sort", "usd_exchange_rate") if o.get(k) not in (None, False)}


def run_file_batch(res, ctx, cases, keep=False):
    st = ctx["stats"]
    d = os.path.join(common.BUILD, "run", "questrade", "s%d-%d" % (ctx["seed"], os.getpid()))
    os.makedirs(d, exist_ok=True)
    hc = []
    for i, c in enumerate(cases):
        c["path"] = os.path.join(d, "export_%s_%d.xlsx" % (ctx.get("batch", "b"), i))
        hc.append({"cells": build_sheet(c["acts"], c["style"], c["layout"]), "opts": harness_opts(c["opts"]),
                   "path": c["path"], "keep": keep})
    impl = run_harness(ctx["exe"], "qt_file", hc)
    enc = [enc_run(o["sheet"], c["opts"]) if "sheet" in o and not has_unmodelled(o["sheet"]) else None for c, o in zip(cases, impl)]
    mod = run_model([e for e in enc if e is not None], group="questrade")
    mi = iter(mod)
    for c, o, e in zip(cases, impl, enc):
        st["evaluations"] += 1
        st["file_runs"] += 1
        rep = {"case_kind": "file", "acts": c["acts"], "style": c["style"], "layout": c["layout"], "opts": c["opts"]}
        if o.get("status") == "panic":
            status, rows, errs = "panic", [], []
        else:
            acb = o["acb"]
            if "parse_err" in acb:
                res.violation("failing-input", "acb cannot read the converted CSV: %s" % acb["parse_err"],
                              dict(rep, actual_impl=o["out"][:2000]))
                continue
            rows = [dict(impl_btx(t, CSV_KEYS), accepted=t.get("accepted")) for t in acb.get("rows", [])]
            errs = [err_class(l[3:] if l.startswith(" - ") else l) for l in o["err"].replace("Errors:", "").replace("Error:", "").split("\n") if l.strip().startswith("- Row") or l.strip().startswith("Row")]
            if o["out"] == "":
                status = "accounts" if "multiple accounts" in o["err"] else "fatal"
            else:
                status = "out"
            for r in rows:
                # the CSV shows the default currency explicitly; normalise absent currency
                r["cur"] = r["cur"] or "CAD"
        st["file_status_" + status] += 1
        if e is not None:
            m = read_run(next(mi))
            compare_model(ctx, "run_with_args on an .xlsx file", rep, m, status,
                          [{k: r[k] for k in CSV_KEYS} for r in rows], errs if status == "out" else [], CSV_KEYS)
            if m[0] == "ok" and m[1][0] == "out" and status == "out" and bool(m[1][2]) == o["ok"]:
                res.violation("failing-input", "exit status does not reflect the row errors", dict(rep, actual_impl={"ok": o["ok"], "err": o["err"]}))
        if c["wf"] and status == "out":
            st["well_formed_file_exports"] += 1
            check_oracles(res, ctx, {"acts": c["acts"], "style": c["style"], "layout": c["layout"]}, rows, c["opts"],
                          o["sheet"], [l for l in o["err"].split("\n") if "Row" in l], "file")
        c["impl_out"] = o.get("out")
    return impl


def run_binary(res, ctx, cases):
    """the same files through the real tx-export-convert process (clap option
    parsing): stdout must be the CSV the in-process run produced"""
    st = ctx["stats"]
    bins, out = common.build_bins()
    if bins is None:
        res.violation("broken-correspondence", "the repository's binaries do not build", {"theorem_or_projection": "tx-export-convert build", "log": out[-2000:]}, found_input=False)
        return
    exe = os.path.join(bins, "tx-export-convert")
    for c in cases:
        args = [exe]
        o = c["opts"]
        if o.get("account") is not None:
            args += ["--account", o["account"]]
        if o.get("security") is not None:
            args += ["--security=" + o["security"]]
        if o.get("no_fx"):
            args.append("--no-fx")
        if o.get("no_sort"):
            args.append("--no-sort")
        if o.get("usd_exchange_rate"):
            args += ["--usd-exchange-rate", o["usd_exchange_rate"]]
        args.append(c["path"])
        home = os.path.join(common.BUILD, "run", "questrade", "home")
        os.makedirs(home, exist_ok=True)
        p = subprocess.run(args, stdout=subprocess.PIPE, stderr=subprocess.PIPE, text=True, env=common.child_env({"HOME": home}), timeout=120)
        st["binary_runs"] += 1
        st["evaluations"] += 1
        if p.stdout != c.get("impl_out"):
            res.violation("failing-input", "tx-export-convert (process) prints a different CSV than run_with_args for the same file and options",
                          {"case_kind": "file", "acts": c["acts"], "style": c["style"], "layout": c["layout"], "opts": o,
                           "actual_impl": p.stdout[:1500], "expected_spec": (c.get("impl_out") or "")[:1500]})
        try:
            os.remove(c["path"])
        except OSError:
            pass


# ------------------------------------------------------------ corpus
def corpus():
    mk = lambda **k: dict({"td": "2023-01-03 12:00:00 AM", "sd": "2023-01-05 12:00:00 AM", "acct": ACCOUNTS[0], "sym": "FOO",
                           "qty": "10", "price": "12.5", "comm": "-4.95", "net": "-129.95", "cur": "USD", "kind": "trade",
                           "action": "Buy"}, **k)
    simple = [mk(), mk(action="Sell", qty="-3", price="13", cur="CAD", td="2023-01-04 12:00:00 AM", sd="2023-01-06 12:00:00 AM")]
    blank_before_qty = [("named", h) for h in BASE_HEADERS[:5]] + [("extra", None, "junk")] + [("named", h) for h in BASE_HEADERS[5:]]
    blank_front = [("extra", None, "junk")] + canonical_layout()
    style = {"num": "float", "acct_int": False, "empty_str": False}
    dup_qty = [("extra", {"s": "Quantity"}, "num")] + canonical_layout() + [("extra", {"s": "Price"}, "num")]
    conv = [mk(kind="fxt", action="FXT", cur="CAD", net="-1350.00", sym="", qty="0", price="0", comm="0"),
            mk(kind="fxt", action="FXT", cur="USD", net="1000.00", sym="", qty="0", price="0", comm="0"),
            mk(kind="div", action="DIV", cur="USD", net="12.34", qty="0", price="0", comm="0"),
            mk(action="DIS", qty="2", price="0", comm="0"), mk(action="LIQ", qty="-1.5", price="3.25", comm="0", acct=ACCOUNTS[0]),
            mk(kind="ignored", action="DEP", sym="", net="500")]
    return [
        {"acts": simple, "style": style, "layout": canonical_layout(), "layout2": blank_before_qty, "sort": True, "wf": True},
        {"acts": simple, "style": style, "layout": canonical_layout(), "layout2": blank_front, "sort": True, "wf": True},
        {"acts": conv, "style": style, "layout": canonical_layout(), "layout2": list(reversed(canonical_layout())), "sort": True, "wf": True},
        {"acts": conv + simple, "style": dict(style, num="str"), "layout": canonical_layout(), "layout2": blank_front, "sort": False, "wf": True},
        {"acts": [], "style": style, "layout": canonical_layout(), "layout2": blank_front, "sort": True, "wf": True},
        # a conversion whose foreign-currency row has a net amount of 0: a row error (it divided by zero until fix b2d4739)
        {"acts": [mk(kind="fxt", action="FXT", cur="CAD", net="-1.00", sym="", qty="0", price="0", comm="0"),
                  mk(kind="fxt", action="FXT", cur="USD", net="0", sym="", qty="0", price="0", comm="0")] + simple,
         "style": style, "layout": canonical_layout(), "layout2": blank_front, "sort": True, "wf": False},
        # a duplicated named header: the later column wins (same layout twice: no layout oracle)
        {"acts": simple, "style": style, "layout": dup_qty, "layout2": dup_qty, "sort": True, "wf": False},
    ]


def init_ctx(ctx):
    ctx.update(stats=collections.Counter(), seen=set(), samples=[], corr=[])


def finish(res, ctx):
    st = ctx["stats"]
    if ctx["corr"] and not any(f for _, f in res.violations):
        name, case, d = ctx["corr"][0]
        res.violation("broken-correspondence", "model and implementation differ (%s): %s" % (name, d),
                      dict(case, theorem_or_projection="correspondence projection C18: " + name,
                           differing_cases=len(ctx["corr"])), found_input=False)
    res.coverage.update({
        "evaluations": st["evaluations"],
        "distinct_nontrivial": st["distinct_nontrivial"],
        "rule": "seeded activity lists (0-20 rows: BUY/SELL/DIS/LIQ with Questrade sign conventions, USD and CAD, DIV, paired FXT conversions, ignored activities, 1-3 accounts incl. registered ones, same-day rows, and perturbed rows for the error paths) rendered under two column layouts each (permutation, unrelated / blank-headed / non-string-headed extra columns) as in-memory office::Range sheets, plus real .xlsx files with option combinations (--account, --security, --no-fx, --no-sort, --usd-exchange-rate) and a few runs of the tx-export-convert process; non-trivial = contains an FXT conversion or a USD trade next to another row; distinct by SHA-1 of the activity list",
        "samples": ctx["samples"],
        "input_distribution": {k: v for k, v in sorted(st.items())},
        "traces_validated_against_impl": st["evaluations"],
    })
    res.assumptions += [
        "xlsx decoding (office crate) is not modelled: the model starts from the decoded sheet reported by the harness",
        "f64 -> Decimal (Decimal::from_f64) and f64 Display are not modelled: Float cells carry the values computed by the real code",
        "--account / --security are exercised with literal patterns (the theorems hold for arbitrary predicates; the regex crate is not modelled)",
        "Decimal::from_str is modelled for [+-]?digits[.digits] within 96 bits / 28 decimals; memo text and non-ASCII case mapping are not modelled",
        "accepted-by-acb: a USD row without a rate is given a positive day rate in the harness, as load_tx_rates would (the rate loader is the subject of C12-C14)",
    ]


def run(res, ctx):
    tier, seed = ctx["tier"], ctx["seed"]
    rng = random.Random(seed * 15485863 + 18)
    init_ctx(ctx)
    q = tier == "quick"
    run_sheet_batch(res, ctx, corpus())
    n_mem = 2100 if q else 40000
    batch = 700
    done = 0
    while done < n_mem:
        cases = []
        for _ in range(min(batch, n_mem - done)):
            wf = rng.random() < 0.7
            acts = gen_activities(rng, well_formed=wf)
            cases.append({"acts": acts, "style": gen_style(rng), "layout": canonical_layout() if rng.random() < 0.5 else gen_layout(rng),
                          "layout2": gen_layout(rng), "sort": rng.random() < 0.7, "wf": activities_well_formed(acts)})
        run_sheet_batch(res, ctx, cases)
        done += len(cases)
    n_file = 400 if q else 8000
    fcases = []
    for _ in range(n_file):
        wf = rng.random() < 0.75
        acts = gen_activities(rng, well_formed=wf)
        fcases.append({"acts": acts, "style": gen_style(rng), "layout": gen_layout(rng), "opts": gen_opts(rng, acts),
                       "wf": activities_well_formed(acts)})
    ctx["batch"] = "f"
    run_file_batch(res, ctx, fcases)
    bcases = []
    for _ in range(8 if q else 40):
        acts = gen_activities(rng, well_formed=True)
        bcases.append({"acts": acts, "style": gen_style(rng), "layout": gen_layout(rng), "opts": gen_opts(rng, acts),
                       "wf": activities_well_formed(acts)})
    ctx["batch"] = "p"
    run_file_batch(res, ctx, bcases, keep=True)
    run_binary(res, ctx, bcases)
    try:
        os.rmdir(os.path.join(common.BUILD, "run", "questrade", "s%d-%d" % (ctx["seed"], os.getpid())))
    except OSError:
        pass
    finish(res, ctx)


def replay(res, ctx, path):
    rep = json.load(open(path))
    init_ctx(ctx)
    kind = rep.get("case_kind")
    if kind in ("layout", "sheet"):
        c = {"acts": rep["acts"], "style": rep["style"], "layout": rep["layout"], "layout2": rep.get("layout2", rep["layout"]),
             "sort": rep.get("sort", True), "wf": activities_well_formed(rep["acts"])}
        run_sheet_batch(res, ctx, [c])
    elif kind == "export":
        e = rep["export"]
        if rep.get("path") == "file":
            run_file_batch(res, ctx, [{"acts": e["acts"], "style": e["style"], "layout": e["layout"], "opts": rep["opts"], "wf": True}])
        else:
            run_sheet_batch(res, ctx, [{"acts": e["acts"], "style": e["style"], "layout": e["layout"], "layout2": e["layout"],
                                        "sort": not rep["opts"].get("no_sort"), "wf": True}])
    elif kind == "file":
        run_file_batch(res, ctx, [{"acts": rep["acts"], "style": rep["style"], "layout": rep["layout"], "opts": rep["opts"],
                                   "wf": activities_well_formed(rep["acts"])}])
    finish(res, ctx)
    return res.finish(common.check_proofs("C18"))
