# Shared helpers of the questrade group (C18, C20): integer encodings for the
# extracted model (coq/Exec/CodecQuestrade.v), known-findings access.
import json
import os
from fractions import Fraction

from common import VERIF, Reader


def enc_text(s):
    return [len(s)] + [ord(c) for c in s]


def enc_list(items, f):
    out = [len(items)]
    for x in items:
        out += f(x)
    return out


def enc_ns(l):
    return [len(l)] + [int(x) for x in l]


class R(Reader):
    def text(self):
        n = self.z()
        return "".join(chr(self.z()) for _ in range(n))

    def lst(self, f):
        n = self.z()
        return [f() for _ in range(n)]

    def ns(self):
        return self.lst(self.z)

    def res(self, f):
        """res encoding of the codec: ('ok', payload) | ('rej', class) | ('panic', site)"""
        t = self.z()
        if t == 0:
            return ("ok", f())
        if t == 1:
            return ("rej", self.z())
        return ("panic", self.z())


def model_reader(ints):
    rd = R(ints)
    tag = rd.z()
    if tag != 1:
        raise RuntimeError("model rejected its input (code %s)" % tag)
    return rd


def known_findings(prop):
    """entries of known-findings.json and of the group's fragment
    known-findings.d/<prop>.json (the former is assembled from the latter)"""
    out = []
    seen = set()
    for p in (os.path.join(VERIF, "known-findings.json"),
              os.path.join(VERIF, "known-findings.d", prop + ".json")):
        if os.path.exists(p):
            for k in json.load(open(p)).get("findings", []):
                if k.get("property") == prop and k.get("id") not in seen:
                    seen.add(k.get("id"))
                    out.append(k)
    return out


def dfrac(s):
    """decimal text -> Fraction"""
    if s is None:
        return None
    return Fraction(s)
