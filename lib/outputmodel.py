# The output layer inside the model: drive the extracted Gallina model of the
# writers (coq/Model/Output.v, group "output": write_render_result, CsvWriter,
# TextWriter) and compare what the REAL acb binary writes with it -
#   --csv-output-dir: the set of files, every record of every file cell by
#     cell, the closing line on stdout, the exit code; into a fresh directory,
#     into a directory used by an earlier (larger) run, and into a directory in
#     which one of the file names cannot be created (this shows the ORDER of
#     the writes: the files written are those before the blocked one);
#   text mode: the sequence of error lines, titles, notes, empty lines and the
#     closing line; the drawn table is not modelled, every cell text of the
#     model's block must occur in it.
# Two ties:
#   A (literal): the model is run on the implementation's own render model
#     (the RenderTables returned by run_acb_app_to_render_model through the
#     harness, every string a literal): this is csv.rs / text.rs / approot.rs
#     write_render_result against Model/Output.v alone, byte for byte;
#   B (pipeline): the model runs ledger -> gains -> render -> writers on the
#     case itself (Model/Render.v cells as piece lists; names, error messages
#     and costs tables supplied): cells are matched as in rendermodel.py
#     (literals byte for byte, numeric leaves by value).
import collections
import csv
import io
import json
import os
import re
import shutil
import subprocess
import tempfile

import core
import corecheck
import gen
import rendermodel
from common import run_model, Reader, build_bins, child_env, BUILD, VERIF, load_known

RESERVED = {"aggregate-gains": None, "total-costs": "costs", "yearly-max-costs": "costs"}


# ------------------------------------------------------------------ encoding
def enc_bytes(b):
    return [len(b)] + list(b)


def enc_lit(s):
    """a string the model is given completely: one literal piece ('' is the empty text)"""
    b = s.encode()
    return [0] if not b else [1, 0] + enc_bytes(b)


def enc_pieces(pieces):
    out = [len(pieces)]
    for k, v in pieces:
        if k == "lit":
            out += [0] + enc_bytes(v)
        elif k == "num":
            out += [1, v.numerator, v.denominator]
        else:
            out += [{"sec": 2, "day": 3, "aff": 4, "memo": 5}[k], v]
    return out


def enc_texts(l, enc=enc_lit):
    out = [len(l)]
    for s in l:
        out += enc(s)
    return out


def enc_table(t, enc=enc_lit):
    out = enc_texts(t["header"], enc)
    out.append(len(t["rows"]))
    for r in t["rows"]:
        out += enc_texts(r, enc)
    return out + enc_texts(t["footer"], enc) + enc_texts(t["notes"], enc) + enc_texts(t["errors"], enc)


def enc_costs(rj, costs):
    if costs and "costs_total" in rj:
        return [1] + enc_table(rj["costs_total"]) + enc_table(rj["costs_yearly"])
    return [0]


def enc_app(rj, costs, order=None):
    """rj: the harness's render JSON; order: the order in which the securities are listed (any
    permutation: the model sorts)"""
    names = list(rj["secs"]) if order is None else order
    out = [len(names)]
    for n in names:
        out += enc_bytes(n.encode()) + enc_table(rj["secs"][n])
    return out + enc_table(rj["agg"]) + enc_costs(rj, costs)


def enc_dir(d):
    """d: {name: ('file', records as piece lists) | ('partial',) | ('blocked',)} in list order"""
    out = [len(d)]
    for name, e in d:
        out += enc_bytes(name.encode())
        if e[0] == "file":
            out += [0, len(e[1])]
            for rec in e[1]:
                out.append(len(rec))
                for cell in rec:
                    out += enc_pieces(cell)
        else:
            out.append(1 if e[0] == "partial" else 2)
    return out


def literal_ints(rj, costs, mode, d0=(), order=None):
    return [0, mode] + (enc_dir(list(d0)) if mode == 0 else []) + enc_app(rj, costs, order)


def pipeline_ints(case, full, rj, costs, mode, d0=()):
    """entry 1: the core case, currencies, precision mode, names and error messages by security
    number, the implementation's costs tables"""
    ints, st, at = rendermodel.pipeline_ints(case, 1)
    names = [n for n, _ in sorted(st.items(), key=lambda kv: kv[1])]
    out = [1, mode] + (enc_dir(list(d0)) if mode == 0 else []) + ints[1:] + [int(full)]
    out.append(len(names))
    for n in names:
        out += enc_bytes(n.encode())
    out.append(len(names))
    for n in names:
        errs = rj["secs"].get(n, {}).get("errors", [])
        out += enc_lit(errs[0] if errs else "")
    return out + enc_costs(rj, costs), st, at


# ------------------------------------------------------------------ decoding
def rd_bytes(rd):
    return bytes(rd.z() for _ in range(rd.z()))


def rd_list(rd, f):
    return [f(rd) for _ in range(rd.z())]


def rd_record(rd):
    return rd_list(rd, rendermodel.rd_pieces)


def rd_records(rd):
    return rd_list(rd, rd_record)


def rd_fail(rd):
    k = rd.z()
    if k == 0:
        return None
    if k == 1:
        ot = rd.z()
        name = rd_bytes(rd).decode()
        return {"kind": "write", "table": ["transactions", "aggregate", "costs", "raw"][ot], "name": name,
                "cause": ["create", "record"][rd.z()]}
    return {"kind": "panic", "panic": (rd.z(), rd.z())}


def rd_item(rd):
    if rd.z() == 0:
        return ("line", rendermodel.rd_pieces(rd))
    return ("table", rd_records(rd))


def rd_entry(rd):
    name = rd_bytes(rd).decode()
    k = rd.z()
    if k == 0:
        return name, ("file", rd_records(rd))
    return name, (("partial",) if k == 1 else ("blocked",))


def rd_section(rd):
    return {"errors": rd_list(rd, rendermodel.rd_pieces), "title": rendermodel.rd_pieces(rd),
            "block": rd_records(rd), "notes": rd_list(rd, rendermodel.rd_pieces)}


def rd_mode(rd, mode):
    out = {"fail": rd_fail(rd), "errsecs": [b.decode() for b in rd_list(rd, rd_bytes)]}
    if mode == 0:
        out["dir"] = rd_list(rd, rd_entry)
        out["log"] = [b.decode() for b in rd_list(rd, rd_bytes)]
        out["stdout"] = rd_list(rd, rd_item)
    elif mode == 1:
        out["sections"] = rd_list(rd, rd_section)
        out["stdout"] = rd_list(rd, rd_item)
    else:
        out["stream"] = rd_list(rd, rd_records)
    return out


def parse_out(ints, mode, pipeline=False):
    rd = Reader(ints)
    st = rd.z()
    if st != 1:
        return {"status": "model-error", "code": st}
    if pipeline:
        k = rd.z()
        if k == 1:
            return {"status": "err", "rej": rd.z()}
        if k == 2:
            return {"status": "panic", "panic": (rd.z(), rd.z())}
    out = rd_mode(rd, mode)
    assert rd.done()
    out["status"] = "ok"
    return out


# ------------------------------------------------------------------ the real binary
def run_acb(bindir, files, args, outdir=None, prepare=None):
    """one run in a scratch HOME; with outdir (kept by the caller) in -d mode.  returns (rc, stdout, stderr)"""
    d = tempfile.mkdtemp(prefix="outm-", dir=os.path.join(BUILD, "run"))
    try:
        paths = []
        for i, f in enumerate(files):
            p = os.path.join(d, "in%d.csv" % i)
            open(p, "w").write(f)
            paths.append(p)
        argv = [os.path.join(bindir, "acb")] + args + (["-d", outdir] if outdir else []) + paths
        p = subprocess.run(argv, stdout=subprocess.PIPE, stderr=subprocess.PIPE, text=True,
                           env=child_env({"HOME": d}), cwd=d, timeout=120)
        return p.returncode, p.stdout, p.stderr
    finally:
        shutil.rmtree(d, ignore_errors=True)


def read_dir(outdir):
    """{file name: list of records} (directories: None)"""
    out = {}
    if os.path.isdir(outdir):
        for fn in sorted(os.listdir(outdir)):
            p = os.path.join(outdir, fn)
            if os.path.isdir(p):
                out[fn] = None
            else:
                with open(p, newline="") as f:
                    out[fn] = list(csv.reader(io.StringIO(f.read())))
    return out


# ------------------------------------------------------------------ comparison
def text_of(pieces):
    """the string of an all-literal text (tie A)"""
    return b"".join(v for k, v in pieces if k == "lit").decode()


def all_literal(pieces):
    return all(k == "lit" for k, _ in pieces)


def cell_diff(pieces, s, names):
    if all_literal(pieces):
        return None if text_of(pieces) == s else "model %r" % text_of(pieces)
    return rendermodel.match_cell(pieces, s, names)


def piece_rx(pieces, names):
    rx = []
    for k, v in rendermodel.merge(pieces):
        if k == "lit":
            rx.append(re.escape(v.decode()))
        elif k == "num":
            rx.append(rendermodel.NUMRE)
        elif k == "sec":
            rx.append(re.escape(names["sec"].get(v, "?%d" % v)))
        else:
            rx.append(r"[^\n]*")
    return "".join(rx)


def compare_dir(mdir, real, names, stats, tag):
    """mdir: the model's directory (list of (name, entry)); real: read_dir.  returns mismatches"""
    out = []
    mfiles = {n: e for n, e in mdir}
    for n in sorted(set(mfiles) | set(real)):
        e = mfiles.get(n)
        if e is None:
            out.append({"kind": "extra-file", "file": n, "what": "%s: file %s exists, the model's directory has no such file" % (tag, n)})
            continue
        if e[0] == "blocked":
            if n not in real or real[n] is not None:
                out.append({"kind": "other", "file": n, "what": "%s: the blocked name %s was replaced" % (tag, n)})
            continue
        if e[0] == "partial":
            continue
        if n not in real or real[n] is None:
            out.append({"kind": "missing-file", "file": n, "what": "%s: file %s was not written (the model's directory holds it with %d records)" % (tag, n, len(e[1]))})
            continue
        stats["files"] += 1
        recs = real[n]
        for j, mrec in enumerate(e[1]):
            if j >= len(recs):
                out.append({"kind": "missing-record", "file": n, "record": j,
                            "what": "%s: %s ends after %d records, the model has %d; first missing record starts with %r" % (
                                tag, n, len(recs), len(e[1]), piece_rx(mrec[0], names)[:120] if mrec else "")})
                break
            stats["records"] += 1
            if len(recs[j]) != len(mrec):
                out.append({"kind": "other", "file": n, "record": j,
                            "what": "%s: record %d of %s has %d fields, model %d" % (tag, j, n, len(recs[j]), len(mrec))})
                break
            bad = False
            nm = names
            if len(mrec) == 16 and recs[j][3] == "SfLA" and "memo" in names:
                nm = dict(names, memo={})      # rows generated by the ledger carry a generated memo (not modelled)
            for c, (mp, ic) in enumerate(zip(mrec, recs[j])):
                stats["cells"] += 1
                d = cell_diff(mp, ic, nm)
                if d is not None and c == 14 and len(mrec) == 16 and all_literal(mp) and text_of(mp).lower() == ic.lower():
                    # the spelling of an affiliate's name is that of its first occurrence IN THE PROCESS (a global
                    # table): the harness process has seen other cases before this one
                    stats["affiliate-spelling-differs-by-case"] += 1
                    d = None
                if d is not None:
                    out.append({"kind": "other", "file": n, "record": j,
                                "what": "%s: record %d field %d of %s is %r; %s" % (tag, j, c, n, ic, d)})
                    bad = True
                    break
            if bad:
                break
        else:
            if len(recs) > len(e[1]):
                out.append({"kind": "extra-record", "file": n, "record": len(e[1]),
                            "what": "%s: %s holds %d records, the model %d; first extra record %r" % (
                                tag, n, len(recs), len(e[1]), recs[len(e[1])][:3])})
    return out


def compare_stdout(items, stdout, names, stats, tag, check_blocks=True):
    """items: the model's standard output (lines and opaque tables); returns mismatches"""
    out = []
    pos = 0
    k = 0
    n = len(items)
    while k < n:
        kind, v = items[k]
        if kind == "line":
            m = re.compile(piece_rx(v, names) + "\n").match(stdout, pos)
            stats["lines"] += 1
            if m is None:
                out.append({"kind": "other", "what": "%s: standard output item %d: expected line %r, found %r" % (
                    tag, k, piece_rx(v, names)[:160], stdout[pos:pos + 160])})
                return out
            pos = m.end()
            k += 1
            continue
        # a drawn table: it ends where the following lines (up to the next table) begin
        j = k + 1
        rx = ""
        while j < n and items[j][0] == "line":
            rx += piece_rx(items[j][1], names) + "\n"
            j += 1
        rxc = re.compile(rx + ("" if j < n else r"\Z"))
        q = pos
        end = None
        while True:
            nl = stdout.find("\n", q)
            if nl < 0:
                break
            q = nl + 1
            if rxc.match(stdout, q):
                end = q
                break
        if end is None or end == pos:
            out.append({"kind": "other", "what": "%s: standard output item %d: no drawn table followed by %r at %r" % (
                tag, k, rx[:160], stdout[pos:pos + 120])})
            return out
        block = stdout[pos:end]
        stats["tables"] += 1
        if check_blocks:
            for rec in v:
                for cell in rec:
                    if not all_literal(cell):
                        continue
                    for line in text_of(cell).split("\n"):
                        stats["block-cell-lines"] += 1
                        if line.strip() and line.strip() not in block and not (
                                len(rec) == 16 and cell is rec[14] and line.strip().lower() in block.lower()):
                            out.append({"kind": "other", "what": "%s: the drawn table (item %d) does not show the cell text %r" % (tag, k, line)})
                            return out
        pos = end
        k += 1
    if pos != len(stdout):
        out.append({"kind": "other", "what": "%s: standard output continues after the model's last item: %r" % (tag, stdout[pos:pos + 200])})
    return out


def message_oracle(rj, real_files, text_stdout, costs, stats):
    """C04, independent of the model: every error message of the implementation's render model
    is a record "[!] <message>" of the security's file and a line "[!] <message>" of the text
    report; the closing line names exactly the securities with errors, sorted.  returns
    (mismatches, securities skipped because their file name is reserved)"""
    out, reserved = [], []
    bad = sorted((s.encode(), s) for s, t in rj["secs"].items() if t["errors"])
    names = [s for _, s in bad]
    for s in names:
        for msg in rj["secs"][s]["errors"]:
            stats["messages"] += 1
            if text_stdout is not None and ("[!] %s\n" % msg) not in text_stdout:
                out.append({"kind": "missing-error", "mode": "text", "security": s, "message": msg,
                            "what": "text mode does not show the error message of %s" % s})
            if real_files is not None:
                if s in RESERVED and (RESERVED[s] is None or costs):
                    reserved.append(s)
                    continue
                recs = real_files.get(s + ".csv") or []
                if not any(r and r[0] == "[!] " + msg for r in recs):
                    out.append({"kind": "missing-error", "mode": "csv-output-dir", "security": s, "message": msg,
                                "what": "--csv-output-dir mode: the error message of %s is not among the records of %s.csv" % (s, s)})
    closing = "[!] There are errors for the following securities: " + ", ".join(names) + "\n" if names else None
    return out, reserved, closing


# ------------------------------------------------------------------ cases
def _row(sec, day, act, sh=None, aps=None, af=None, **kw):
    r = {"sec": sec, "td": core.BASE_DAY + day, "sd": core.BASE_DAY + day + 2, "act": act,
         "com": None, "cur": None, "rate": None, "af": af}
    if sh is not None:
        r["sh"] = core.D(sh)
    if aps is not None:
        r["aps"] = core.D(aps)
    r.update(kw)
    return r


def corpus():
    cs = []
    # a security rejected at its very first row (a table without data rows), alone
    cs.append({"rows": [_row("FIRST", 10, "Sell", 5, 3)], "inits": {}})
    # two rejected securities around a healthy one whose name has a space
    cs.append({"rows": [_row("FIRST", 10, "Sell", 5, 3), _row("Good one", 11, "Buy", 5, 3), _row("Good one", 50, "Sell", 2, 4),
                        _row("AAA", 10, "Sell", 1, 1)], "inits": {}})
    # several rejected securities, names whose byte order differs from a case-insensitive order
    rows = []
    for k, s in enumerate(["Zed", "abc", "Brk.b", "BRK.A", "aXa", "brk.b", "ZED"]):
        rows.append(_row(s, 10 + k, "Sell", 1 + k, 1))
    rows += [_row("Mid", 5, "Buy", 3, 3), _row("Mid", 400, "Sell", 1, 5)]
    cs.append({"rows": rows, "inits": {}})
    # rejected at a later row, after a superficial loss (notes and errors in one table)
    cs.append({"rows": [_row("LATE", 1, "Buy", 10, 10), _row("LATE", 100, "Sell", 5, 5), _row("LATE", 105, "Buy", 5, 5),
                        _row("LATE", 300, "Sell", 50, 4), _row("OK", 3, "Buy", 1, 1)], "inits": {}})
    # a foreign currency, a registered affiliate, a split; an opening position
    cs.append({"rows": [_row("FOO", 1, "Buy", 10, 12, cur="USD", rate=core.D(13333, 4), com=core.D(999, 2)),
                        _row("FOO", 80, "Split", split=("3", "2")),
                        _row("FOO", 300, "Sell", 4, 9, af="Spouse (R)"),
                        _row("BAR", 2, "Buy", 4, 7), _row("BAR", 200, "Sell", 4, 8, memo="a memo, with a comma and \"quotes\"")],
               "inits": {"BAR": (core.D(7), core.D(70005, 3))}})
    return cs + rendermodel.corpus()


def collision_case():
    """securities whose transaction file has the name of a report file (known finding
    reserved-file-name): 'aggregate-gains' is rejected, its file is replaced by the aggregate table"""
    return {"rows": [_row("aggregate-gains", 10, "Sell", 5, 3), _row("total-costs", 11, "Buy", 5, 3),
                     _row("GOOD", 12, "Buy", 5, 3), _row("GOOD", 90, "Sell", 5, 4)], "inits": {}}


RENAMES = [{"FOO": "Foo Bar", "BAR": "bar", "QUX": "Q.X"}, {"FOO": "foo", "BAR": "FOo", "QUX": "Fo o"}]


def gen_cases(rng, n):
    cs = []
    for _ in range(n):
        c = gen.gen_case(rng, p_invalid=rng.choice([0.05, 0.3, 0.6]), p_sfl_spec=0.0)
        if rng.random() < 0.35:
            ren = rng.choice(RENAMES)
            for r in c["rows"]:
                r["sec"] = ren.get(r["sec"], r["sec"])
            c["inits"] = {ren.get(s, s): v for s, v in c["inits"].items()}
        cs.append(c)
    return cs


def smaller(rng, case):
    rows = case["rows"]
    secs = sorted(set(r["sec"] for r in rows))
    if len(secs) > 1 and rng.random() < 0.5:
        s0 = rng.choice(secs)
        rows2 = [r for r in rows if r["sec"] == s0]
    else:
        rows2 = rows[:rng.randint(1, max(1, len(rows) - 1))]
    keep = set(r["sec"] for r in rows2)
    return {"rows": rows2, "inits": {s: v for s, v in case.get("inits", {}).items() if s in keep}}


def known_ids(prop):
    ids = {k["id"] for k in load_known(prop)}
    p = os.path.join(VERIF, "known-findings.d", prop + ".json")
    if os.path.exists(p):
        ids |= {k["id"] for k in json.load(open(p)).get("findings", []) if k.get("property") == prop}
    return ids


def run_cases_fresh(ctx, cases, width=16):
    """corecheck.run_cases(render=True, costs=True) with ONE harness process per case: the spelling of an
    affiliate's name (in the Affiliate column and inside error messages) is that of its first occurrence in
    the process, so the implementation's render model must come from a process that has seen this case only,
    like the acb process it is compared with"""
    import hashlib
    from common import run_harness
    hc = [{"files": c.get("files") or corecheck.split_files(c["rows"]), "init": gen.init_specs(c),
           "render": True, "costs": True} for c in cases]
    impl_raw = []
    for i in range(0, len(hc), width):
        chunk = hc[i:i + width]
        impl_raw += run_harness(ctx["exe"], "core", chunk, nproc=len(chunk))
    enc = [core.to_ints(c, 1) for c in cases]
    dec_raw = run_model([e[0] for e in enc])
    out = []
    for k, c in enumerate(cases):
        e = enc[k]
        out.append({"case": c, "hc": hc[k], "st": e[1], "at": e[2], "raw": impl_raw[k],
                    "impl": core.parse_impl(impl_raw[k], e[1], e[2]), "dec": core.parse_model(dec_raw[k]),
                    "hash": hashlib.sha1(("\n".join(hc[k]["files"]) + repr(hc[k]["init"])).encode()).hexdigest()})
    return out


# ------------------------------------------------------------------ the pass
def check_pass(res, ctx, prop, rng):
    """prop: 'C04' (a missing error message is a failing input) or 'C06' (a stale / extra record
    is a failing input); every other difference is reported without a failing input"""
    tier = ctx["tier"]
    stats = collections.Counter()
    bindir, blog = build_bins()
    if bindir is None:
        res.violation("broken-correspondence", "the acb binary does not build", {"theorem_or_projection": "CLI build", "log": blog[-2000:]}, found_input=False)
        return
    os.makedirs(os.path.join(BUILD, "run"), exist_ok=True)
    reported = collections.Counter()

    def report(mm, replay):
        kind = mm["kind"]
        reported[kind] += 1
        if reported[kind] > 2:
            return
        rp = dict(replay)
        rp.update({k: v for k, v in mm.items() if k not in ("what", "kind")})
        if prop == "C04" and kind == "missing-error":
            res.violation("failing-input", mm["what"], rp)
        elif prop == "C06" and kind == "extra-record":
            res.violation("failing-input", mm["what"] + " (the file holds records that are not in the render model of this input)", rp)
        elif prop == "C06" and kind in ("missing-record", "missing-file"):
            res.violation("failing-input", mm["what"] + " (a record of the render model does not reach the file)", rp)
        else:
            rp["theorem_or_projection"] = "output files (Model/Output.v csv_dir_output / text_stdout against the real binary)"
            res.violation("broken-correspondence", "output model and the real binary differ: " + mm["what"], rp, found_input=False)

    corp = corpus()
    ngen = 40 if tier == "quick" else 400
    cases = corp + gen_cases(rng, ngen)
    # pairs for the reused directory: a smaller input after each of some cases
    pairs = {}
    for k in range(len(cases)):
        if len(cases[k]["rows"]) >= 3 and (k < len(corp) or rng.random() < 0.6):
            pairs[k] = len(cases)
            cases.append(smaller(rng, cases[k]))
    coll = len(cases)
    cases.append(collision_case())
    rs = run_cases_fresh(ctx, cases)
    small_of = set(pairs.values())

    jobs = []        # (case index, full, costs)
    for k, r in enumerate(rs):
        if k in small_of:
            continue
        if k < len(corp) or k == coll:
            combos = [(f, c) for f in (False, True) for c in (False, True)]
        else:
            combos = [(rng.random() < 0.5, rng.random() < 0.5)]
        for f, c in combos:
            jobs.append((k, f, c))

    def rj_of(r, full):
        rj = r["raw"].get("render_full" if full else "render_cents")
        return rj if isinstance(rj, dict) and "secs" in rj else None

    def cli_args(r, full, costs):
        return (["--print-full-values"] if full else []) + (["--total-costs"] if costs else []) + sum((["-b", x] for x in r["hc"]["init"]), [])

    # ---- tie A: the model on the implementation's own render model
    mjobs, mints = [], []
    for (k, full, costs) in jobs:
        r = rs[k]
        rj = rj_of(r, full)
        if rj is None:
            stats["skipped:no-render-model"] += 1
            continue
        order = sorted(rj["secs"], key=lambda s: rng.random())      # any order: the model sorts
        mjobs.append((k, full, costs, rj))
        mints.append(literal_ints(rj, costs, 0, order=order))
        mints.append(literal_ints(rj, costs, 1, order=order))
    mouts = run_model(mints, group="output")
    base = tempfile.mkdtemp(prefix="outm-dirs-", dir=os.path.join(BUILD, "run"))
    names0 = {"sec": {}, "aff": {}}
    pipeline_jobs = []
    try:
        for idx, (k, full, costs, rj) in enumerate(mjobs):
            r = rs[k]
            md = parse_out(mouts[2 * idx], 0)
            mt = parse_out(mouts[2 * idx + 1], 1)
            replay = {"input": r["hc"], "args": cli_args(r, full, costs)}
            if md["status"] != "ok" or mt["status"] != "ok":
                report({"kind": "other", "what": "the extracted output model did not evaluate the case (%s)" % md.get("code")}, replay)
                continue
            stats["cases"] += 1
            args = cli_args(r, full, costs)
            files = r["hc"]["files"]
            # text mode
            rc, so, se = run_acb(bindir, files, args)
            stats["runs:text"] += 1
            if "panicked at" in se:
                stats["skipped:cli-panic"] += 1
                continue
            mm = compare_stdout(mt["stdout"], so, names0, stats, "text mode")
            if (rc == 0) != (mt["fail"] is None):
                mm.append({"kind": "other", "what": "text mode: exit code %d, model %s" % (rc, mt["fail"])})
            stats["sections"] += len(mt["sections"])
            # -d, fresh directory
            fresh = os.path.join(base, "f%d" % idx)
            rc2, so2, se2 = run_acb(bindir, files, args, outdir=fresh)
            stats["runs:dir-fresh"] += 1
            real = read_dir(fresh)
            mm += compare_dir(md["dir"], real, names0, stats, "-d (fresh directory)")
            mm += compare_stdout(md["stdout"], so2, names0, stats, "-d mode", check_blocks=False)
            if (rc2 == 0) != (md["fail"] is None):
                mm.append({"kind": "other", "what": "-d mode: exit code %d, model %s" % (rc2, md["fail"])})
            if sorted(set(md["log"])) != sorted(n for n in real):
                mm.append({"kind": "other", "what": "-d mode: files %s, the model writes %s" % (sorted(real), md["log"])})
            # the oracle of C04 on the real outputs
            om, reserved, closing = message_oracle(rj, real, so, costs, stats)
            mm = om + mm
            for s in reserved:
                stats["reserved-name-securities"] += 1
            if closing is not None:
                stats["closing-lines"] += 2
                for mode, text in (("text", so), ("csv-output-dir", so2)):
                    if not text.endswith("\n" + closing):
                        mm.append({"kind": "other", "mode": mode,
                                   "what": "%s mode: the report does not end with the line %r but with %r" % (mode, closing, text[-200:])})
            elif "There are errors" in so + so2:
                mm.append({"kind": "other", "what": "a closing error line although no table carries an error"})
            if reserved:
                yield_known = "reserved-file-name"
                real_lost = [s for s in reserved
                             if not any(rec and rec[0].startswith("[!] ") for rec in (real.get(s + ".csv") or []))]
                if real_lost:
                    stats["known:reserved-file-name"] += 1
                    if yield_known in known_ids("C04"):
                        if prop == "C04" and not stats["known-printed"]:
                            stats["known-printed"] += 1
                            res.known("with --csv-output-dir the transactions file of a security named like a report file "
                                      "(aggregate-gains, total-costs, yearly-max-costs) is replaced by that report: its rows and "
                                      "its error message reach no file (witness still fails: %s)" % ", ".join(real_lost))
                    else:
                        report({"kind": "missing-error", "mode": "csv-output-dir", "security": real_lost[0],
                                "what": "--csv-output-dir mode: the file of the rejected security %s is replaced by a report table; its error message reaches no file" % real_lost[0]}, replay)
            for m_ in mm[:3]:
                report(m_, replay)
            # -d into the directory of an earlier, larger run: feed the model's directory back
            if k in pairs:
                r2 = rs[pairs[k]]
                rj2 = rj_of(r2, full)
                if rj2 is not None:
                    pipeline_jobs.append(("reuse", idx, k, full, costs, fresh, md, r2, rj2))
            # a blocked file name: the files written are those before it
            if md["fail"] is None and (k < len(corp) or rng.random() < 0.5):
                pipeline_jobs.append(("blocked", idx, k, full, costs, rng.choice(md["log"]), rj))
            # tie B
            if core.diff_exact(r["dec"], r["impl"]) is None and r["impl"]["status"] == "ok":
                pipeline_jobs.append(("pipeline", idx, k, full, costs, real, so, rj))
            else:
                stats["pipeline:skipped-ledger-differs"] += 1
        # ---- second round of model runs
        ints2 = []
        for j in pipeline_jobs:
            if j[0] == "reuse":
                _, idx, k, full, costs, fresh, md, r2, rj2 = j
                ints2.append(literal_ints(rj2, costs, 0, d0=md["dir"]))
            elif j[0] == "blocked":
                _, idx, k, full, costs, fn, rj = j
                ints2.append(literal_ints(rj, costs, 0, d0=[(fn, ("blocked",))]))
            else:
                _, idx, k, full, costs, real, so, rj = j
                ints2.append(pipeline_ints(rs[k]["case"], full, rj, costs, 0)[0])
                ints2.append(pipeline_ints(rs[k]["case"], full, rj, costs, 1)[0])
        outs2 = run_model(ints2, group="output")
        p = 0
        for j in pipeline_jobs:
            if j[0] == "reuse":
                _, idx, k, full, costs, fresh, md, r2, rj2 = j
                m2 = parse_out(outs2[p], 0)
                p += 1
                replay = {"first_input": rs[k]["hc"], "input": r2["hc"], "args": cli_args(r2, full, costs) + ["-d", "<directory of the first run>"]}
                if m2["status"] != "ok":
                    report({"kind": "other", "what": "the extracted output model did not evaluate the reused directory"}, replay)
                    continue
                rc, so, se = run_acb(bindir, r2["hc"]["files"], cli_args(r2, full, costs), outdir=fresh)
                stats["runs:dir-reused"] += 1
                if "panicked at" in se:
                    continue
                real = read_dir(fresh)
                mm = compare_dir(m2["dir"], real, names0, stats, "-d (directory used by an earlier run)")
                mm += compare_stdout(m2["stdout"], so, names0, stats, "-d mode (reused directory)", check_blocks=False)
                # stale: what the second run writes must be what it writes into a fresh directory
                written = set(m2["log"])
                stats["files-rewritten"] += len(written)
                stats["files-left-over"] += len(set(real) - written)
                for m_ in mm[:3]:
                    report(m_, replay)
            elif j[0] == "blocked":
                _, idx, k, full, costs, fn, rj = j
                mb = parse_out(outs2[p], 0)
                p += 1
                r = rs[k]
                replay = {"input": r["hc"], "args": cli_args(r, full, costs) + ["-d", "<dir>"], "blocked_name": fn}
                d = os.path.join(base, "b%d" % idx)
                os.makedirs(os.path.join(d, fn))
                rc, so, se = run_acb(bindir, r["hc"]["files"], cli_args(r, full, costs), outdir=d)
                stats["runs:dir-blocked"] += 1
                real = read_dir(d)
                mm = compare_dir(mb["dir"], real, names0, stats, "-d (the name %s cannot be created)" % fn)
                if rc == 0 or mb["fail"] is None or mb["fail"].get("cause") != "create":
                    mm.append({"kind": "other", "what": "-d with a blocked name: exit code %d, model %s" % (rc, mb["fail"])})
                elif "Rendering" not in se or so != "":
                    mm.append({"kind": "other", "what": "-d with a blocked name: stderr %r stdout %r" % (se[-200:], so[-100:])})
                for m_ in mm[:3]:
                    # a run that fails by construction: a difference here is about the ORDER of the writes
                    report(dict(m_, kind="other"), replay)
            else:
                _, idx, k, full, costs, real, so, rj = j
                r = rs[k]
                pd = parse_out(outs2[p], 0, pipeline=True)
                pt = parse_out(outs2[p + 1], 1, pipeline=True)
                p += 2
                replay = {"input": r["hc"], "args": cli_args(r, full, costs), "tie": "pipeline (ledger -> gains -> render -> writers)"}
                if pd["status"] != "ok" or pt["status"] != "ok":
                    stats["pipeline:model-stopped"] += 1
                    if r["impl"]["status"] == "ok" and not any("panic" in str(v) for v in (pd, pt)):
                        report({"kind": "other", "what": "the pipeline model stopped (%s) where the binary wrote a report" % (pd,)}, replay)
                    continue
                names = rendermodel.names_of(r)
                sub = collections.Counter()
                mm = compare_dir(pd["dir"], real, names, sub, "-d (pipeline model)")
                mm += compare_stdout(pt["stdout"], so, names, sub, "text mode (pipeline model)", check_blocks=False)
                stats["pipeline:cases"] += 1
                for key in ("files", "records", "cells", "lines"):
                    stats["pipeline:" + key] += sub[key]
                for m_ in mm[:2]:
                    report(m_, replay)
    finally:
        shutil.rmtree(base, ignore_errors=True)
    res.coverage["output_model"] = {
        "cases": stats["cases"], "corpus_cases": len(corp) + 1,
        "runs_of_the_real_binary": {k.split(":", 1)[1]: v for k, v in sorted(stats.items()) if k.startswith("runs:")},
        "files_compared": stats["files"], "records_compared": stats["records"], "cells_compared": stats["cells"],
        "text_sections": stats["sections"], "text_lines_compared": stats["lines"], "drawn_tables_located": stats["tables"],
        "cell_lines_found_in_drawn_tables": stats["block-cell-lines"],
        "error_messages_checked_per_mode": stats["messages"], "closing_lines_checked": stats["closing-lines"],
        "reused_directory": {"files_rewritten": stats["files-rewritten"], "files_left_over": stats["files-left-over"]},
        "pipeline_tie": {k.split(":", 1)[1]: v for k, v in sorted(stats.items()) if k.startswith("pipeline:")},
        "other": {k: v for k, v in sorted(stats.items()) if k.startswith("skipped:") or k.startswith("known:") or k in ("reserved-name-securities", "affiliate-spelling-differs-by-case")},
        "rule": "the real acb binary in text mode and with -d (fresh directory, directory used by an earlier larger run, directory in which one "
                "file name cannot be created), with and without --print-full-values / --total-costs, against the extracted model of the writers: "
                "set of files, every record of every file field by field (files parsed with Python's csv module), exit code, standard output line by "
                "line (drawn tables located between the modelled lines; every cell line of the model's block must occur in them), closing line; "
                "tie A = model run on the implementation's own render model, tie B = model pipeline ledger -> gains -> render -> writers",
    }
