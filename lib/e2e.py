# End-to-end correspondence of the bridge (coq/Model/Bridge.v, group "e2e"):
# the SAME CSV text that is given to the implementation is tokenised (Python's
# csv module; the csv crate's tokenisation stays a hypothesis, as in C11) and
# the cells are given to the extracted model, which recognises the header,
# parses every field, applies Tx::try_from, abstracts the rows (rates,
# defaults, affiliate / security numbering, split flags, read index) and runs
# the bookkeeping.  Nothing of lib/core.py to_ints / af_table / sec_table /
# eff_rate / split_int_only / af_id is used on this path: the implementation's
# output is canonicalised with the numbering tables the model itself prints.
import collections
import csv
import datetime
import io
from fractions import Fraction

import core
from common import qenc, run_model

COLNAMES = ["security", "trade date", "settlement date", "action", "shares", "amount/share",
            "commission", "currency", "exchange rate", "commission currency",
            "commission exchange rate", "superficial loss", "split ratio", "affiliate", "memo", "date"]

# parse rejection code of the model -> fragments of the implementation's message
REJ_MSG = {
    (1, 1): ["Failed to parse number for"],
    (1, 2): ["Failed to parse trade date", "Failed to parse settlement date"],
    (1, 3): ["Invalid action"],
    (1, 4): ["Invalid number in superficial loss", "Was positive value"],
    (1, 5): ["does not match N-for-M split format", "does not match constraints of", "Invalid decimal"],
    (1, 10): ["\"action\" not specified"],
    (1, 11): ["specified but \"currency\" not found", "specified but \"commission currency\" not found"],
    (1, 12): ["specified but \"exchange rate\" not found", "specified but \"commission exchange rate\" not found"],
    (1, 13): ["must be a positive value"],
    (1, 14): ["Default currency (CAD) exchange rate was not 1"],
    (1, 15): ["\"shares\" not found"],
    (1, 16): ["\"amount/share\" not found"],
    (1, 17): ["shares must be a positive value", "SfLA shares must be positive"],
    (1, 18): ["amount/share must not be negative", "amount per share must not be negative", "SfLA amount/share must be positive"],
    (1, 19): ["comission must not be negative"],
    (1, 20): ["Error reading rates csv record"],
    (1, 21): ["contains both"],
    (1, 22): ["RoC should not specify shares"],
    (1, 23): ["SfLA currency must be CAD/default"],
    (1, 24): ["Split \"split ratio\" not found"],
    (1, 25): ["\"security\" not found"],
    (1, 26): ["\"trade date\" not found"],
    (1, 27): ["\"settlement date\" not found"],
    (1, 28): ["\"security\" was empty"],
    (1, 30): ["Tx has no trade date"],
    (1, 31): ["does not support automatically loaded day rates"],
    (2, 98): ["xchange rate error"],     # USD without a rate: the rate loader (refusing requester in the harness)
}


def tokenise(text):
    """records of a CSV text as the csv crate yields them (RFC 4180 quoting,
    empty lines skipped); header = first record"""
    recs = [r for r in csv.reader(io.StringIO(text, newline="")) if r != []]
    if not recs:
        return [], []
    return recs[0], recs[1:]


def e_bytes(s):
    b = list(s.encode("utf-8"))
    return [len(b)] + b


def e_file(text):
    h, rows = tokenise(text)
    out = [len(h)]
    for c in h:
        out += e_bytes(c)
    out.append(len(rows))
    for r in rows:
        out.append(len(r))
        for c in r:
            out += e_bytes(c)
    return out


def init_pairs(case):
    """opening positions of a core case / of a raw case: [(name, shares, acb)]"""
    out = []
    for s, v in sorted(case.get("inits", {}).items()):
        out.append((s, Fraction(v[0][1]), Fraction(v[1][1])))
    return out


def to_ints(files, inits, arith=1):
    out = [30, arith, len(inits)]
    for s, sh, acb in inits:
        out += e_bytes(s) + qenc(sh) + qenc(acb)
    out.append(len(files))
    for f in files:
        out += e_file(f)
    return out


class Rd(core.Reader):
    def bytes(self):
        n = self.z()
        v = self.l[self.i:self.i + n]
        self.i += n
        return bytes(v).decode("utf-8", errors="surrogateescape")

    def table(self):
        n = self.z()
        t = collections.OrderedDict()
        for _ in range(n):
            s = self.bytes()
            t[s] = self.z()
        return t

    def action(self):
        tag = self.z()
        if tag in (0, 1):
            a = {"act": core.ACTS[tag], "q": [self.q() for _ in range(5)]}
            if tag == 1:
                a["sfl"] = (self.q(), bool(self.z())) if self.z() else None
            return a
        if tag == 2:
            return {"act": "RoC", "q": [self.q(), self.q()]}
        if tag == 3:
            return {"act": "SfLA", "q": [self.q(), self.q()]}
        return {"act": "Split", "q": [self.q(), self.q(), bool(self.z())]}

    def tx(self):
        t = {"sec": self.z(), "td": self.z(), "sd": self.z(), "af": self.z(), "reg": bool(self.z()),
             "dflt": bool(self.z()), "glob": bool(self.z()), "ri": self.z()}
        t.update(self.action())
        return t


def parse_out(ints):
    rd = Rd(ints)
    st = rd.z()
    if st != 1:
        return {"status": "model-error", "code": st}
    k = rd.z()
    if k == 1:
        return {"status": "rej", "rej": (rd.z(), rd.z())}
    if k == 2:
        return {"status": "reader-panic"}
    o = {"status": "parsed"}
    o["st"] = rd.table()
    o["at"] = rd.table()
    o["names_ok"] = bool(rd.z())
    n = rd.z()
    o["rows"] = [rd.tx() for _ in range(n)]
    o["result"] = core.parse_model([1] + ints[rd.i:])
    return o


def rej_matches(rej, msg):
    pats = REJ_MSG.get(tuple(rej))
    if pats is None:
        return False
    if tuple(rej) == (1, 5) and "Failed to parse" in msg:
        return False
    return any(p in msg for p in pats)


FIELDS = ("act", "af", "sd", "pre", "post", "gain", "sfl", "sfla")


def row_diffs(m, raw):
    """the abstracted rows of the model against the Tx values the
    implementation attached to its deltas (matched by read index)"""
    if raw.get("status") != "ok":
        return None
    by_ri = {r["ri"]: r for r in m["rows"]}
    for sname, so in raw["secs"].items():
        for d in so["deltas"]:
            if "q" not in d:
                continue
            r = by_ri.get(d["ri"])
            if r is None:
                return "row with read index %s of %s has no model row" % (d["ri"], sname)
            if r["act"] != d["act"]:
                return "read index %s: action model=%s impl=%s" % (d["ri"], r["act"], d["act"])
            if m["st"].get(sname) != r["sec"]:
                return "read index %s: security number" % d["ri"]
            want = [x if isinstance(x, bool) else Fraction(x) for x in d["q"]]
            if r["q"] != want:
                return "read index %s (%s): values model=%s impl=%s" % (d["ri"], d["act"], [str(x) for x in r["q"]], d["q"])
            if (r["td"], r["sd"]) != (datetime.date.fromisoformat(d["td"]).toordinal(),
                                      datetime.date.fromisoformat(d["sd"]).toordinal()):
                return "read index %s: dates model=%s,%s impl=%s,%s" % (d["ri"], r["td"], r["sd"], d["td"], d["sd"])
            if not r["glob"]:
                if r["af"] != m["at"].get(d["af"]) or r["reg"] != d["reg"]:
                    return "read index %s: affiliate model=%s/%s impl=%s/%s" % (d["ri"], r["af"], r["reg"], d["af"], d["reg"])
    return None


def compare(m, raw):
    """model output (parse_out) against the raw harness output; None or text"""
    if m["status"] == "model-error":
        return "model input malformed (%s)" % m["code"]
    if m["status"] == "reader-panic":
        return "reader model panics"
    if m["status"] == "rej":
        if raw.get("status") != "err":
            return "model rejects the input %s, implementation: %s" % (m["rej"], raw.get("status"))
        if not rej_matches(m["rej"], raw["err"]):
            return "model rejects with %s, implementation with: %s" % (m["rej"], raw["err"])
        return None
    if raw.get("status") == "err" and core.rej_class(raw["err"]) == -1:
        return "implementation rejects the input (%s), model accepts" % raw["err"]
    if not m["names_ok"]:
        return None     # more than 1000 affiliate ids before "default": numbering not order preserving
    d = row_diffs(m, raw)
    if d is not None:
        return d
    i = core.parse_impl(raw, m["st"], m["at"])
    return core.diff_exact(m["result"], i, fields=FIELDS)


def features(files):
    """kinds of cells in the CSV texts (counted from the tokenised cells)"""
    c = collections.Counter()
    for f in files:
        h, rows = tokenise(f)
        names = [x.strip().lower() for x in h]
        if names != [x for x in h]:
            c["header-respelt"] += 1
        if [n for n in names if n in COLNAMES] != [n for n in COLNAMES if n in names]:
            c["columns-permuted"] += 1
        if any(n not in COLNAMES for n in names):
            c["unknown-column"] += 1
        for col in ("exchange rate", "commission currency", "commission exchange rate", "superficial loss",
                    "split ratio", "affiliate"):
            if col not in names:
                c["missing-column:" + col] += 1
        for r in rows:
            cells = dict((n, v) for n, v in zip(names, r) if v.strip() != "")
            if any(v != v.strip() for v in r):
                c["padded-cell"] += 1
            for n in cells:
                if n in COLNAMES:
                    c["cell:" + n] += 1
            cur = cells.get("currency", "").upper()
            if cur not in ("", "CAD"):
                c["foreign-currency"] += 1
            if cur == "CAD" and "exchange rate" in cells:
                c["rate-given-for-CAD"] += 1
            if "commission currency" in cells:
                cc = cells["commission currency"].upper()
                c["commission-currency"] += 1
                if cc == (cur or "CAD"):
                    c["commission-currency-same-as-tx"] += 1
                if "commission exchange rate" not in cells:
                    c["commission-currency-without-rate"] += 1
            if cells.get("superficial loss", "").endswith("!"):
                c["forced-superficial-loss"] += 1
            af = cells.get("affiliate")
            if af is not None:
                c["affiliate-named"] += 1
                if "(r)" in af.lower():
                    c["affiliate-registered"] += 1
            elif cells.get("action", "").lower() == "split":
                c["global-split"] += 1
            if "split ratio" in cells and "." in cells["split ratio"]:
                c["ratio-with-decimals"] += 1
    if len(files) > 1:
        c["multi-file"] += 1
    return c


def run_pass(hcs, impl_raws, inits_list, py_models=None, arith=1):
    """hcs: harness cases (with "files"); impl_raws: raw harness outputs;
    inits_list: [(name, shares, acb)] per case; py_models: canonical outputs of
    the Python-encoded model run (core.parse_model), or None.
    returns (diffs [(index, text)], counters, parsed model outputs)"""
    ints = [to_ints(hc["files"], ini, arith) for hc, ini in zip(hcs, inits_list)]
    outs = [parse_out(o) for o in run_model(ints, group="e2e")]
    st = collections.Counter()
    diffs = []
    for k, (hc, raw, m) in enumerate(zip(hcs, impl_raws, outs)):
        st["e2e-evaluations"] += 1
        st["e2e-" + m["status"]] += 1
        for f, n in features(hc["files"]).items():
            st["e2e:" + f] += n
        d = compare(m, raw)
        if d is not None:
            diffs.append((k, "cells -> model vs implementation: " + d))
            continue
        if m["status"] == "parsed":
            st["e2e-rows"] += len(m["rows"])
            if raw.get("status") == "ok":
                st["e2e-rows-compared-with-impl-tx"] += sum(1 for so in raw["secs"].values() for dl in so["deltas"] if "q" in dl)
        if py_models is not None and py_models[k] is not None and m["status"] == "parsed" and m["names_ok"]:
            st["e2e-vs-python-encoding"] += 1
            if m["result"] != py_models[k]:
                diffs.append((k, "cells -> model vs Python-encoded rows -> model: " +
                              (core.diff_exact(m["result"], py_models[k], fields=("act", "af", "sd", "pre", "post", "gain", "sfl", "sfla"))
                               or "outputs differ (status %s vs %s)" % (m["result"].get("status"), py_models[k].get("status")))))
    return diffs, st, outs


# ---------------------------------------------------------------- corpus aimed at the glue
def T(header, *rows):
    """CSV text of a table given as lists of cells"""
    out = [",".join(core.csv_quote(c) for c in header)]
    for r in rows:
        out.append(",".join(core.csv_quote(c) for c in r))
    return "\n".join(out) + "\n"


H = ["security", "trade date", "settlement date", "action", "shares", "amount/share", "commission",
     "currency", "exchange rate", "commission currency", "commission exchange rate",
     "superficial loss", "split ratio", "affiliate", "memo"]


def R(**kw):
    """one record under header H; keys: sec td sd act sh aps com cur fx ccur cfx sfl ratio af memo"""
    keys = ["sec", "td", "sd", "act", "sh", "aps", "com", "cur", "fx", "ccur", "cfx", "sfl", "ratio", "af", "memo"]
    d = {"sec": "FOO", "td": "2020-03-02", "sd": "2020-03-04", "act": "Buy", "sh": "10", "aps": "2.50"}
    d.update(kw)
    return [d.get(k, "") for k in keys]


def glue_corpus():
    from core import D
    c = []

    def add(name, files, inits=None):
        c.append({"name": name, "files": files if isinstance(files, list) else [files], "inits": inits or {}})

    buy = R()
    sell = R(act="Sell", td="2020-06-01", sd="2020-06-03", sh="4", aps="3.10", com="1.99")
    # commission currencies and rates
    add("commission in the transaction's currency with its own rate",
        T(H, R(cur="USD", fx="1.30", com="9.99", ccur="USD", cfx="1.25"),
          R(act="Sell", td="2020-06-01", sd="2020-06-03", sh="4", aps="3", cur="usd", fx="1.4", com="5", ccur="usd", cfx="1.1")))
    add("commission currency CAD without a rate on a USD trade",
        T(H, R(cur="USD", fx="1.30", com="9.99", ccur="CAD"), R(act="Sell", td="2020-06-01", sd="2020-06-03", sh="4", aps="3", cur="USD", fx="1.2", com="1", ccur="cad")))
    add("commission currency CAD with rate 1.0", T(H, R(cur="EUR", fx="1.55", com="2", ccur="CAD", cfx="1.0")))
    add("commission rate without commission currency", T(H, R(com="2", cfx="1.2")))
    add("commission currency USD without a rate (rate loader)", T(H, R(com="2", ccur="USD")))
    add("commission currency EUR without a rate", T(H, R(com="2", ccur="EUR")))
    add("commission currency given, no commission", T(H, R(cur="USD", fx="1.3", ccur="EUR", cfx="1.6")))
    add("commission currency equal to a foreign transaction currency, no own rate", T(H, R(cur="EUR", fx="1.5", com="3", ccur="EUR")))
    # rates for CAD
    add("rate 1 / 1.0 / 1.000 given for CAD",
        T(H, R(cur="CAD", fx="1"), R(td="2020-03-03", sd="2020-03-05", cur="cad", fx="1.0"), R(td="2020-03-04", sd="2020-03-06", cur="", fx="")))
    add("rate 1.000 given for CAD on RoC", T(H, buy, R(act="RoC", td="2020-04-01", sd="2020-04-01", sh="", aps="0.10", cur="CAD", fx="1.000")))
    add("rate 1.5 given for CAD", T(H, R(cur="CAD", fx="1.5")))
    add("rate 0 given for CAD", T(H, R(cur="CAD", fx="0")))
    add("rate without currency", T(H, R(fx="1.3")))
    add("negative rate", T(H, R(cur="USD", fx="-1.3")))
    add("foreign currency without rate (not USD)", T(H, R(cur="GBP")))
    add("USD without rate (rate loader)", T(H, R(cur="USD")))
    add("blank currency with commission currency", T(H, R(com="1", ccur="USD", cfx="1.25")))
    # blank vs missing optional columns
    short = ["security", "trade date", "settlement date", "action", "shares", "amount/share"]
    add("only the six mandatory columns", T(short, ["FOO", "2020-03-02", "2020-03-04", "Buy", "10", "2.5"],
                                            ["FOO", "2020-06-01", "2020-06-03", "sell", "4", "3.1"]))
    add("all optional columns present and blank", T(H, buy, sell))
    add("no shares column on a buy", T(["security", "trade date", "settlement date", "action", "amount/share"],
                                       ["FOO", "2020-03-02", "2020-03-04", "Buy", "2.5"]))
    add("no security column", T(["trade date", "settlement date", "action", "shares", "amount/share"],
                                ["2020-03-02", "2020-03-04", "Buy", "1", "2.5"]))
    add("blank security", T(H, R(sec="  ")))
    add("no action", T(H, R(act="")))
    add("no settlement date", T(H, R(sd="")))
    add("no trade date on the second row, bad number on the first (order of the stages)",
        T(H, R(sh="-1"), R(td="")))
    add("legacy date column", T(["security", "trade date", "date", "action", "shares", "amount/share"],
                                ["FOO", "2020-03-02", "2020-03-04", "Buy", "10", "2.5"]))
    add("legacy and settlement date columns", T(["security", "trade date", "date", "settlement date", "action", "shares", "amount/share"],
                                                ["FOO", "2020-03-02", "2020-03-04", "2020-03-05", "Buy", "10", "2.5"]))
    add("a column given twice, the later non-blank cell wins",
        T(["security", "shares", "trade date", "settlement date", "action", "Shares ", "amount/share", "SHARES"],
          ["FOO", "7", "2020-03-02", "2020-03-04", "Buy", "10", "2.5", ""],
          ["FOO", "1", "2020-06-01", "2020-06-03", "Sell", "", "3", "2"]))
    add("short record", "security,trade date,settlement date,action,shares,amount/share\nFOO,2020-03-02,2020-03-04,Buy,10\n")
    add("long record after a good one", "security,trade date,settlement date,action,shares,amount/share\nFOO,2020-03-02,2020-03-04,Buy,10,2\nFOO,2020-03-03,2020-03-05,Buy,10,2,9\n")
    add("header only", T(H))
    add("empty file then a file with rows (read index continues)", ["", T(H, buy), T(H), T(H, sell)])
    add("error in the second file after a conversion error in the first", [T(H, R(sh="0")), T(H, R(act="bogus"))])
    add("quoted cells, embedded comma and newline in the memo",
        'security,trade date,settlement date,action,shares,amount/share,memo\n"FOO",2020-03-02,2020-03-04,Buy,"10",2.5,"a, ""b""\nc"\n')
    add("non-ASCII memo and unknown header", T(H + ["Bemerkung ä"], buy + ["café ☃"]))
    # affiliates
    afs = ["Default", "default (R)", " B ", "(r)", "b", "B (R)", "Spouse  Two", "spouse two", "(R) Zed", "2nd", "default(R)", "DEFAULT"]
    rows = []
    for k, a in enumerate(afs):
        rows.append(R(td="2020-03-%02d" % (2 + k), sd="2020-03-%02d" % (4 + k), af=a, sh=str(10 + k)))
    add("affiliate spellings", T(H, *rows))
    add("affiliate spellings, then a split for all and sales",
        T(H, *(rows + [R(act="Split", td="2020-05-01", sd="2020-05-01", sh="", aps="", ratio="2-for-1"),
                       R(act="Sell", td="2020-06-01", sd="2020-06-03", sh="3", aps="1.10", af="2ND"),
                       R(act="Sell", td="2020-06-02", sd="2020-06-04", sh="3", aps="1.10", af="b (r)"),
                       R(act="Sell", td="2020-06-02", sd="2020-06-04", sh="30", aps="1.10", af="")])))
    add("loss sale with several buying affiliates (order of the affiliate ids)",
        T(H, R(af="2nd", sh="10", aps="10"), R(af="Zed", sh="10", aps="10"), R(af="b", sh="10", aps="10"),
          R(act="Sell", td="2020-03-10", sd="2020-03-12", sh="10", aps="5", af="2nd"),
          R(td="2020-03-20", sd="2020-03-22", af="Zed", sh="3", aps="5"),
          R(td="2020-03-20", sd="2020-03-22", af="b", sh="4", aps="5"),
          R(td="2020-03-21", sd="2020-03-23", af="", sh="2", aps="5")))
    add("affiliate cell naming the pseudo-affiliate on a split", T(H, buy, R(act="Split", td="2020-05-01", sd="2020-05-01", sh="", aps="", ratio="2-for-1", af="__global__")))
    # split ratios
    for ratio in ["2-for-1", "1.0-for-2.0", "3-for-2", "1-for-2", "2-FOR-1", " 1-for-3 ", "1.-for-2", "1-for-2.0",
                  "1.5-for-1", "0-for-1", "2-for-", "2 for 1", "1-for-1", "10-for-4", "1-for-0.5", ".5-for-1", "2.-for-4."]:
        add("split ratio %r on 5 shares" % ratio,
            T(H, R(sh="5"), R(act="Split", td="2020-05-01", sd="2020-05-01", sh="", aps="", ratio=ratio),
              R(act="Sell", td="2020-06-01", sd="2020-06-03", sh="1", aps="3")))
    add("split without ratio", T(H, buy, R(act="Split", td="2020-05-01", sd="2020-05-01", sh="", aps="")))
    add("split for all with an opening position", T(H, R(act="Split", td="2020-05-01", sd="2020-05-01", sh="", aps="", ratio="3-for-1"),
                                                     R(act="Sell", td="2020-06-01", sd="2020-06-03", sh="20", aps="3")),
        {"FOO": (D(10), D(10000, 2))})
    add("split addressed to Default next to a split for all", T(H, buy, R(act="Split", td="2020-05-01", sd="2020-05-01", sh="", aps="", ratio="2-for-1", af="Default"),
                                                                R(act="Split", td="2020-05-02", sd="2020-05-02", sh="", aps="", ratio="2-for-1")))
    # dates
    add("dates: invalid day", T(H, R(td="2020-02-30")))
    add("dates: one-digit month", T(H, R(td="2020-3-02")))
    add("dates: leap day and year boundaries", T(H, R(td="2020-02-29", sd="2020-03-02"), R(td="2020-12-31", sd="2021-01-04"),
                                                  R(act="Sell", td="2021-01-29", sd="2021-02-02", sh="20", aps="1")))
    add("dates: settlement before trade, far apart years", T(H, R(td="1999-12-31", sd="1999-12-30"), R(act="Sell", td="2100-03-01", sd="2100-03-01", sh="10", aps="1")))
    # actions, numbers, superficial losses
    add("action spellings", T(H, R(act=" BUY "), R(act="sElL", td="2020-06-01", sd="2020-06-03", sh="4", aps="3.1"),
                              R(act="roc", td="2020-07-01", sd="2020-07-01", sh="", aps="0.1"),
                              R(act="SFLA", td="2020-07-02", sd="2020-07-02", sh="1", aps="0.1")))
    add("action with extra words", T(H, R(act="Sold Short")))
    add("SfLA with USD", T(H, buy, R(act="SfLA", td="2020-07-02", sd="2020-07-02", sh="1", aps="0.1", cur="USD", fx="1.2")))
    add("SfLA with CAD and rate 1", T(H, buy, R(act="SfLA", td="2020-07-02", sd="2020-07-02", sh="1", aps="0.1", cur="CAD", fx="1")))
    add("RoC with shares", T(H, buy, R(act="RoC", td="2020-07-01", sd="2020-07-01", sh="3", aps="0.1")))
    add("RoC in USD", T(H, buy, R(act="RoC", td="2020-07-01", sd="2020-07-01", sh="", aps="0.1", cur="USD", fx="1.25")))
    # conversion errors of the less common actions (branches line coverage showed no case reached)
    add("RoC without an amount", T(H, buy, R(act="RoC", td="2020-07-01", sd="2020-07-01", sh="", aps="")))
    add("RoC with a negative amount", T(H, buy, R(act="RoC", td="2020-07-01", sd="2020-07-01", sh="", aps="-0.10")))
    add("RoC with amount zero", T(H, buy, R(act="RoC", td="2020-07-01", sd="2020-07-01", sh="", aps="0")))
    add("SfLA without an amount", T(H, buy, R(act="SfLA", td="2020-07-02", sd="2020-07-02", sh="1", aps="")))
    add("SfLA without shares", T(H, buy, R(act="SfLA", td="2020-07-02", sd="2020-07-02", sh="", aps="0.1")))
    add("SfLA with amount zero", T(H, buy, R(act="SfLA", td="2020-07-02", sd="2020-07-02", sh="1", aps="0")))
    add("SfLA with a negative amount", T(H, buy, R(act="SfLA", td="2020-07-02", sd="2020-07-02", sh="1", aps="-0.1")))
    add("SfLA with zero shares", T(H, buy, R(act="SfLA", td="2020-07-02", sd="2020-07-02", sh="0", aps="0.1")))
    add("a security whose only row is a split for all", T(H, buy, R(sec="ONLYSPLIT", act="Split", td="2020-05-01", sd="2020-05-01", sh="", aps="", ratio="2-for-1")))
    add("a security whose only rows are splits for all, with an opening position",
        T(H, R(sec="ONLYSPLIT", act="Split", td="2020-05-01", sd="2020-05-01", sh="", aps="", ratio="2-for-1"),
          R(sec="ONLYSPLIT", act="Split", td="2020-06-01", sd="2020-06-01", sh="", aps="", ratio="3-for-1")),
        {"ONLYSPLIT": (D(7), D(700, 2))})
    add("buy with zero shares / zero price / negative price",
        [T(H, R(sh="0")), T(H, R(aps="0")), T(H, R(aps="-1"))])
    add("numbers: plus sign, leading dot, trailing dot, many digits",
        T(H, R(sh="+10", aps=".5", com="1."), R(td="2020-03-03", sd="2020-03-05", sh="0.00000001", aps="123456789.123456789123456789")))
    add("numbers: negative commission", T(H, R(com="-1")))
    add("numbers: negative zero commission and price", T(H, R(com="-0", aps="-0.00")))
    add("numbers: exponent form", T(H, R(sh="1e3")))
    add("numbers: thousands separator", T(H, R(sh="1,000")))
    lossy = [R(sh="10", aps="10"), R(act="Sell", td="2020-03-10", sd="2020-03-12", sh="10", aps="5", sfl="-20!"),
             R(td="2020-03-20", sd="2020-03-22", sh="5", aps="5"),
             R(act="SfLA", td="2020-03-12", sd="2020-03-12", sh="5", aps="4")]
    add("supplied superficial loss with !", T(H, *lossy))
    add("supplied superficial loss without !", T(H, lossy[0], R(act="Sell", td="2020-03-10", sd="2020-03-12", sh="10", aps="5", sfl="-25.00"), lossy[2]))
    add("supplied superficial loss 0! and -0", T(H, lossy[0], R(act="Sell", td="2020-03-10", sd="2020-03-12", sh="5", aps="5", sfl="0!"),
                                                R(act="Sell", td="2020-03-11", sd="2020-03-13", sh="5", aps="5", sfl="-0")))
    add("supplied superficial loss positive", T(H, lossy[0], R(act="Sell", td="2020-03-10", sd="2020-03-12", sh="5", aps="5", sfl="3")))
    add("supplied superficial loss on a buy (ignored)", T(H, R(sfl="-3!")))
    # securities: trimmed cells, byte order of names
    add("padded cells and the order of security names",
        T(H, R(sec=" foo "), R(sec="FOO", sh=" 3 ", aps="\t2.5"), R(sec="Foo2"), R(sec="1ST"), R(sec="foo", act="Sell", td="2020-06-01", sd="2020-06-03", sh="10", aps="1")),
        {"foo": (D(5), D(500, 2)), "ZZZ": (D(1), D(100, 2))})
    return c
