# End-to-end correspondence of the bridge (coq/Model/Bridge.v, group "e2e"):
# the SAME CSV text that is given to the implementation is tokenised (Python's
# csv module; the csv crate's tokenisation stays a hypothesis, as in C11) and
# the cells are given to the extracted model, which recognises the header,
# parses every field, applies Tx::try_from, abstracts the rows (rates,
# defaults, affiliate / security numbering, split flags, read index) and runs
# the bookkeeping.  Nothing of lib/core.py to_ints / af_table / sec_table /
# eff_rate / split_int_only / af_id is used on this path: the implementation's
# output is canonicalised with the numbering tables the model itself prints.
import collections
import csv
import datetime
import io
from fractions import Fraction

import core
from common import qenc, run_model

COLNAMES = ["security", "trade date", "settlement date", "action", "shares", "amount/share",
            "commission", "currency", "exchange rate", "commission currency",
            "commission exchange rate", "superficial loss", "split ratio", "affiliate", "memo", "date"]

# parse rejection code of the model -> fragments of the implementation's message
REJ_MSG = {
    (1, 1): ["Failed to parse number for"],
    (1, 2): ["Failed to parse trade date", "Failed to parse settlement date"],
    (1, 3): ["Invalid action"],
    (1, 4): ["Invalid number in superficial loss", "Was positive value"],
    (1, 5): ["does not match N-for-M split format", "Error on row"],
    (1, 10): ["\"action\" not specified"],
    (1, 11): ["specified but \"currency\" not found", "specified but \"commission currency\" not found"],
    (1, 12): ["specified but \"exchange rate\" not found", "specified but \"commission exchange rate\" not found"],
    (1, 13): ["must be a positive value"],
    (1, 14): ["Default currency (CAD) exchange rate was not 1"],
    (1, 15): ["\"shares\" not found"],
    (1, 16): ["\"amount/share\" not found"],
    (1, 17): ["shares must be a positive value", "SfLA shares must be positive"],
    (1, 18): ["amount/share must not be negative", "amount per share must not be negative", "SfLA amount/share must be positive"],
    (1, 19): ["comission must not be negative"],
    (1, 20): ["Error reading rates csv record"],
    (1, 21): ["contains both"],
    (1, 22): ["RoC should not specify shares"],
    (1, 23): ["SfLA currency must be CAD/default"],
    (1, 24): ["Split \"split ratio\" not found"],
    (1, 25): ["\"security\" not found"],
    (1, 26): ["\"trade date\" not found"],
    (1, 27): ["\"settlement date\" not found"],
    (1, 28): ["\"security\" was empty"],
    (1, 30): ["Tx has no trade date"],
    (1, 31): ["does not support automatically loaded day rates"],
    (2, 98): ["xchange rate error"],     # USD without a rate: the rate loader (refusing requester in the harness)
}


def tokenise(text):
    """records of a CSV text as the csv crate yields them (RFC 4180 quoting,
    empty lines skipped); header = first record"""
    recs = [r for r in csv.reader(io.StringIO(text, newline="")) if r != []]
    if not recs:
        return [], []
    return recs[0], recs[1:]


def e_bytes(s):
    b = list(s.encode("utf-8"))
    return [len(b)] + b


def e_file(text):
    h, rows = tokenise(text)
    out = [len(h)]
    for c in h:
        out += e_bytes(c)
    out.append(len(rows))
    for r in rows:
        out.append(len(r))
        for c in r:
            out += e_bytes(c)
    return out


def init_pairs(case):
    """opening positions of a core case / of a raw case: [(name, shares, acb)]"""
    out = []
    for s, v in sorted(case.get("inits", {}).items()):
        out.append((s, Fraction(v[0][1]), Fraction(v[1][1])))
    return out


def to_ints(files, inits, arith=1):
    out = [30, arith, len(inits)]
    for s, sh, acb in inits:
        out += e_bytes(s) + qenc(sh) + qenc(acb)
    out.append(len(files))
    for f in files:
        out += e_file(f)
    return out


class Rd(core.Reader):
    def bytes(self):
        n = self.z()
        v = self.l[self.i:self.i + n]
        self.i += n
        return bytes(v).decode("utf-8", errors="surrogateescape")

    def table(self):
        n = self.z()
        t = collections.OrderedDict()
        for _ in range(n):
            s = self.bytes()
            t[s] = self.z()
        return t

    def action(self):
        tag = self.z()
        if tag in (0, 1):
            a = {"act": core.ACTS[tag], "q": [self.q() for _ in range(5)]}
            if tag == 1:
                a["sfl"] = (self.q(), bool(self.z())) if self.z() else None
            return a
        if tag == 2:
            return {"act": "RoC", "q": [self.q(), self.q()]}
        if tag == 3:
            return {"act": "SfLA", "q": [self.q(), self.q()]}
        return {"act": "Split", "q": [self.q(), self.q(), bool(self.z())]}

    def tx(self):
        t = {"sec": self.z(), "td": self.z(), "sd": self.z(), "af": self.z(), "reg": bool(self.z()),
             "dflt": bool(self.z()), "glob": bool(self.z()), "ri": self.z()}
        t.update(self.action())
        return t


def parse_out(ints):
    rd = Rd(ints)
    st = rd.z()
    if st != 1:
        return {"status": "model-error", "code": st}
    k = rd.z()
    if k == 1:
        return {"status": "rej", "rej": (rd.z(), rd.z())}
    if k == 2:
        return {"status": "reader-panic"}
    o = {"status": "parsed"}
    o["st"] = rd.table()
    o["at"] = rd.table()
    o["names_ok"] = bool(rd.z())
    n = rd.z()
    o["rows"] = [rd.tx() for _ in range(n)]
    o["result"] = core.parse_model([1] + ints[rd.i:])
    return o


def rej_matches(rej, msg):
    pats = REJ_MSG.get(tuple(rej))
    if pats is None:
        return False
    return any(p in msg for p in pats)


FIELDS = ("act", "af", "sd", "pre", "post", "gain", "sfl", "sfla")


def row_diffs(m, raw):
    """the abstracted rows of the model against the Tx values the
    implementation attached to its deltas (matched by read index)"""
    if raw.get("status") != "ok":
        return None
    by_ri = {r["ri"]: r for r in m["rows"]}
    for sname, so in raw["secs"].items():
        for d in so["deltas"]:
            if "q" not in d:
                continue
            r = by_ri.get(d["ri"])
            if r is None:
                return "row with read index %s of %s has no model row" % (d["ri"], sname)
            if r["act"] != d["act"]:
                return "read index %s: action model=%s impl=%s" % (d["ri"], r["act"], d["act"])
            if m["st"].get(sname) != r["sec"]:
                return "read index %s: security number" % d["ri"]
            want = [x if isinstance(x, bool) else Fraction(x) for x in d["q"]]
            if r["q"] != want:
                return "read index %s (%s): values model=%s impl=%s" % (d["ri"], d["act"], [str(x) for x in r["q"]], d["q"])
            if (r["td"], r["sd"]) != (datetime.date.fromisoformat(d["td"]).toordinal(),
                                      datetime.date.fromisoformat(d["sd"]).toordinal()):
                return "read index %s: dates model=%s,%s impl=%s,%s" % (d["ri"], r["td"], r["sd"], d["td"], d["sd"])
            if not r["glob"]:
                if r["af"] != m["at"].get(d["af"]) or r["reg"] != d["reg"]:
                    return "read index %s: affiliate model=%s/%s impl=%s/%s" % (d["ri"], r["af"], r["reg"], d["af"], d["reg"])
    return None


def compare(m, raw):
    """model output (parse_out) against the raw harness output; None or text"""
    if m["status"] == "model-error":
        return "model input malformed (%s)" % m["code"]
    if m["status"] == "reader-panic":
        return "reader model panics"
    if m["status"] == "rej":
        if raw.get("status") != "err":
            return "model rejects the input %s, implementation: %s" % (m["rej"], raw.get("status"))
        if not rej_matches(m["rej"], raw["err"]):
            return "model rejects with %s, implementation with: %s" % (m["rej"], raw["err"])
        return None
    if raw.get("status") == "err" and core.rej_class(raw["err"]) == -1:
        return "implementation rejects the input (%s), model accepts" % raw["err"]
    if not m["names_ok"]:
        return None     # more than 1000 affiliate ids before "default": numbering not order preserving
    d = row_diffs(m, raw)
    if d is not None:
        return d
    i = core.parse_impl(raw, m["st"], m["at"])
    return core.diff_exact(m["result"], i, fields=FIELDS)


def features(files):
    """kinds of cells in the CSV texts (counted from the tokenised cells)"""
    c = collections.Counter()
    for f in files:
        h, rows = tokenise(f)
        names = [x.strip().lower() for x in h]
        if names != [x for x in h]:
            c["header-respelt"] += 1
        if [n for n in names if n in COLNAMES] != [n for n in COLNAMES if n in names]:
            c["columns-permuted"] += 1
        if any(n not in COLNAMES for n in names):
            c["unknown-column"] += 1
        for col in ("exchange rate", "commission currency", "commission exchange rate", "superficial loss",
                    "split ratio", "affiliate"):
            if col not in names:
                c["missing-column:" + col] += 1
        for r in rows:
            cells = dict((n, v) for n, v in zip(names, r) if v.strip() != "")
            if any(v != v.strip() for v in r):
                c["padded-cell"] += 1
            for n in cells:
                if n in COLNAMES:
                    c["cell:" + n] += 1
            cur = cells.get("currency", "").upper()
            if cur not in ("", "CAD"):
                c["foreign-currency"] += 1
            if cur == "CAD" and "exchange rate" in cells:
                c["rate-given-for-CAD"] += 1
            if "commission currency" in cells:
                cc = cells["commission currency"].upper()
                c["commission-currency"] += 1
                if cc == (cur or "CAD"):
                    c["commission-currency-same-as-tx"] += 1
                if "commission exchange rate" not in cells:
                    c["commission-currency-without-rate"] += 1
            if cells.get("superficial loss", "").endswith("!"):
                c["forced-superficial-loss"] += 1
            af = cells.get("affiliate")
            if af is not None:
                c["affiliate-named"] += 1
                if "(r)" in af.lower():
                    c["affiliate-registered"] += 1
            elif cells.get("action", "").lower() == "split":
                c["global-split"] += 1
            if "split ratio" in cells and "." in cells["split ratio"]:
                c["ratio-with-decimals"] += 1
    if len(files) > 1:
        c["multi-file"] += 1
    return c


def run_pass(hcs, impl_raws, inits_list, py_models=None, arith=1):
    """hcs: harness cases (with "files"); impl_raws: raw harness outputs;
    inits_list: [(name, shares, acb)] per case; py_models: canonical outputs of
    the Python-encoded model run (core.parse_model), or None.
    returns (diffs [(index, text)], counters, parsed model outputs)"""
    ints = [to_ints(hc["files"], ini, arith) for hc, ini in zip(hcs, inits_list)]
    outs = [parse_out(o) for o in run_model(ints, group="e2e")]
    st = collections.Counter()
    diffs = []
    for k, (hc, raw, m) in enumerate(zip(hcs, impl_raws, outs)):
        st["e2e-evaluations"] += 1
        st["e2e-" + m["status"]] += 1
        for f, n in features(hc["files"]).items():
            st["e2e:" + f] += n
        d = compare(m, raw)
        if d is not None:
            diffs.append((k, "cells -> model vs implementation: " + d))
            continue
        if m["status"] == "parsed":
            st["e2e-rows"] += len(m["rows"])
            if raw.get("status") == "ok":
                st["e2e-rows-compared-with-impl-tx"] += sum(1 for so in raw["secs"].values() for dl in so["deltas"] if "q" in dl)
        if py_models is not None and py_models[k] is not None and m["status"] == "parsed" and m["names_ok"]:
            st["e2e-vs-python-encoding"] += 1
            if m["result"] != py_models[k]:
                diffs.append((k, "cells -> model vs Python-encoded rows -> model: " +
                              (core.diff_exact(m["result"], py_models[k], fields=("act", "af", "sd", "pre", "post", "gain", "sfl", "sfla"))
                               or "outputs differ (status %s vs %s)" % (m["result"].get("status"), py_models[k].get("status")))))
    return diffs, st, outs
