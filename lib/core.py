# Abstract bookkeeping cases (histories of rows), their rendering as CSV for
# the implementation and as integer lists for the model, and the
# canonicalisation / comparison of the two outputs.
import datetime
import re
from fractions import Fraction

from common import Reader, qenc

BASE_DAY = datetime.date(2019, 1, 1).toordinal()

COLS = ["security", "trade date", "settlement date", "action", "shares", "amount/share",
        "commission", "currency", "exchange rate", "commission currency",
        "commission exchange rate", "superficial loss", "split ratio", "affiliate", "memo"]


def D(mant, scale=0):
    """decimal literal: (text, Fraction)"""
    neg = mant < 0
    s = str(abs(mant))
    if scale > 0:
        s = s.rjust(scale + 1, "0")
        s = s[:-scale] + "." + s[-scale:]
    if neg:
        s = "-" + s
    return (s, Fraction(mant, 10 ** scale))


def dtext(f):
    """exact decimal text of a Fraction whose denominator divides a power of 10"""
    f = Fraction(f)
    sc = 0
    while (f * 10 ** sc).denominator != 1:
        sc += 1
        if sc > 40:
            raise ValueError("not a decimal: %s" % f)
    return D(int(f * 10 ** sc), sc)[0]


def af_id(name):
    """AffiliateData::from_strep"""
    reg = re.search(r"\([rR]\)", name) is not None
    pretty = re.sub(r"\([rR]\)", " ", name) if reg else name
    pretty = re.sub(r"  +", " ", pretty).strip()
    if pretty == "":
        pretty = "Default"
    i = pretty.lower()
    if reg:
        i += " (R)"
        pretty += " (R)"
    return i, pretty, reg


def af_table(names):
    """order-preserving numbering of affiliate ids with 'default' -> 1000"""
    ids = sorted(set([af_id(n)[0] for n in names] + ["default"]), key=lambda s: s.encode())
    base = ids.index("default")
    return {i: 1000 + k - base for k, i in enumerate(ids)}


def date_str(day):
    return datetime.date.fromordinal(day).isoformat()


def split_int_only(post_s, pre_s):
    dec = re.compile(r"\.\d")
    io = not dec.search(post_s) and not dec.search(pre_s)
    if not (Fraction(pre_s) > Fraction(post_s)):
        io = False
    return io


def row_csv(r):
    c = {k: "" for k in COLS}
    c["security"] = r["sec"]
    c["trade date"] = date_str(r["td"])
    c["settlement date"] = date_str(r["sd"])
    c["action"] = r["act"]
    a = r["act"]
    if a in ("Buy", "Sell"):
        c["shares"] = r["sh"][0]
        c["amount/share"] = r["aps"][0]
        if r.get("com") is not None:
            c["commission"] = r["com"][0]
    elif a == "RoC":
        c["amount/share"] = r["aps"][0]
    elif a == "SfLA":
        c["shares"] = r["sh"][0]
        c["amount/share"] = r["aps"][0]
    elif a == "Split":
        c["split ratio"] = "%s-for-%s" % (r["split"][0], r["split"][1])
    if a in ("Buy", "Sell", "RoC"):
        if r.get("cur"):
            c["currency"] = r["cur"]
        if r.get("rate") is not None:
            c["exchange rate"] = r["rate"][0]
    if a in ("Buy", "Sell"):
        if r.get("ccur"):
            c["commission currency"] = r["ccur"]
        if r.get("crate") is not None:
            c["commission exchange rate"] = r["crate"][0]
    if a == "Sell" and r.get("sfl") is not None:
        c["superficial loss"] = r["sfl"][0][0] + ("!" if r["sfl"][1] else "")
    if r.get("af") is not None:
        c["affiliate"] = r["af"]
    c["memo"] = r.get("memo", "")
    return c


def csv_quote(s):
    if any(ch in s for ch in ',"\n\r'):
        return '"' + s.replace('"', '""') + '"'
    return s


def to_csv(rows, cols=None):
    cols = cols or COLS
    out = [",".join(cols)]
    for r in rows:
        c = row_csv(r)
        out.append(",".join(csv_quote(c[k]) for k in cols))
    return "\n".join(out) + "\n"


def eff_rate(cur, rate):
    if rate is not None:
        return rate[1]
    return Fraction(1)


def sec_table(rows, inits):
    secs = sorted(set([r["sec"] for r in rows] + list(inits.keys())))
    return {s: i for i, s in enumerate(secs)}


def to_ints(case, arith):
    """mode 0 (core) input for the model"""
    rows = case["rows"]
    inits = case.get("inits", {})
    st = sec_table(rows, inits)
    at = af_table([r["af"] for r in rows if r.get("af") is not None])
    out = [0, arith, len(inits)]
    for s in sorted(inits):
        out += [st[s]] + qenc(inits[s][0][1]) + qenc(inits[s][1][1])
    out.append(len(rows))
    for ri, r in enumerate(rows):
        a = r["act"]
        glob = 0
        if r.get("af") is None:
            if a == "Split":
                glob = 1
            i, _, reg = af_id("")
        else:
            i, _, reg = af_id(r["af"])
        out += [st[r["sec"]], r["td"], r["sd"], at[i], int(reg), int(i.startswith("default")), glob, ri]
        if a in ("Buy", "Sell"):
            rate = eff_rate(r.get("cur"), r.get("rate"))
            if r.get("ccur") or r.get("crate") is not None:
                crate = eff_rate(r.get("ccur"), r.get("crate"))
            else:
                crate = rate
            com = r["com"][1] if r.get("com") is not None else Fraction(0)
            out += [0 if a == "Buy" else 1] + qenc(r["sh"][1]) + qenc(r["aps"][1]) + qenc(com) + qenc(rate) + qenc(crate)
            if a == "Sell":
                if r.get("sfl") is not None:
                    out += [1] + qenc(r["sfl"][0][1]) + [int(r["sfl"][1])]
                else:
                    out += [0]
        elif a == "RoC":
            out += [2] + qenc(r["aps"][1]) + qenc(eff_rate(r.get("cur"), r.get("rate")))
        elif a == "SfLA":
            out += [3] + qenc(r["sh"][1]) + qenc(r["aps"][1])
        elif a == "Split":
            post, pre = r["split"]
            out += [4] + qenc(Fraction(post)) + qenc(Fraction(pre)) + [int(split_int_only(post, pre))]
        else:
            raise ValueError(a)
    return out, st, at


ACTS = ["Buy", "Sell", "RoC", "SfLA", "Split"]

REJ_PATTERNS = [
    (1, "is lower than the share balance for the affiliate"),
    (2, "found an ACB on a registered affiliate"),
    (3, "found an invalid ACB (none)"),
    (5, "is more than the current total holdings across affiliates"),
    (4, "is more than the current holdings"),
    (6, "exceeds the current ACB"),
    (7, "Invalid RoC tx on"),
    (8, "Invalid SfLA tx on"),
    (9, "caused all-affiliate share balance to become negative"),
    (10, "results in non-integer share balance"),
    (11, "but there is no capital loss"),
    (12, "greater than the max allowed discrepancy"),
    (13, "latest share balance total for all affiliates"),
    (14, "latest share balance ("),
    (15, "Total share count went below zero in 30-day period"),
    (16, "Share count for affiliate"),
    (17, "Found non-global split"),
]
REJ_NAMES = {
    1: "sanity-all-lower", 2: "sanity-registered-acb", 3: "sanity-no-acb", 4: "oversale",
    5: "oversale-all", 6: "roc-exceeds-acb", 7: "roc-on-registered", 8: "sfla-on-registered",
    9: "split-all-negative", 10: "reverse-split-fraction", 11: "sfl-declared-no-loss",
    12: "sfl-declared-mismatch", 13: "scan-all-less", 14: "scan-affiliate-less",
    15: "ahead-all-negative", 16: "ahead-affiliate-negative", 17: "global-split-near",
}


def rej_class(msg):
    for code, pat in REJ_PATTERNS:
        if pat in msg:
            return code
    return -1


def parse_model(ints):
    """model output (mode core) -> canonical dict"""
    rd = Reader(ints)
    st = rd.z()
    if st != 1:
        return {"status": "model-error", "code": st}
    kind = rd.z()
    if kind == 1:
        return {"status": "err", "rej": rd.z()}
    if kind == 2:
        return {"status": "panic", "panic": (rd.z(), rd.z())}
    n = rd.z()
    secs = {}
    for _ in range(n):
        s = rd.z()
        stop = (rd.z(), rd.z(), rd.z())
        nd = rd.z()
        ds = []
        for _ in range(nd):
            d = {}
            d["act"] = ACTS[rd.z()]
            d["af"] = rd.z()
            d["sd"] = rd.z()
            d["pre"] = (rd.q(), rd.q(), rd.opt())
            d["post"] = (rd.q(), rd.q(), rd.opt())
            d["gain"] = rd.opt()
            t = rd.z()
            amt, num, den, over = rd.q(), rd.q(), rd.q(), rd.z()
            d["sfl"] = (amt, num, den, bool(over)) if t else None
            sh, aps = rd.q(), rd.q()
            d["sfla"] = (sh, aps) if d["act"] == "SfLA" else None
            ds.append(d)
        secs[s] = {"stop": stop, "deltas": ds}
    assert rd.done()
    for s in secs.values():
        if s["stop"][0] == 2:
            # a panic in any security takes the whole process down
            return {"status": "panic", "panic": s["stop"][1:], "secs": secs}
    return {"status": "ok", "secs": secs}


def parse_impl(o, st, at):
    """harness output (mode core) -> canonical dict"""
    if o["status"] == "panic":
        return {"status": "panic", "panic": o["panic"]}
    if o["status"] in ("err", "initerr"):
        return {"status": "err", "rej": rej_class(o["err"]), "msg": o["err"]}
    secs = {}
    for sname, so in o["secs"].items():
        ds = []
        for d in so["deltas"]:
            e = {}
            e["act"] = d["act"]
            e["af"] = at.get(d["af"], d["af"])
            e["afid"] = d["af"]
            e["sd"] = datetime.date.fromisoformat(d["sd"]).toordinal()
            f = lambda x: None if x is None else Fraction(x)
            e["pre"] = tuple(f(x) for x in d["pre"])
            e["post"] = tuple(f(x) for x in d["post"])
            e["gain"] = f(d["gain"])
            e["sfl"] = (Fraction(d["sfl"][0]), Fraction(d["sfl"][1]), Fraction(d["sfl"][2]), bool(d["sfl"][3])) if d["sfl"] else None
            e["sfla"] = (Fraction(d["sfla"][0]), Fraction(d["sfla"][1])) if "sfla" in d else None
            e["q"] = d.get("q")
            e["ri"] = d.get("ri")
            e["reg"] = d.get("reg")
            ds.append(e)
        if so["err"] is None:
            stop = (0, 0, 0)
        else:
            stop = (1, rej_class(so["err"]), 0)
        secs[st.get(sname, sname)] = {"stop": stop, "deltas": ds, "msg": so["err"]}
    return {"status": "ok", "secs": secs}


def diff_exact(m, i, fields=("act", "af", "post", "gain", "sfl", "sfla")):
    """first difference between model and implementation canonical outputs, or None"""
    if m["status"] != i["status"]:
        return "status model=%s impl=%s (%s)" % (m["status"], i["status"], m.get("panic") or m.get("rej") or i.get("panic") or i.get("msg"))
    if m["status"] == "err":
        if m["rej"] != i["rej"]:
            return "general error class model=%s impl=%s" % (m["rej"], i["rej"])
        return None
    if m["status"] == "panic":
        return None
    if set(m["secs"]) != set(i["secs"]):
        return "security sets differ"
    for s in sorted(m["secs"]):
        ms, is_ = m["secs"][s], i["secs"][s]
        if ms["stop"][0] != is_["stop"][0] or (ms["stop"][0] == 1 and ms["stop"][1] != is_["stop"][1]):
            return "sec %s outcome model=%s impl=%s (%s)" % (s, ms["stop"], is_["stop"], is_.get("msg"))
        if len(ms["deltas"]) != len(is_["deltas"]):
            return "sec %s row count model=%d impl=%d" % (s, len(ms["deltas"]), len(is_["deltas"]))
        for k, (a, b) in enumerate(zip(ms["deltas"], is_["deltas"])):
            for f in fields:
                if a[f] != b[f]:
                    return "sec %s row %d field %s model=%s impl=%s" % (s, k, f, a[f], b[f])
    return None


def close(a, b, tol):
    if a is None or b is None:
        return a is None and b is None
    return abs(a - b) <= tol


def diff_close(m, i, tol=Fraction(1, 10 ** 9)):
    """compare the figures of two canonical outputs within tol; decisions
    (outcome, row structure, superficial or not) must be equal"""
    if m["status"] != i["status"]:
        return "status %s vs %s" % (m["status"], i["status"])
    if m["status"] != "ok":
        return None
    for s in sorted(m["secs"]):
        ms, is_ = m["secs"][s], i["secs"].get(s)
        if is_ is None:
            return "missing sec %s" % s
        if ms["stop"][:2] != is_["stop"][:2]:
            return "sec %s outcome %s vs %s" % (s, ms["stop"], is_["stop"])
        if len(ms["deltas"]) != len(is_["deltas"]):
            return "sec %s row count %d vs %d" % (s, len(ms["deltas"]), len(is_["deltas"]))
        for k, (a, b) in enumerate(zip(ms["deltas"], is_["deltas"])):
            if a["act"] != b["act"] or a["af"] != b["af"]:
                return "sec %s row %d kind" % (s, k)
            for j in range(3):
                if not close(a["post"][j], b["post"][j], tol):
                    return "sec %s row %d post[%d] %s vs %s" % (s, k, j, a["post"][j], b["post"][j])
            if not close(a["gain"], b["gain"], tol):
                return "sec %s row %d gain %s vs %s" % (s, k, a["gain"], b["gain"])
            if (a["sfl"] is None) != (b["sfl"] is None):
                return "sec %s row %d superficial decision" % (s, k)
            if a["sfl"] and not close(a["sfl"][0], b["sfl"][0], tol):
                return "sec %s row %d denied amount %s vs %s" % (s, k, a["sfl"][0], b["sfl"][0])
    return None
