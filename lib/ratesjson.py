# The remote document layer (C12): generated Bank of Canada documents
# (well-formed and damaged) go as TEXT to the real parse_rates_json (harness
# mode `doc`: JsonRemoteRateLoader over a requester serving the text) and as
# a TREE to the extracted model (coq/Model/RatesJson.v, entry 8 of
# coq/Exec/CodecRates.v).  The tree is built from the same text with Python's
# json module (objects as member lists in document order, number tokens kept
# as text): the json crate's text -> tree parsing is a stated hypothesis.
# Number tokens are also compared one by one (mode `jsonnum`, entry 9): the
# (sign, u64 mantissa, i16 exponent) the json crate keeps, its Display text and
# Decimal::from_str of that.
import hashlib
import json
from fractions import Fraction

import rates as R
from common import run_harness, run_model, Reader

MAXM = 2 ** 96 - 1


# ------------------------------------------------------------------ documents as Python values
class Num:
    """a number token, kept as text"""
    def __init__(self, text):
        self.text = text


class Obj:
    """an object: members in document order, duplicates allowed"""
    def __init__(self, pairs):
        self.pairs = list(pairs)


def ser(v):
    if v is None:
        return "null"
    if v is True:
        return "true"
    if v is False:
        return "false"
    if isinstance(v, Num):
        return v.text
    if isinstance(v, str):
        return json.dumps(v)
    if isinstance(v, list):
        return "[" + ",".join(ser(x) for x in v) + "]"
    if isinstance(v, Obj):
        return "{" + ",".join(json.dumps(k) + ":" + ser(x) for k, x in v.pairs) + "}"
    raise ValueError(v)


def tree_of_text(text):
    """the tree Python's json module makes of the text"""
    return json.loads(text, object_pairs_hook=lambda pairs: Obj(pairs),
                      parse_float=lambda s: Num(s), parse_int=lambda s: Num(s))


def enc_bytes(b):
    return [len(b)] + list(b)


def enc(v):
    if v is None:
        return [0]
    if v is True:
        return [1, 1]
    if v is False:
        return [1, 0]
    if isinstance(v, Num):
        return [2] + enc_bytes(v.text.encode())
    if isinstance(v, str):
        return [3] + enc_bytes(v.encode("utf-8"))
    if isinstance(v, list):
        out = [4, len(v)]
        for x in v:
            out += enc(x)
        return out
    if isinstance(v, Obj):
        out = [5, len(v.pairs)]
        for k, x in v.pairs:
            out += enc_bytes(k.encode("utf-8")) + enc(x)
        return out
    raise ValueError(v)


# ------------------------------------------------------------------ generation
def in_class(text):
    """the class of texts on which Decimal::from_str is modelled exactly (dec_text_class of Model/RatesJson.v)"""
    u = text[1:] if text[:1] in "+-" else text
    ip, _, fp = u.partition(".")
    if not (ip + fp).isdigit() or not all(c in "0123456789" for c in ip + fp):
        return False
    return len(fp) <= 28 and int(ip + fp) <= MAXM


def gen_dec_text(rng, daily):
    """a positive decimal text inside the class Decimal::from_str is modelled on"""
    while True:
        t = gen_dec_text1(rng, daily)
        if in_class(t):
            return t


def gen_dec_text1(rng, daily):
    k = rng.random()
    if k < 0.55:
        return R.gen_value(rng, daily)
    if k < 0.75:
        n = rng.randint(1, 28)
        return "%d.%s" % (rng.choice([0, 0, 1, 7]), "".join(rng.choice("0123456789") for _ in range(n - 1)) + rng.choice("123456789"))
    if k < 0.85:
        return str(rng.randint(1, 10 ** rng.randint(1, 12)))
    if k < 0.92:
        return rng.choice(["+1.25", "1.", ".5", "0.5000", "1.0000000000000000000000000000", "00.75", "+.5", "79228162514264337593543950335"])
    m = rng.randint(1, MAXM)
    s = rng.randint(0, 28)
    t = str(m).rjust(s + 1, "0")
    return t[:len(t) - s] + ("." + t[len(t) - s:] if s else "")


def gen_num_token(rng):
    """a JSON number token: plain, with exponents, with long mantissas"""
    k = rng.random()
    if k < 0.35:
        return rng.choice(["0.7", "1", "0.75", "1.25", "2", "0.7812", "0.70", "1.0", "10", "0.0001"])
    if k < 0.55:
        return "%d.%s" % (rng.choice([0, 0, 1, 12]), "".join(rng.choice("0123456789") for _ in range(rng.randint(1, 17))))
    if k < 0.7:      # exponents
        return "%s%s%s%d" % (rng.choice(["7", "7.5", "0.75", "125", "1.3402", "70"]), rng.choice("eE"), rng.choice(["", "-", "+"]),
                             rng.choice([0, 1, 2, 3, 5, 17, 18, 19, 20, 21, 30, 40000]))
    if k < 0.9:      # long mantissas: around 18-22 digits (MAX_PRECISION, u64 overflow)
        ip = rng.choice(["0", "1", str(rng.randint(1, 10 ** rng.randint(1, 21)))])
        fp = "".join(rng.choice("0123456789") for _ in range(rng.randint(0, 30)))
        return ip + ("." + fp if fp else "") + (rng.choice(["", "", "e-3", "E2"]))
    return rng.choice(["0", "-0", "0.0", "-1.5", "0e5", "-7e-1", "0.000", "1e-18", "1e-17", "100000000000000000000", "1000000000000000000000",
                       "576460752303423499", "576460752303423500", "18446744073709551615", "18446744073709551616", "5764607523034234995"])


BAD_DATE_TEXTS = ["2022-1-5", "01-02-2022", "2022-13-01", "20220105", "", "2022-01-05T00:00", "2022-02-30", "x", "2022-01-32", "+2022-01-05", "-2022-01-05", "2022/01/05"]
BAD_VALUE_TEXTS = ["abc", "", "1e5", "1.2.3", " 1.2", "1,2", "0", "0.000", "-1.25", "-0", "NaN", "0x10", "--1", "1-", "."]


def gen_doc(rng):
    """(kind, root value, expected): expected = [(day, Fraction)] for a well-formed document in the
    Bank of Canada layout (computed from the generation parameters, not from the tree), None otherwise"""
    daily = rng.random() < 0.6
    key = R.DAILY if daily else R.NOON
    y = rng.choice([2017, 2019, 2022]) if daily else rng.choice([2012, 2015, 2016])
    n = rng.choice([0, 1, 2, 3, 5, 8, 20])
    days = sorted(rng.sample(range(R.day(y, 1, 1), R.day(y, 12, 31)), n))
    pre = []
    if rng.random() < 0.7:
        pre.append(("terms", Obj([("url", "https://www.bankofcanada.ca/terms/")])))
    if rng.random() < 0.7:
        pre.append(("seriesDetail", Obj([(key, Obj([("label", "CAD/USD"), ("description", "x"), ("dimension", Obj([("key", "d"), ("name", "date")]))]))])))
    obs, expected = [], []
    for d in days:
        v = gen_dec_text(rng, daily)
        obs.append(Obj([("d", R.iso(d)), (key, Obj([("v", v)]))]))
        q = Fraction(v)
        expected.append((d, R.invert(q) if daily else q))
    wellformed = rng.random() < 0.35
    if wellformed:
        return "well-formed", Obj(pre + [("observations", obs)]), expected
    # ---- damage
    kinds = []
    for _ in range(rng.randint(1, 3)):
        k = rng.choice(["obs-nonobject", "no-date", "date-type", "date-text", "no-series", "series-nonobject", "no-v", "v-type",
                        "v-text", "v-number", "v-number", "v-number", "dup-date", "both-series", "other-series", "dup-key",
                        "root-array", "no-observations", "observations-type", "dup-observations", "extra-members", "empty"])
        kinds.append(k)
        i = rng.randrange(len(obs)) if obs else None
        if k == "root-array":
            return "damaged:" + "+".join(kinds), [Obj(pre + [("observations", obs)])], None
        if k == "no-observations":
            return "damaged:" + "+".join(kinds), Obj(pre + [("XXXX_observations", obs)]), None
        if k == "observations-type":
            return "damaged:" + "+".join(kinds), Obj(pre + [("observations", rng.choice([None, Obj([("foo", "bar")]), "x", Num("5"), True]))]), None
        if k == "dup-observations":
            other = [Obj([("d", R.iso(R.day(y, 6, 1))), (key, Obj([("v", "1.5")]))])]
            pairs = [("observations", other), ("observations", obs)] if rng.random() < 0.5 else [("observations", obs), ("observations", other)]
            return "damaged:" + "+".join(kinds), Obj(pre + pairs), None
        if k == "empty":
            obs = []
            continue
        if k == "obs-nonobject":
            obs.insert(rng.randint(0, len(obs)), rng.choice([Num("1234"), None, "x", [], True]))
            continue
        if i is None:
            continue
        o = obs[i]
        if not isinstance(o, Obj):
            continue
        pairs = o.pairs
        def setk(name, val, pairs=pairs):
            for j, (kk, _) in enumerate(pairs):
                if kk == name:
                    pairs[j] = (kk, val)
                    return
            pairs.append((name, val))
        def delk(name, pairs=pairs):
            pairs[:] = [(kk, vv) for kk, vv in pairs if kk != name]
        if k == "no-date":
            delk("d")
        elif k == "date-type":
            setk("d", rng.choice([Obj([]), Num("20220105"), None, [], True]))
        elif k == "date-text":
            setk("d", rng.choice(BAD_DATE_TEXTS))
        elif k == "no-series":
            delk(key)
        elif k == "series-nonobject":
            setk(key, rng.choice(["1.333", Num("1.333"), None, ["1.3"], True]))
        elif k == "no-v":
            setk(key, Obj(rng.choice([[], [("w", "1.3")], [("V", "1.3")]])))
        elif k == "v-type":
            setk(key, Obj([("v", rng.choice([Obj([]), [], None, True, False, ["1.3"]]))]))
        elif k == "v-text":
            setk(key, Obj([("v", rng.choice(BAD_VALUE_TEXTS))]))
        elif k == "v-number":
            setk(key, Obj([("v", Num(gen_num_token(rng)))]))
        elif k == "dup-date":
            obs.insert(rng.randint(0, len(obs)), Obj([("d", dict(pairs).get("d", R.iso(days[0]))), (key, Obj([("v", gen_dec_text(rng, daily))]))]))
        elif k == "both-series":
            other = R.NOON if daily else R.DAILY
            setk(other, Obj([("v", rng.choice([gen_dec_text(rng, not daily), "abc", "0"]))]))
        elif k == "other-series":
            v = [vv for kk, vv in pairs if kk == key]
            delk(key)
            if v:
                pairs.append((R.NOON if daily else R.DAILY, v[0]))
        elif k == "dup-key":
            which = rng.choice(["d", key, "v"])
            if which == "v":
                pairs.append((key, Obj([("v", "abc"), ("v", gen_dec_text(rng, daily))])))
            elif which == "d":
                pairs.append(("d", rng.choice([R.iso(R.day(y, 3, 3)), "junk"])))
            else:
                pairs.append((key, Obj([("v", rng.choice([gen_dec_text(rng, daily), "0"]))])))
        elif k == "extra-members":
            pairs.insert(0, ("note", "x"))
            pairs.append(("z", Obj([("v", "9.9")])))
    return "damaged:" + "+".join(kinds), Obj(pre + [("observations", obs)]), None


def corpus():
    d = R.iso
    O = Obj
    out = []
    out.append(("empty", O([("observations", [])]), []))
    out.append(("test_parse_ok", O([("observations", [
        O([("d", "2023-01-24"), (R.NOON, O([("v", "1.3456")])), (R.DAILY, O([("v", "0.7654")]))]),
        O([("d", "2023-01-25"), (R.DAILY, O([("v", "0.7655")]))]),
        O([("d", "2023-01-26"), (R.NOON, O([("v", "1.3457")]))])])]),
        [(R.day(2023, 1, 24), Fraction("1.3456")), (R.day(2023, 1, 25), R.invert("0.7655")), (R.day(2023, 1, 26), Fraction("1.3457"))]))
    out.append(("longest-precision-string", O([("observations", [O([("d", "2023-01-25"), (R.DAILY, O([("v", "0.7655555555555555555555555555")]))])])]),
                [(R.day(2023, 1, 25), R.invert("0.7655555555555555555555555555"))]))
    # the same value as a NUMBER: 19 digits survive in the u64 mantissa, printed in e notation, rejected
    out.append(("longest-precision-number", O([("observations", [O([("d", "2023-01-25"), (R.DAILY, O([("v", Num("0.7655555555555555555555555555"))]))])])]), None))
    out.append(("integer-and-float-numbers", O([("observations", [
        O([("d", "2023-01-25"), (R.DAILY, O([("v", Num("1"))]))]), O([("d", "2023-01-26"), (R.DAILY, O([("v", Num("0.7"))]))]),
        O([("d", "2023-01-27"), (R.DAILY, O([("v", Num("7e-1"))]))]), O([("d", "2023-01-28"), (R.NOON, O([("v", Num("1.3402"))]))])])]),
        [(R.day(2023, 1, 25), Fraction(1)), (R.day(2023, 1, 26), R.invert("0.7")), (R.day(2023, 1, 27), R.invert("0.7")),
         (R.day(2023, 1, 28), Fraction("1.3402"))]))
    out.append(("root-array", [O([("observations", [])])], None))
    out.append(("no-observations", O([("XXXX_observations", [])]), None))
    out.append(("observations-object", O([("observations", O([("foo", "bar")]))]), None))
    out.append(("zero-negative", O([("observations", [
        O([("d", "2024-02-16"), (R.NOON, O([("v", "0")]))]), O([("d", "2024-02-17"), (R.DAILY, O([("v", "0")]))]),
        O([("d", "2024-02-18"), (R.DAILY, O([("v", Num("0"))]))]), O([("d", "2024-02-19"), (R.NOON, O([("v", "-1.3")]))]),
        O([("d", "2024-02-20"), (R.DAILY, O([("v", Num("-0.75"))]))]), O([("d", "2024-02-21"), (R.DAILY, O([("v", "0.000")]))]),
        O([("d", "2024-02-22"), (R.DAILY, O([("v", "0.75")]))])])]), None))
    out.append(("bad-noon-hides-good-daily", O([("observations", [
        O([("d", "2024-02-16"), (R.NOON, "1.333"), (R.DAILY, O([("v", "0.75")]))]),
        O([("d", "2024-02-17"), (R.NOON, O([])), (R.DAILY, O([("v", "0.75")]))])])]), None))
    return out


def has_huge_value(v):
    """some "v" member of the document is a decimal above 10^28"""
    if isinstance(v, list):
        return any(has_huge_value(x) for x in v)
    if isinstance(v, Obj):
        for k, x in v.pairs:
            if k == "v" and isinstance(x, (str, Num)):
                try:
                    if Fraction(x if isinstance(x, str) else x.text) > 10 ** 28:
                        return True
                except (ValueError, ZeroDivisionError):
                    pass
            elif has_huge_value(x):
                return True
    return False


# ------------------------------------------------------------------ checks
def check_docs(res, ctx, batch):
    """batch: [(kind, root, expected)]"""
    st = ctx["stats"]
    texts = [ser(root) for _, root, _ in batch]
    impl = run_harness(ctx["exe"], "doc", [{"text": t, "year": 2022} for t in texts])
    mod = run_model([[8] + enc(tree_of_text(t)) for t in texts], group="rates")
    for (kind, root, expected), text, io, mo in zip(batch, texts, impl, mod):
        st["evaluations"] += 1
        st["json-documents"] += 1
        st["json-" + ("well-formed" if expected is not None and kind == "well-formed" else "corpus" if not kind.startswith("damaged") else "damaged")] += 1
        for k in kind.split(":", 1)[-1].split("+"):
            st["json-damage-" + k] += 1 if kind.startswith("damaged") else 0
        rep = {"input": {"document": text}, "replay_mode": "doc", "replay_case": text, "case": kind}
        if io.get("status") != "ok":
            res.violation("failing-input", "parse_rates_json panicked on a document: %s" % io.get("panic"), rep)
            continue
        if "err" in io:
            iobs = ("err",)
            st["json-impl-rejected"] += 1
        else:
            iobs = ("ok", [(d, Fraction(s)) for d, s in io["rates"]])
            st["json-rates"] += len(iobs[1])
            st["json-nonfatal-errors"] += io["nfe"]
        rd = Reader(mo)
        t0 = rd.z()
        t = rd.z() if t0 == 1 else -1
        mobs = ("err",) if t == 0 else ("ok", R.read_drates(rd)) if t == 1 else ("model-failed", t0, t)
        if mobs != iobs:
            st["correspondence_diffs"] += 1
            ctx["corr_diffs"].append((dict(rep, replay_mode="doc"), "document %s: model %s, implementation %s" % (
                kind, str(mobs)[:300], str(iobs)[:300])))
        # the property on the implementation's output: no zero or negative rate (a daily value above 10^28,
        # whose rust_decimal quotient 1/v rounds to 0, is the one stated exception: C12_inverted_rate_nonzero)
        if iobs[0] == "ok":
            for d, r in iobs[1]:
                if r < 0 or (r == 0 and not has_huge_value(root)):
                    res.violation("failing-input", "a document yields the rate %s for %s (zero or negative rate accepted)" % (r, R.iso(d)),
                                  dict(rep, actual_impl=str(r)))
                    break
        if expected is not None:
            if iobs != ("ok", expected):
                res.violation("failing-input",
                              "a well-formed Bank of Canada document is not parsed to its observations (daily inverted, noon as published): got %s, expected %s" % (
                                  str(iobs)[:300], str(expected)[:300]),
                              dict(rep, expected_spec=str(expected)[:1000], actual_impl=str(iobs)[:1000]))
            h = hashlib.sha1(text.encode()).hexdigest()
            if h not in ctx["seen"] and expected:
                ctx["seen"].add(h)
                st["distinct_nontrivial"] += 1
                st["json-distinct-well-formed"] += 1
        elif iobs[0] == "ok" and iobs[1]:
            h = hashlib.sha1(text.encode()).hexdigest()
            if h not in ctx["seen"]:
                ctx["seen"].add(h)
                st["json-distinct-damaged-with-rates"] += 1


def check_numbers(res, ctx, tokens):
    st = ctx["stats"]
    impl = run_harness(ctx["exe"], "jsonnum", [{"text": t} for t in tokens])
    mod = run_model([[9] + enc_bytes(t.encode()) for t in tokens], group="rates")
    bad = []
    for t, io, mo in zip(tokens, impl, mod):
        st["json-number-tokens"] += 1
        rd = Reader(mo)
        assert rd.z() == 1
        if rd.z() == 0:
            m = ("no-token",)
        else:
            neg, n, e = rd.z(), rd.z(), rd.z()
            text = bytes(rd.z() for _ in range(rd.z())).decode() if rd.z() else None
            dec = rd.q() if rd.z() else None
            m = (not neg, n, e, text, dec)
        if "parts" not in io:
            i = ("no-token",)
        else:
            pos, mant, e = io["parts"]
            disp = io["display"]
            i = (bool(pos), int(mant), e, disp if "e" not in disp else None, Fraction(io["dec"]) if io["dec"] is not None else None)
            if "e" in disp:
                st["json-number-e-notation"] += 1
                if io["dec"] is not None:
                    bad.append({"token": t, "what": "Decimal::from_str accepted e notation %s" % disp})
            if m[0] != "no-token" and m[1] == 0 and not i[0]:
                pass
        if m != i:
            bad.append({"token": t, "model": str(m), "impl": str(i)})
    if bad:
        st["correspondence_diffs"] += len(bad)
        ctx["corr_diffs"].append(({"input": {"tokens": [b["token"] for b in bad[:5]]}, "replay_mode": "num", "replay_case": [b["token"] for b in bad[:5]]},
                                  "JSON number tokens: %s" % bad[:3]))
    return {"tokens": len(tokens), "mismatches": len(bad)}


def run_pass(res, ctx, rng, ndocs, ntokens):
    check_docs(res, ctx, corpus())
    done = 0
    while done < ndocs:
        k = min(1500, ndocs - done)
        check_docs(res, ctx, [gen_doc(rng) for _ in range(k)])
        done += k
    fixed = ["0", "-0", "0.0", "1", "0.7", "7e-1", "0.70", "1e-17", "1e-18", "1E+2", "123e18", "1e19", "1e20", "12e19",
             "576460752303423499", "576460752303423500", "5764607523034234999", "18446744073709551615", "18446744073709551616",
             "184467440737095516150", "0.7655555555555555555555555555", "0.12345678901234567", "0.123456789012345678",
             "1e40000", "1e-40000", "-1e-40000", "99999999999999999999", "100000000000000000000", "0.00000000000000001", "0.000000000000000001"]
    return check_numbers(res, ctx, fixed + [gen_num_token(rng) for _ in range(ntokens)])
