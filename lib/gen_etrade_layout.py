#!/usr/bin/env python3
# Generates the literal chunks of coq/Spec/EtradeLayoutChunks.v from the templates of
# lib/etrade.py (so that the Gallina renderers and the Python renderers cannot drift):
# every template is rendered with sentinel field values and cut at the sentinels.
# usage: python3 lib/gen_etrade_layout.py > coq/Spec/EtradeLayoutChunks.v
import os
import re
import sys
sys.path.insert(0, os.path.dirname(os.path.abspath(__file__)))
import etrade as E


class SentDate(int):
    pass


def M(name):
    return "\x01%s\x02" % name


def cut(s):
    """-> [lit, name, lit, name, ..., lit]"""
    return re.split("\x01([a-z0-9_]+)\x02", s)


def coqstr(s):
    assert all(ord(c) < 128 for c in s)
    return '"' + s.replace('"', '""') + '"'


out = []


def emit(name, s):
    out.append("Definition %s : text := Eval vm_compute in txt %s%%string." % (name, coqstr(s)))


_dmy = E.dmy
E.dmy = lambda o, fmt: M("date") if fmt in ("dash", "slash4") else (M("td") if o == 1 else M("sd"))


def chunks(prefix, s, expect):
    parts = cut(s)
    names = parts[1::2]
    assert names == expect, (prefix, names, expect)
    lits = parts[0::2]
    for i, l in enumerate(lits):
        emit("%s_%d" % (prefix, i), l)
    return lits


for st in (0, 1):
    # RSU.  issued is computed by the Python renderer from released - sold: render with numbers and
    # substitute afterwards
    r = dict(sym=M("sym"), date=0, award=M("award"), released="7777.0000", sold="1111.0000", fmv=M("fmv"), sale=M("sale"), fee=M("fee"))
    s = E.render_rsu(r, st)
    assert s.count("7777.0000") == 2 and s.count("(1111.0000)") == 1 and s.count("6666.0000") == 1
    s = s.replace("7777.0000", M("released")).replace("1111.0000", M("sold")).replace("6666.0000", M("issued"))
    chunks("rsu%d" % st, s, ["sym", "sym", "award", "date", "released", "fmv", "sale", "released", "sold", "issued", "fee", "sym"])
    # ESPP: all optional lines present; the optional lines are cut out as separate constants
    r = dict(sym=M("sym"), date=0, purchased=M("pur"), fmv=M("fmv"), sold=M("sold"), sale=M("sale"), fee=M("fee"))
    s = E.render_espp(r, st)
    parts = cut(s)
    assert parts[1::2] == ["sym", "sym", "date", "pur", "pur", "pur", "sold", "fmv", "sale", "fee", "sym"], parts[1::2]
    lits = parts[0::2]
    SOLD = "Shares Sold to Cover Taxes "
    SALE = "Sale Price for Shares Sold to Cover Taxes $"
    TAIL = "Value Of Shares Sold $2,500.0000\nAmount in Excess of Tax Due $202.0700\n"
    assert lits[6].endswith(SOLD) and lits[7].startswith("\n")
    lits[6] = lits[6][:-len(SOLD)]
    lits[7] = lits[7][1:]
    assert lits[8].endswith(SALE) and lits[9].startswith("\n")
    lits[8] = lits[8][:-len(SALE)]
    lits[9] = lits[9][1:]            # between the sale line and the fee lines ("" or "\n")
    FEEPRE = " Total Taxes Collected at purchase ($2,200.21)\nFees ($" if st == 0 else " Total Taxes Collected at purchase ($2,200.21) Fees ($"
    assert lits[9].endswith(FEEPRE), repr(lits[9])
    between = lits[9][:-len(FEEPRE)]
    assert lits[10].startswith(")\n" + TAIL)
    after = lits[10][len(")\n" + TAIL):]
    for i, l in enumerate(lits[:9]):
        emit("espp%d_%d" % (st, i), l)
    emit("espp%d_between" % st, between)
    emit("espp%d_feepre" % st, FEEPRE)
    emit("espp%d_after" % st, after)
    emit("espp%d_11" % st, lits[11])
    if st == 0:
        emit("espp_sold_pre", SOLD)
        emit("espp_sale_pre", SALE)
        emit("espp_fee_post", ")\n")
        emit("espp_tail_stc", TAIL)
    # cross-check the cut against the renderer with optional parts missing
    for sold in (None, "15.0000"):
        for sale in (None, "101.000000"):
            for fee in (None, "20.22"):
                rr = dict(sym="FOO", date=0, purchased="57.0000", fmv="100.500000", sold=sold, sale=sale, fee=fee)
                want = E.render_espp(rr, st)
                got = (lits[0] + "FOO" + lits[1] + "FOO" + lits[2] + M("date") + lits[3] + "57.0000" + lits[4] + "57.0000" + lits[5] + "57.0000" + lits[6]
                       + ((SOLD + sold + "\n") if sold else "") + lits[7] + "100.500000" + lits[8]
                       + ((SALE + sale + "\n") if sale else "") + between + ((FEEPRE + fee + ")\n") if fee else "")
                       + (TAIL if sold else "") + after + "FOO" + lits[11])
                assert got == want, (st, sold, sale, fee)
    # post-2023 trade confirmation
    r = dict(acct=M("acct"), td=1, sd=2, qty=M("qty"), price=M("price"), ttype=M("ttype"), sym=M("sym"), commission=M("com"), fee=M("fee"))
    E.dmy = lambda o, fmt: M("td") if o == 1 else M("sd")
    s = E.render_tc_post(r, st)
    parts = cut(s)
    assert parts[1::2] == ["acct", "td", "sd", "qty", "price", "ttype", "sym", "sym", "com", "fee"], parts[1::2]
    lits = parts[0::2]
    COM = "Commission $"
    FEE = "Supplemental\nTransaction Fee $"
    assert lits[8].endswith(COM) and lits[9] == "\n" + FEE and lits[10].startswith("\n")
    lits[8] = lits[8][:-len(COM)]
    lits[10] = lits[10][1:]
    for i in (0, 1, 2, 3, 4, 5, 6, 7, 8, 10):
        emit("post%d_%d" % (st, i), lits[i])
    if st == 0:
        emit("post_com_pre", COM)
        emit("post_fee_pre", FEE)
    for com in (None, "3.91"):
        for fee in (None, "0.26"):
            rr = dict(acct="A-1", td=1, sd=2, qty="5", price="1.00", ttype="Sold", sym="FOO", commission=com, fee=fee)
            want = E.render_tc_post(rr, st)
            got = (lits[0] + "A-1" + lits[1] + M("td") + lits[2] + M("sd") + lits[3] + "5" + lits[4] + "1.00" + lits[5] + "Sold" + lits[6] + "FOO"
                   + lits[7] + "FOO" + lits[8] + ((COM + com + "\n") if com else "") + ((FEE + fee + "\n") if fee else "") + lits[10])
            assert got == want
    # pre-2023 trade confirmations: header / footer around the rows
    r = dict(acct=M("acct"), trades=[])
    s = E.render_tc_pre(r, st)
    parts = cut(s)
    assert parts[1::2] == ["acct", "acct"]
    lits = parts[0::2]
    assert lits[2].count("TYPE\n\n\n") == 1      # empty body, then the "\n\n" of the template
    head, foot = lits[2].split("TYPE\n\n\n")
    emit("pre%d_0" % st, lits[0])
    emit("pre%d_1" % st, lits[1])
    emit("pre%d_2" % st, head + "TYPE\n")
    emit("pre%d_foot" % st, "\n" + foot)
    E.dmy = lambda o, fmt: M("td") if o == 1 else M("sd")
    t = dict(td=1, sd=2, sym=M("sym"), act=M("act"), qty=M("qty"), price=M("price"), commission=M("com"), fee=M("fee"))
    s = E.render_tc_pre(dict(acct="A", trades=[t]), st)
    body = s[len(lits[0] + "A" + lits[1] + "A" + head + "TYPE\n"):-len("\n" + foot)]
    parts = cut(body)
    assert parts[1::2] == ["td", "sd", "sym", "act", "qty", "price", "sym", "com", "fee"], parts[1::2]
    rl = parts[0::2]
    assert rl[0] == "" and rl[1] == " "
    emit("prerow%d_mkt" % st, rl[2])           # " 61 " / " 6 1 "
    assert rl[3] == " " and rl[4] == " " and rl[5] == " $"
    emit("prerow_rest", rl[6]) if st == 0 else None      # " Stock Plan PRINCIPAL $1,515.00\n"
    emit("prerow%d_desc" % st, rl[7][:-len(" COMMISSION $")])
    assert rl[7].endswith(" COMMISSION $") and rl[8] == "\nFEE $"
    emit("prerow%d_end" % st, rl[9])           # "\nNET AMOUNT $1,494.78\n" (+ "\n" in style 1)
    E.dmy = lambda o, fmt: M("date") if fmt in ("dash", "slash4") else (M("td") if o == 1 else M("sd"))
    # ESO
    r = dict(sym=M("sym"), date=0, extype=M("extype"), shares_sold=M("sold"),
             grants=[dict(num=M("num"), fmv=M("fmv"), shares=M("shares"), sale=M("sale"), fee=M("fee"))])
    s = E.render_eso(r, st)
    parts = cut(s)
    assert parts[1::2] == ["sym", "sym", "extype", "sold", "num", "fmv", "shares", "sale", "fee", "date", "sym"], parts[1::2]
    lits = parts[0::2]
    ind = "        " if st == 0 else ""
    GPRE = ind + "Grant 1\n" + ind + "Grant Number "
    assert lits[4].endswith(GPRE)
    emit("eso%d_0" % st, lits[0]); emit("eso%d_1" % st, lits[1]); emit("eso%d_2" % st, lits[2]); emit("eso%d_3" % st, lits[3])
    emit("eso%d_4" % st, lits[4][:-len(GPRE)])
    emit("eso%d_ind" % st, ind)
    emit("eso%d_g1" % st, "\n" + ind + "Grant Number ")
    emit("eso%d_g2" % st, lits[5]); emit("eso%d_g3" % st, lits[6]); emit("eso%d_g4" % st, lits[7]); emit("eso%d_g5" % st, lits[8])
    assert lits[9].startswith("\n\n")
    emit("eso%d_g6" % st, "\n\n")
    emit("eso%d_9" % st, lits[9][2:]); emit("eso%d_10" % st, lits[10]); emit("eso%d_11" % st, lits[11])

print("(* GENERATED by lib/gen_etrade_layout.py from the templates of lib/etrade.py -- do not edit.")
print("   Literal chunks of the supported E*TRADE text layouts (style 0: pypdf-like, style 1: lopdf-like). *)")
print("From Coq Require Import String Ascii.")
print("From Coq Require Import List NArith.")
print("From ACB Require Import Model.QText Model.EtradeText.")
print("Import ListNotations.")
print("Definition k_Grant_ : text := Eval vm_compute in txt \"Grant \"%string.")
for l in out:
    print(l)
