# Shared code of the "rates" group checks (C12, C13, C14): calendars,
# observation rendering (Bank of Canada JSON / model integers), canonical
# answers, and the declarative look-up rule used as the oracle.
import datetime
import json
from fractions import Fraction

from common import qenc, Reader

E = datetime.date(1970, 1, 1).toordinal()
MAXM = 2 ** 96 - 1


def day(y, m, d):
    return datetime.date(y, m, d).toordinal() - E


def date_of(dn):
    return datetime.date.fromordinal(dn + E)


def iso(dn):
    return date_of(dn).isoformat()


def year_of(dn):
    return date_of(dn).year


# ------------------------------------------------------------ rust_decimal
def rhe(n, d):
    q, r = divmod(n, d)
    if 2 * r < d:
        return q
    if 2 * r > d:
        return q + 1
    return q if q % 2 == 0 else q + 1


def fit(fr):
    """independent re-implementation of the rounding of rust_decimal
    operators: largest scale <= 28 whose half-even mantissa fits 96 bits"""
    fr = Fraction(fr)
    for s in range(28, -1, -1):
        m = rhe(fr.numerator * 10 ** s, fr.denominator)
        if abs(m) <= MAXM:
            return Fraction(m, 10 ** s)
    return None


def invert(raw):
    return fit(Fraction(1) / Fraction(raw))


# ------------------------------------------------------------ observations
NOON = "IEXE0101"
DAILY = "FXCADUSD"

BAD_VALUES = ['{"v":"abc"}', '{"v":"0"}', '{"v":"-1.25"}', '{}', '"1.3"', '{"v":{}}', '{"v":"0.000"}', '[1]']
BAD_DATES = [None, '"01-02-2022"', '20220105', '"2022-13-01"', '{}', '"2022-1-5"']


def series_for_year(y):
    return DAILY if y >= 2017 else NOON


def mk_obs(dn, noon=None, daily=None, bad_date=None, num_json=False):
    """noon/daily: None (absent), ("bad", json_text) or a decimal string.
    bad_date: None (good date) or an index into BAD_DATES."""
    parts = []
    if bad_date is None:
        parts.append('"d":"%s"' % iso(dn))
    elif BAD_DATES[bad_date] is not None:
        parts.append('"d":%s' % BAD_DATES[bad_date])
    for key, v in ((NOON, noon), (DAILY, daily)):
        if v is None:
            continue
        if isinstance(v, tuple):
            parts.append('"%s":%s' % (key, v[1]))
        elif num_json:
            parts.append('"%s":{"v":%s}' % (key, v))
        else:
            parts.append('"%s":{"v":"%s"}' % (key, v))
    return {"day": dn, "noon": noon, "daily": daily, "bad_date": bad_date,
            "json": "{" + ",".join(parts) + "}"}


def jval_ints(v):
    if v is None:
        return [0]
    if isinstance(v, tuple):
        return [1]
    return [2] + qenc(Fraction(v))


def obs_ints(o):
    out = [o["day"]]
    out += [1, o["day"]] if o["bad_date"] is None else [0]
    return out + jval_ints(o["noon"]) + jval_ints(o["daily"])


def truth_ints(truth):
    out = [len(truth)]
    for o in truth:
        out += obs_ints(o)
    return out


def obs_rate(o):
    """the USD/CAD rate an observation publishes (None: nothing usable) --
    written from the property statement, not from the model: noon values as
    published, daily values inverted, malformed observations publish nothing"""
    if o["bad_date"] is not None:
        return None
    if o["noon"] is not None:
        if isinstance(o["noon"], tuple):
            return None
        return Fraction(o["noon"])
    if o["daily"] is not None:
        if isinstance(o["daily"], tuple):
            return None
        return invert(o["daily"])
    return None


def pub_of(truth, avail=None):
    """day -> rate published (last observation of a day wins, as in a map)"""
    pub = {}
    for o in truth:
        if avail is not None and o["day"] >= avail:
            continue
        r = obs_rate(o)
        if r is not None and r != 0:
            pub[o["day"]] = r
    return pub


# ------------------------------------------------------------ the rule (L0)
def rule(pub, today, d):
    """C12: rate of the trade date, else the latest within the 7 preceding
    days provided the date is in the past; otherwise an error"""
    if d in pub:
        return ("ok", d, pub[d])
    if d >= today:
        return ("err", 1)
    for x in range(d - 1, d - 8, -1):
        if x in pub:
            return ("ok", x, pub[x])
    return ("err", 3)


# ------------------------------------------------------------ answers
def classify(msg):
    k = "Cound not retrieve exchange rates within the 7 preceding days ("
    if k in msg:
        return 10 + classify(msg.split(k, 1)[1])
    if "No USD/CAD exchange rate is available for" in msg:
        return 1
    if "Did not find rates for" in msg:
        return 2
    if "Could not find relevant exchange rate within the 7 preceding days" in msg:
        return 3
    return 99


def impl_answer(a):
    if a[0] == "ok":
        return ("ok", a[1], Fraction(a[2]))
    return ("err", classify(a[1]))


def read_answer(rd):
    t = rd.z()
    if t == 1:
        d = rd.z()
        return ("ok", d, rd.q())
    return ("err", rd.z())


def read_drates(rd):
    n = rd.z()
    return [(rd.z(), rd.q()) for _ in range(n)]


def ans_str(a):
    if a[0] == "ok":
        return "rate %s of %s" % (a[2], iso(a[1]))
    return "error class %s" % ERR_NAMES.get(a[1], a[1])


ERR_NAMES = {1: "no-rate-yet", 2: "cache-missing", 3: "none-within-7-days", 11: "lookback(no-rate-yet)", 99: "other"}


# ------------------------------------------------------------ histories
def hist_case(truth, runs, cache="mem", seed=None, years=None):
    years = years if years is not None else sorted({year_of(o["day"]) for o in truth} |
                                                   {year_of(d) for r in runs for d in r["lookups"]})
    c = {"truth": [{"day": o["day"], "json": o["json"]} for o in truth], "cache": cache,
         "years": years, "runs": runs}
    if seed:
        c["seed_cache"] = {str(y): [[d, s] for d, s in rows] for y, rows in seed.items()}
    return c


def hist_ints(truth, runs, years, seed=None, reval=1):
    out = [0, reval] + truth_ints(truth)
    seed = seed or {}
    out.append(len(seed))
    for y in sorted(seed):
        out += [y, len(seed[y])]
        for d, s in seed[y]:
            out += [d] + qenc(Fraction(s))
    out += [len(years)] + list(years)
    out.append(len(runs))
    for r in runs:
        out += [r["today"], r["avail"], int(r["force"]), len(r["lookups"])] + list(r["lookups"])
    return out


def parse_hist_model(ints, nyears):
    rd = Reader(ints)
    if rd.z() != 1:
        return {"status": "bad-input"}
    st = rd.z()
    if st != 1:
        return {"status": "panic" if st == 2 else "rej"}
    runs = []
    for _ in range(rd.z()):
        answers = [read_answer(rd) for _ in range(rd.z())]
        dls = [(rd.z(), DAILY if rd.z() else NOON) for _ in range(rd.z())]
        runs.append({"answers": answers, "requests": dls})
    cache = []
    for _ in range(nyears):
        cache.append(read_drates(rd) if rd.z() else None)
    assert rd.done()
    return {"status": "ok", "runs": runs, "cache": cache}


def parse_hist_impl(o, years):
    if o.get("status") != "ok":
        return {"status": o.get("status"), "panic": o.get("panic")}
    runs = []
    for r in o["runs"]:
        runs.append({"answers": [impl_answer(a) for a in r["answers"]],
                     "requests": [(y, s) for y, s in r["requests"]],
                     "marks": r["req_marks"],
                     "cache_after": r.get("cache_after"),
                     "cache_files": r.get("cache_files")})
    cache = []
    for y in years:
        c = o["cache"][str(y)]
        cache.append(None if c is None else [(d, Fraction(s)) for d, s in c])
    return {"status": "ok", "runs": runs, "cache": cache}


def diff_hist(m, i):
    """first difference between model and implementation observables"""
    if m["status"] != i["status"]:
        return "outcome: model %s, implementation %s %s" % (m["status"], i["status"], i.get("panic", ""))
    if m["status"] != "ok":
        return None
    for k, (mr, ir) in enumerate(zip(m["runs"], i["runs"])):
        for j, (ma, ia) in enumerate(zip(mr["answers"], ir["answers"])):
            if ma != ia:
                return "run %d look-up %d: model %s, implementation %s" % (k, j, ans_str(ma), ans_str(ia))
        if mr["requests"] != ir["requests"]:
            return "run %d downloads: model %s, implementation %s" % (k, mr["requests"], ir["requests"])
    if m["cache"] != i["cache"]:
        for y, (mc, ic) in enumerate(zip(m["cache"], i["cache"])):
            if mc != ic:
                return "final cache content differs for year #%d: model %s..., implementation %s..." % (
                    y, str(mc)[:200], str(ic)[:200])
    return None


# ------------------------------------------------------------ calendars
def gen_pub_days(rng, start, end, style=None):
    """publication days in [start, end]: weekdays minus holidays, or runs and
    gaps of chosen lengths (gaps 0..9: weekends, long closures, > 7 days)"""
    style = style or rng.choice(["weekdays", "weekdays", "runs", "runs", "sparse"])
    days = []
    if style == "weekdays":
        p_holiday = rng.choice([0.0, 0.05, 0.2])
        for d in range(start, end + 1):
            if date_of(d).weekday() < 5 and rng.random() >= p_holiday:
                days.append(d)
    elif style == "runs":
        d = start + rng.randint(0, 3)
        while d <= end:
            for _ in range(rng.randint(1, 5)):
                if d <= end:
                    days.append(d)
                d += 1
            d += rng.choice([0, 1, 2, 2, 3, 5, 6, 7, 8, 9])
    else:
        for d in range(start, end + 1):
            if rng.random() < 0.15:
                days.append(d)
    return days


def gen_value(rng, daily):
    if daily:
        k = rng.random()
        if k < 0.7:
            return "0.%04d" % rng.randint(6200, 9900)
        if k < 0.85:
            return "0.%s" % "".join(rng.choice("0123456789") for _ in range(rng.randint(1, 20))) + rng.choice("123456789")
        if k < 0.95:
            return rng.choice(["1", "1.0000", "0.5", "0.75", "2", "0.8", "1.25", "0.3333"])
        return "%d.%02d" % (rng.randint(1, 40), rng.randint(0, 99))
    return "%d.%04d" % (rng.choice([0, 1, 1, 1, 1]), rng.randint(1, 9999))


def gen_truth(rng, days, p_bad=0.06, p_cross=0.04):
    """observations for the given publication days (ascending); the series
    key follows the year (daily from 2017) except in a few observations that
    carry the other key or both; a few malformed ones"""
    truth = []
    for d in days:
        daily = year_of(d) >= 2017
        k = rng.random()
        if k < p_bad:
            kind = rng.randint(0, 2)
            if kind == 0:
                o = mk_obs(d, bad_date=rng.randrange(len(BAD_DATES)),
                           **{"daily" if daily else "noon": gen_value(rng, daily)})
            elif kind == 1:
                o = mk_obs(d, **{"daily" if daily else "noon": ("bad", rng.choice(BAD_VALUES))})
            else:
                o = mk_obs(d)    # date only: no rate that day
        elif k < p_bad + p_cross:
            kind = rng.randint(0, 2)
            if kind == 0:
                o = mk_obs(d, noon=gen_value(rng, False), daily=gen_value(rng, True))
            elif kind == 1:
                o = mk_obs(d, **{"noon" if daily else "daily": gen_value(rng, not daily)})
            else:
                o = mk_obs(d, noon=("bad", rng.choice(BAD_VALUES)), daily=gen_value(rng, True))
        else:
            v = gen_value(rng, daily)
            num = rng.random() < 0.05 and len(v) <= 8 and not v.endswith("0") and not v.startswith("0.0")
            o = mk_obs(d, num_json=num, **{"daily" if daily else "noon": v})
        truth.append(o)
    return truth


def load_obs(o):
    """observation dict as read back from a replay file (tuples became lists)"""
    o = dict(o)
    for k in ("noon", "daily"):
        if isinstance(o.get(k), list):
            o[k] = tuple(o[k])
    return o


def replay_report(res, ctx, what):
    """common tail of the replay functions: report what a single re-evaluated
    case produced"""
    diffs = ctx.get("corr_diffs", [])
    fails = list(res.violations) + [(None, True)] * len(ctx.get("oracle_failures", []))
    for rep, _ in res.violations:
        print("replay: FAILS: %s" % rep["what"])
    for f in ctx.get("oracle_failures", []):
        last = f[-1]
        print("replay: FAILS: %s" % (f[-2] if isinstance(last, dict) else last[0] if isinstance(last, tuple) else last,))
    for _, d in diffs:
        print("replay: model and implementation differ: %s" % d)
    if not fails and not diffs:
        print("replay: property holds on this input (%s)" % what)
        return 0
    return 1


def covered_days(rows):
    return {d for d, _ in rows} if rows is not None else set()
