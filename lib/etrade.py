# E*TRADE group (C19): abstract confirmations -> text in the supported layouts
# (templates derived from tests/data/etrade_scenarios and the unit-test samples
# of src/peripheral/broker/etrade.rs), -> integer case for the extracted model,
# parsers for the tool's CSV / stderr, and the property oracle.
import csv
import datetime
import io
import re
from decimal import Decimal
from fractions import Fraction

# ------------------------------------------------------------------ helpers


def D(s):
    """exact value of a printed decimal (commas allowed)"""
    return Fraction(Decimal(s.replace(",", "")))


def dmy(o, fmt):
    d = datetime.date.fromordinal(o)
    if fmt == "dash":
        return "%02d-%02d-%04d" % (d.month, d.day, d.year)
    if fmt == "slash4":
        return "%02d/%02d/%04d" % (d.month, d.day, d.year)
    if fmt == "slash2":
        return "%02d/%02d/%02d" % (d.month, d.day, d.year % 100)
    if fmt == "iso":
        return d.isoformat()
    raise ValueError(fmt)


def iso_to_ord(s):
    return datetime.date.fromisoformat(s).toordinal()


TAIL = """This information was provided to E*TRADE Securities LLC, a subsidiary of Morgan Stanley, ("E*TRADE") by your company. E*TRADE does not guarantee the accuracy
or completeness of the information provided by your company. If a sale is associated with these shares, the trade confirmation provided by E*TRADE Securities LLC is
the only accurate record of the sale transaction.
The data shown on this statement is based on your company's records. The company reserves the right to make corrections to this data. The purchase shown on this
statement is subject to the terms of the plan under which the purchase was made.
03/05/2024 12:03:01 AM ET Page 1 of
1

"""

# ------------------------------------------------------------------ RSU


def render_rsu(r, style):
    """r: sym, date, award, released, sold, fmv, sale, fee (printed decimals)"""
    issued = "%.4f" % (Decimal(r["released"]) - Decimal(r["sold"]))
    if style == 0:   # pypdf-like (tests/data/.../2024_with_manual_sells/pypdf/rsu_1.txt)
        return f""" Release Summary
Account Number 123456789
Tax Payment Method Sell-to-cover
Company Name (Symbol) {r['sym']} SYSTEMS, INC.
({r['sym']})
Award Number {r['award']}
Award Date 05-08-2020
Award Type RSU
Plan 2014Release Date {dmy(r['date'], 'dash')}
Shares Released {r['released']}
Market Value Per Share ${r['fmv']}
Award Price Per Share $0.000000
Sale Price Per Share ${r['sale']}
 Release Details
Calculation of Gain
Market Value $1,000.00
Award Price ($0.00)
Total Gain $1,000.00
Stock Distribution
Award Shares {r['released']}
Shares Sold ({r['sold']})
Shares Issued {issued}
Registration: Morgan Stanley Smith BarneyCalculation of Taxes
 Taxable Gain $ Rate % Amount $
Canada-BC 1,000.00 0.0000 1,000.00
Total Tax $1,000.00
Cash Distribution
Total Sale Price $1,000.00
Total Tax ($1,000.00)
Fee (${r['fee']})
Total Due Participant $1,000.00EMPLOYEE STOCK PLAN RELEASE CONFIRMATION
Provided by {r['sym']} SYSTEMS, INC.
JOHN DOE
1 BLAH DRIVE
VANCOUVER, BC CA HOH OHOEmployee ID: 0001
""" + TAIL
    # lopdf-like (tests/data/.../2022_sample/lopdf/rsu.txt)
    return f"""

 Release Summary

Account Number 12345678
Tax Payment Method Sell-to-cover
Company Name (Symbol) {r['sym']} SYSTEMS, INC.
({r['sym']})
Award Number {r['award']}
Award Date 05-08-2020
Award Type RSU
Plan 2014
 Release Date {dmy(r['date'], 'dash')}
Shares Released {r['released']}
Market Value Per Share ${r['fmv']}
Award Price Per Share $0.000000
Sale Price Per Share ${r['sale']}

 Release Details

Calculation of Gain
Market Value $5,025.00
Award Price ($0.00)
Total Gain $5,025.00

Stock Distribution
Award Shares {r['released']}
Shares Sold ({r['sold']})
Shares Issued {issued}

Registration: ETRADE
 Calculation of Taxes
Taxable Gain $ Rate % Amount $
Canada-BC 5,025.00 25.000 1,256.25
Total Tax $1,256.25

Cash Distribution
Total Sale Price $1,415.03
Total Tax ($1,256.25)
Fee (${r['fee']})
Total Due Participant $137.48

EMPLOYEE STOCK PLAN RELEASE CONFIRMATION
Provided by {r['sym']} SYSTEMS, INC.
JOHN DOE
1 BLAH DRIVE
VANCOUVER, BC CA HOH OHO
 Employee ID: 0001

""" + TAIL.replace("\n", "\n\n", 3)


# ------------------------------------------------------------------ ESPP


def render_espp(r, style):
    """r: sym, date, purchased, fmv, sold|None, sale|None, fee|None"""
    sold_line = f"Shares Sold to Cover Taxes {r['sold']}\n" if r.get("sold") is not None else ""
    sale_line = f"Sale Price for Shares Sold to Cover Taxes ${r['sale']}\n" if r.get("sale") is not None else ""
    if style == 0:   # pypdf-like (2022_sample/pypdf/espp.txt)
        fee_lines = (f" Total Taxes Collected at purchase ($2,200.21)\nFees (${r['fee']})\n"
                     if r.get("fee") is not None else "")
        tail_stc = ("Value Of Shares Sold $2,500.0000\nAmount in Excess of Tax Due $202.0700\n"
                    if r.get("sold") is not None else "")
        return f""" Purchase Summary
Account Number 12345678
Company Name (Symbol) {r['sym']} SYSTEMS,
INC.({r['sym']})
Plan ESP2
Grant Date 08-17-2020
Purchase Begin Date 08-17-2021
Purchase Date {dmy(r['date'], 'dash')}Shares Purchased to Date in Current Offering
Beginning Balance 0.0000
Shares Purchased {r['purchased']}
Total shares Purchased for Offering {r['purchased']}
Shares Deposited in STREETNAME to
ETRADE{r['purchased']}
{sold_line} Purchase Details
Contributions
Foreign Contributions 0.00
Average Exchange Rate $0.790122
Previous Carry Forward $0.00
Current Contributions $0.00
Total Contributions $0.00*
Total Price ($2,422.51)
Carry Forward ($0.00)
Calculation of Gain
Total Value $4,844.58
Total Price ($2,422.51)
Taxable Gain $4,802.27Calculation of Shares Purchased
Grant Date Market Value $50.00000
Purchase Value per Share ${r['fmv']}
Purchase Price per Share
        (85.000% of $50.00000) $42.500000
Total Price
        (Shares Purchased x Purchase Price) $2,422.507200
{sale_line}{fee_lines}{tail_stc}Excess of Taxes Applied To
Cash Due Participant
Net Carry Forward $0.00EMPLOYEE STOCK PLAN PURCHASE CONFIRMATION
Provided by {r['sym']} SYSTEMS, INC.
JOHN DOE
1 BLAH DRIVE
VANCOUVER, BC CA HOH OHOEmployee ID: 0001
""" + TAIL
    # lopdf-like (2022_sample/lopdf/espp.txt)
    fee_lines = (f" Total Taxes Collected at purchase ($2,200.21) Fees (${r['fee']})\n"
                 if r.get("fee") is not None else "")
    tail_stc = ("Value Of Shares Sold $2,500.0000\nAmount in Excess of Tax Due $202.0700\n"
                if r.get("sold") is not None else "")
    return f"""

 Purchase Summary

Account Number 12345678
Company Name (Symbol) {r['sym']} SYSTEMS,
INC.({r['sym']})
Plan ESP2
Grant Date 08-17-2020
Purchase Begin Date 08-17-2021
Purchase Date {dmy(r['date'], 'dash')}
 Shares Purchased to Date in Current Offering
Beginning Balance 0.0000
Shares Purchased {r['purchased']}
Total shares Purchased for Offering {r['purchased']}
Shares Deposited in STREETNAME to
ETRADE {r['purchased']}

{sold_line}
 Purchase Details

Contributions
Foreign Contributions 0.00
Average Exchange Rate $0.790122
Previous Carry Forward $0.00
Current Contributions $0.00
Total Contributions $0.00*

Total Price ($2,422.51)
Carry Forward ($0.00)

Calculation of Gain
Total Value $4,844.58
Total Price ($2,422.51)
Taxable Gain $4,802.27
 Calculation of Shares Purchased
Grant Date Market Value $50.00000
Purchase Value per Share ${r['fmv']}
Purchase Price per Share
        (85.000% of $50.00000) $42.500000
Total Price
        (Shares Purchased x Purchase Price) $2,422.507200
{sale_line}
{fee_lines}{tail_stc}
Excess of Taxes Applied To

Cash Due Participant

Net Carry Forward $0.00

EMPLOYEE STOCK PLAN PURCHASE CONFIRMATION
Provided by {r['sym']} SYSTEMS, INC.
JOHN DOE
1 BLAH DRIVE
VANCOUVER, BC CA HOH OHO
 Employee ID: 0001

""" + TAIL


# ------------------------------------------------------------------ ESO


def render_eso(r, style):
    """r: sym, date, extype, shares_sold, grants: [{num, fmv, shares, sale, fee}]
    (layout of SAMPLE_ESO in src/peripheral/broker/etrade.rs)"""
    ind = "        " if style == 0 else ""
    gl = []
    for i, g in enumerate(r["grants"]):
        gl += [f"Grant {i + 1}", f"Grant Number {g['num']}", f"Exercise Market Value ${g['fmv']}",
               f"Shares Exercised {g['shares']}", f"Sale Price ${g['sale']}", f"Comission/Fee ${g['fee']}", ""]
    lines = ["", "Account Number 11223344", "Tax Payment Method Sell-to-cover",
             f"Company Name (Symbol) {r['sym']} Inc.", f"({r['sym']})", "",
             f"Exercise Type: {r['extype']} Registration", "", f"Shares Sold {r['shares_sold']}", "",
             "Exercise Details", ""] + gl + [
        f"Exercise Date:  {dmy(r['date'], 'slash4')}", "", f"Provided by {r['sym']} Inc.", "John Doe",
        "Employee ID: 1111", "STOCK PLAN EXERCISE CONFIRMATION", ""]
    return "\n".join(ind + l if l else l for l in lines)


# ------------------------------------------------------------------ trade confirmations


def render_tc_pre(r, style):
    """pre-2023 layout, several trades per document.
    r: acct, trades: [{td, sd, sym, act, qty, price, commission|None, fee|None}]
    (at least one of commission / fee is present: with neither, the description
    line has no line of its own in the real documents either)"""
    body = []
    for t in r["trades"]:
        mkt = "61" if style == 0 else "6 1"
        desc = f"{t['sym']} SYSTEMS INCCOM" if style == 0 else f"{t['sym']} SYSTEMS INC COM"
        body.append(f"{dmy(t['td'], 'slash2')} {dmy(t['sd'], 'slash2')} {mkt} {t['sym']} {t['act']} {t['qty']} "
                    f"${t['price']} Stock Plan PRINCIPAL $1,515.00")
        if t.get("commission") is not None:
            body.append(f"{desc} COMMISSION ${t['commission']}")
            if t.get("fee") is not None:
                body.append(f"FEE ${t['fee']}")
        else:
            body.append(f"{desc} FEE ${t['fee']}")
        body.append("NET AMOUNT $1,494.78")
        if style == 1:
            body.append("")
    body = "\n".join(body)
    if style == 0:   # pypdf-like (2022_sample/pypdf/trade_conf_2.txt)
        return f"""E*TRADE Securities LLC
P.O. Box484
Jersey City, NJ07303-0484DETACH HERE DETACH HERE
Make checks payable toE*TRADE Securities LLC.
Mail deposits to:ETRADE
Please donotsend cash Dollars Cents
TOTAL DEPOSITAccount Name:
JOHN DOE
ETRADE Securities LLC
P.O.Box484
Jersey City, NJ07303-0484
021620220001 900123456788Account Number: {r['acct']}
UseThis Deposit Slip Acct: {r['acct']}Investment Account
JOHN DOE
1 BLAH DR
VANCOUVER BCHOH OHO
CANADATRADECONFIRMATIONPage 1of2
TRADE
DATESETL
DATEMKT /
CPTSYMBOL /
CUSIPBUY /
SELL QUANTITY PRICEACCT
TYPE
{body}

237 9984 PBA 18397 1of1CEDLV AFPEDLV 16/02/22 21:40 001JOHN DOE
1 BLAH DR
VANCOUVER BCHOH OHO
CANADA
"""
    # lopdf-like (2022_sample/lopdf/trade_conf_1.txt)
    return f"""

E*TRADE Securities LLC
P.O. Box 484
Jersey City, NJ 07303-0484

DETACH HERE DETACH HERE

Make checks payable to E*TRADE Securities LLC.
Mail deposits to:
 E TRADE

Please do not send cash Dollars Cents

TOTAL DEPOSIT

Account Name:
JOHN DOE

E TRADE Securities LLC
P.O. Box 484
Jersey City, NJ 07303-0484
 021620220001 900123456788

Account Number: {r['acct']}
 Use This Deposit Slip Acct: {r['acct']}

Investment Account

JOHN DOE
1 BLAH DR
VANCOUVER BC HOH OHO
CANADA
 TRADE CONFIRMATION

Page 1 of 2

TRADE
DATE SETL
DATE MKT /
CPT SYMBOL /
CUSIP BUY /
SELL QUANTITY PRICE ACCT
TYPE
{body}

237 9984 PBA 1 8397 1 of 1 C EDLV AFPEDLV 16/02/22 21:40 001
 JOHN DOE
1 BLAH DR
VANCOUVER BC HOH OHO
CANADA
"""


def render_tc_post(r, style):
    """post-2023 (Morgan Stanley) layout, one trade per document
    (2024_with_manual_sells/pypdf/trade_conf_1.txt).
    r: acct, td, sd, qty, price, ttype, sym, commission|None, fee|None"""
    com = f"Commission ${r['commission']}\n" if r.get("commission") is not None else ""
    fee = f"Supplemental\nTransaction Fee ${r['fee']}\n" if r.get("fee") is not None else ""
    gap = "\n" if style == 1 else ""
    return f"""Morgan Stanley Smith Barney LLC. Member SIPC. The transaction(s) may have been executed with Morgan Stanley & Co. LLC, an
affiliate, which may receive compensation for any such services. E*TRADE is a business of Morgan Stanley.
1 of 2Your Account Number: {r['acct']}
Account Type - Cash
JOHN DOE
1 BLAH DR
VANCOUVER BC HOH OHO CANADA
E*TRADE from Morgan Stanley
P.O. BOX 484
JERSEY CITY, NJ 07303-0484
(800)-387-2331
This transaction is confirmed in accordance with the information provided on the Conditions and Disclosures page.
{gap}Trade Date Settlement Date Quantity Price Settlement Amount
{dmy(r['td'], 'slash4')} {dmy(r['sd'], 'slash4')} {r['qty']} {r['price']}
Transaction Type: {r['ttype']}
Description: {r['sym']} SYSTEMS INC
Symbol / CUSIP / ISIN: {r['sym']} / 040413106 / US0404131064Principal $1,000.00
{com}{fee}Net Amount $1,000.00
Unsolicited trade
Morgan Stanley Smith Barney LLC acted as agent.

2 of 2
"""


RENDER = {"rsu": render_rsu, "espp": render_espp, "eso": render_eso,
          "tc_pre": render_tc_pre, "tc_post": render_tc_post}


def render(f):
    return RENDER[f["kind"]](f["rec"], f.get("style", 0))


def path_key(p):
    """std::path::PathBuf ordering: component-wise"""
    return tuple(p.split("/"))


# ------------------------------------------------------------------ records


def act_of(word):
    w = word.lower()
    if re.search(r"\b(buy|bought)\b", w):
        return "Buy"
    if re.search(r"\b(sell|sold)\b", w):
        return "Sell"
    raise ValueError(word)


def zsum(xs):
    return sum(xs, Fraction(0))


def records(files):
    """what the text layer yields for the files in sorted path order:
    (benefits, trades) as dicts of exact values"""
    bens, trs = [], []
    for f in sorted(files, key=lambda f: path_key(f["path"])):
        r = f["rec"]
        base = f["path"].split("/")[-1]
        if f["kind"] == "rsu":
            bens.append(dict(sec=r["sym"], date=r["date"], settle=r["date"], price=D(r["fmv"]), shares=D(r["released"]),
                             stc_td=None, stc_sd=None, stc_price=D(r["sale"]), stc_shares=D(r["sold"]), stc_fee=D(r["fee"]),
                             note="RSU " + r["award"], sell_note=None, file=base))
        elif f["kind"] == "espp":
            opt = lambda k: D(r[k]) if r.get(k) is not None else None
            bens.append(dict(sec=r["sym"], date=r["date"], settle=r["date"], price=D(r["fmv"]), shares=D(r["purchased"]),
                             stc_td=None, stc_sd=None, stc_price=opt("sale"), stc_shares=opt("sold"), stc_fee=opt("fee"),
                             note="ESPP", sell_note=None, file=base))
        elif f["kind"] == "eso":
            n = len(r["grants"])
            fee_sum = zsum(D(g["fee"]) for g in r["grants"])
            for i, g in enumerate(r["grants"]):
                last = i == n - 1
                bens.append(dict(sec=r["sym"], date=r["date"], settle=r["date"], price=D(g["fmv"]), shares=D(g["shares"]),
                                 stc_td=r["date"] if last else None, stc_sd=r["date"] if last else None,
                                 stc_price=D(g["sale"]) if last else None,
                                 stc_shares=D(r["shares_sold"]) if last else None,
                                 stc_fee=fee_sum if last else None,
                                 note="Option Grant %d" % int(g["num"]), sell_note=r["extype"], file=base))
        elif f["kind"] == "tc_pre":
            for k, t in enumerate(r["trades"]):
                comm = zsum(D(t[x]) for x in ("commission", "fee") if t.get(x) is not None)
                trs.append(dict(sec=t["sym"], td=t["td"], sd=t["sd"], act=act_of(t["act"]), price=D(t["price"]),
                                shares=D(str(t["qty"])), comm=comm, file=base, row=k + 1, acct=r["acct"]))
        elif f["kind"] == "tc_post":
            comm = zsum(D(r[x]) for x in ("commission", "fee") if r.get(x) is not None)
            trs.append(dict(sec=r["sym"], td=r["td"], sd=r["sd"], act=act_of(r["ttype"]), price=D(r["price"]),
                            shares=D(str(r["qty"])), comm=comm, file=base, row=1, acct=r["acct"]))
        else:
            raise ValueError(f["kind"])
    for i, t in enumerate(trs):
        t["tag"] = i
    return bens, trs


# ------------------------------------------------------------------ model encoding


class Tables:
    def __init__(self):
        self.secs, self.notes, self.sells = [], [], []

    @staticmethod
    def _id(tab, s):
        if s not in tab:
            tab.append(s)
        return tab.index(s)

    def sec(self, s):
        return self._id(self.secs, s)

    def note(self, s):
        return self._id(self.notes, s)

    def sell(self, s):
        return self._id(self.sells, s)


def q(f):
    f = Fraction(f)
    return [f.numerator, f.denominator]


def oz(v):
    return [1, v] if v is not None else [0, 0]


def oq(v):
    return [1] + q(v) if v is not None else [0, 0, 1]


def encode(bens, trs, tab, arith=1):
    out = [1, arith, len(bens)]
    for b in bens:
        out += [tab.sec(b["sec"]), b["date"], b["settle"]] + q(b["price"]) + q(b["shares"])
        out += oz(b["stc_td"]) + oz(b["stc_sd"]) + oq(b["stc_price"]) + oq(b["stc_shares"]) + oq(b["stc_fee"])
        out += [tab.note(b["note"])] + (oz(tab.sell(b["sell_note"])) if b["sell_note"] is not None else [0, 0])
    out.append(len(trs))
    for t in trs:
        out += [tab.sec(t["sec"]), t["td"], t["sd"], 0 if t["act"] == "Buy" else 1]
        out += q(t["price"]) + q(t["shares"]) + q(t["comm"]) + [t["tag"]]
    return out


def memo_text(kind, note, has_sell, sell, tab):
    if kind == 0:
        return tab.notes[note]
    if kind == 1:
        return tab.notes[note] + " " + (tab.sells[sell] if has_sell else "sell-to-cover")
    return "(manual trade)"


def parse_model(ints, tab):
    it = iter(ints)
    nx = lambda: next(it)
    fq = lambda: Fraction(nx(), nx())
    st = nx()
    if st == 0:
        warn = nx()
        rows = []
        for _ in range(nx()):
            sec, td, sd, a = nx(), nx(), nx(), nx()
            sh, pr, cm = fq(), fq(), fq()
            mk, mn, hs, ms = nx(), nx(), nx(), nx()
            ri, acc = nx(), nx()
            rows.append(dict(sec=tab.secs[sec], td=td, sd=sd, act="Buy" if a == 0 else "Sell", shares=sh, price=pr,
                             comm=cm, memo=memo_text(mk, mn, hs, ms, tab), ri=ri, accepts=bool(acc)))
        matched = []
        for _ in range(nx()):
            matched.append([nx() for _ in range(nx())])
        return dict(status="rows", warnings=warn, rows=rows, matched=matched)
    if st == 1:
        errs = []
        for _ in range(nx()):
            errs.append((nx(), "nomatch" if nx() == 0 else "ambiguous"))
        return dict(status="errors", errors=errs)
    if st == 2:
        return dict(status="stc-incomplete" if nx() == 1902 else "rej")
    if st == 3:
        return dict(status="panic", panic=(nx(), nx()))
    return dict(status="malformed")


# ------------------------------------------------------------------ implementation output

HEADER = ["security", "trade date", "settlement date", "action", "shares", "amount/share", "commission", "currency", "memo"]
ERR_RE = re.compile(r"^Error: (Found no trades matching the sell-to-cover for|Unable to decide between multiple trade "
                    r"combinations could potentially constitute the sell-to-cover for) (.*?): (.*) (\d{4}-\d\d-\d\d):?$")


def parse_impl(o):
    """harness `extract` result -> canonical outcome"""
    if o.get("status") == "panic":
        return dict(status="panic", panic=o.get("panic"))
    err = o.get("err", "")
    if o["rc"] == 0:
        rd = list(csv.reader(io.StringIO(o["out"])))
        if not rd or rd[0] != HEADER:
            return dict(status="bad-output", detail="unexpected CSV header %r" % (rd[:1],))
        rows = []
        for r in rd[1:]:
            if len(r) != len(HEADER):
                return dict(status="bad-output", detail="row with %d cells: %r" % (len(r), r))
            rows.append(dict(sec=r[0], td=iso_to_ord(r[1]), sd=iso_to_ord(r[2]), act=r[3], shares=D(r[4]), price=D(r[5]),
                             comm=D(r[6]), curr=r[7], memo=r[8]))
        warn = len([l for l in err.split("\n") if l.startswith("Warning: sell-to-cover trades have varrying dates")])
        other = [l for l in err.split("\n") if l.startswith("Warning:") and "varrying dates" not in l]
        return dict(status="rows", rows=rows, warnings=warn, other_warnings=other)
    lines = [l for l in err.split("\n") if l.startswith("Error: ")]
    if lines and all(ERR_RE.match(l) for l in lines):
        errs = []
        for l in lines:
            m = ERR_RE.match(l)
            errs.append((m.group(2), m.group(3), iso_to_ord(m.group(4)), "nomatch" if m.group(1).startswith("Found") else "ambiguous"))
        return dict(status="errors", errors=errs)
    if len(lines) == 1 and lines[0].startswith("Error: Some, but not all, sell-to-cover fields were found"):
        return dict(status="stc-incomplete")
    return dict(status="other-error", detail=err[:500])


CORE = ("sec", "td", "sd", "act", "shares", "price", "comm", "memo")


def core(r):
    return tuple(r[k] for k in CORE)


def diff(model, impl, bens):
    """None if the observables agree"""
    if model["status"] != impl["status"]:
        return "outcome: model %s, implementation %s %s" % (model["status"], impl["status"],
                                                             impl.get("detail") or impl.get("panic") or impl.get("errors") or "")
    if model["status"] == "rows":
        a, b = [core(r) for r in model["rows"]], [core(r) for r in impl["rows"]]
        if a != b:
            for k in range(max(len(a), len(b))):
                x = a[k] if k < len(a) else None
                y = b[k] if k < len(b) else None
                if x != y:
                    return "row %d: model %s, implementation %s" % (k, fmt_row(x), fmt_row(y))
        if model["warnings"] != impl["warnings"]:
            return "warnings: model %d, implementation %d" % (model["warnings"], impl["warnings"])
    if model["status"] == "errors":
        a = [(bens[i]["file"], bens[i]["note"], bens[i]["date"], k) for i, k in model["errors"]]
        if a != impl["errors"]:
            return "errors: model %s, implementation %s" % (a, impl["errors"])
    return None


def fmt_row(r):
    if r is None:
        return "<none>"
    return "(%s %s %s %s sh=%s px=%s fee=%s %r)" % (r[0], dmy(r[1], "iso"), dmy(r[2], "iso"), r[3], r[4], r[5], r[6], r[7])


# ------------------------------------------------------------------ oracle


def expected_memo(b, stc):
    if not stc:
        return b["note"]
    return b["note"] + " " + (b["sell_note"] if b["sell_note"] is not None else "sell-to-cover")


def in_window(b, t):
    return t["act"] == "Sell" and t["sec"] == b["sec"] and b["date"] <= t["td"] <= b["date"] + 5


def subsets_summing(pool_idx, trs, target):
    """all non-empty subsets (as tuples of positions) of pool_idx whose share counts add up to target"""
    out = []
    n = len(pool_idx)

    def go(k, chosen, s):
        if k == n:
            if chosen and s == target:
                out.append(tuple(chosen))
            return
        go(k + 1, chosen + [pool_idx[k]], s + trs[pool_idx[k]]["shares"])
        go(k + 1, chosen, s)

    go(0, [], Fraction(0))
    return out


def oracle(bens, trs, impl):
    """The property evaluated on the implementation's own output, from the
    records only.  Returns a list of (what, detail) failures."""
    bad = []
    if impl["status"] == "rows":
        rows = impl["rows"]
        # rows ordered by settlement date
        for x, y in zip(rows, rows[1:]):
            if x["sd"] > y["sd"]:
                bad.append(("rows are not ordered by settlement date", "%s before %s" % (fmt_row(core(x)), fmt_row(core(y)))))
                break
        manual = [r for r in rows if r["memo"] == "(manual trade)"]
        plan = [r for r in rows if r["memo"] != "(manual trade)"]
        buys = [r for r in plan if r["act"] == "Buy"]
        sells = [r for r in plan if r["act"] == "Sell"]
        # each benefit: exactly one purchase of the released shares at the FMV on the release date
        exp_buys = sorted((b["sec"], b["date"], b["settle"], "Buy", b["shares"], b["price"], Fraction(0), b["note"]) for b in bens)
        got_buys = sorted(core(r) for r in buys)
        if exp_buys != got_buys:
            miss = [x for x in exp_buys if exp_buys.count(x) > got_buys.count(x)]
            extra = [x for x in got_buys if got_buys.count(x) > exp_buys.count(x)]
            bad.append(("benefit purchases differ from the benefits", "missing %s, unexpected %s" % (
                [fmt_row(x) for x in miss[:3]], [fmt_row(x) for x in extra[:3]])))
        # leftovers: each manual row is one trade confirmation with its own price, quantity, fees
        pool = list(range(len(trs)))
        for r in manual:
            hit = [i for i in pool if (trs[i]["sec"], trs[i]["td"], trs[i]["sd"], trs[i]["act"], trs[i]["shares"], trs[i]["price"], trs[i]["comm"])
                   == (r["sec"], r["td"], r["sd"], r["act"], r["shares"], r["price"], r["comm"])]
            if not hit:
                bad.append(("a manual-trade row is not one of the (remaining) trade confirmations", fmt_row(core(r))))
            else:
                pool.remove(hit[0])
        # conservation of sold shares (cheap necessary condition, reported with numbers)
        tot_in = zsum(t["shares"] for t in trs if t["act"] == "Sell")
        tot_out = zsum(r["shares"] for r in rows if r["act"] == "Sell")
        if tot_in != tot_out:
            bad.append(("sold shares are not accounted for exactly once",
                        "trade confirmations sell %s shares in total, the output sells %s" % (tot_in, tot_out)))
        # the remaining trades split into one group per sell-to-cover row
        stc_b = [b for b in bens if b["stc_shares"] is not None]
        if len(stc_b) != len(sells):
            bad.append(("number of sell-to-cover rows differs from the number of benefits with sold shares",
                        "%d rows, %d benefits" % (len(sells), len(stc_b))))
        elif not bad:
            used_rows = [False] * len(sells)

            def assign(k, pool):
                if k == len(stc_b):
                    return not pool
                b = stc_b[k]
                for j, r in enumerate(sells):
                    if used_rows[j]:
                        continue
                    if (r["sec"], r["shares"], r["price"], r["comm"], r["memo"]) != (
                            b["sec"], b["stc_shares"], b["stc_price"], b["stc_fee"], expected_memo(b, True)):
                        continue
                    cand = [i for i in pool if in_window(b, trs[i])]
                    for grp in subsets_summing(cand, trs, b["stc_shares"]):
                        if not any((trs[i]["td"], trs[i]["sd"]) == (r["td"], r["sd"]) for i in grp):
                            continue
                        used_rows[j] = True
                        if assign(k + 1, [i for i in pool if i not in grp]):
                            return True
                        used_rows[j] = False
                return False

            if not assign(0, pool):
                bad.append(("the trade confirmations that are not manual rows cannot be split into one group per sell-to-cover row "
                            "(same security, sold within [benefit date, +5 days], share counts adding up to the sold shares, row dated as a trade of the group)",
                            "sell-to-cover rows %s; unconsumed trades %s" % (
                                [fmt_row(core(r)) for r in sells],
                                [(trs[i]["sec"], dmy(trs[i]["td"], "iso"), str(trs[i]["shares"])) for i in pool])))
    # a sell-to-cover that cannot be matched must be an error
    if impl["status"] == "rows":
        for b in bens:
            if b["stc_shares"] is None:
                continue
            cand = [i for i in range(len(trs)) if in_window(b, trs[i])]
            if not subsets_summing(cand, trs, b["stc_shares"]):
                bad.append(("a sell-to-cover that no set of trade confirmations matches did not produce an error",
                            "%s %s sold %s" % (b["note"], dmy(b["date"], "iso"), b["stc_shares"])))
    return bad


def search_stats(bens, trs):
    """size of the matching problem (for the coverage report)"""
    best = 0
    multi = 0
    for b in bens:
        if b["stc_shares"] is None:
            continue
        cand = [i for i in range(len(trs)) if in_window(b, trs[i])]
        best = max(best, len(cand))
        if len(cand) <= 14 and len(subsets_summing(cand, trs, b["stc_shares"])) >= 2:
            multi += 1
    return best, multi
