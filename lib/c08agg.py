# C08, the report security by security: drive the extracted per-security
# components of the report (coq/Model/AppRender.v: own_table, footer_gains,
# own_errors, app_aggregate; group "c08agg") and compare them with what
# run_acb_app_to_render_model returns on the same case - every cell of every
# security table, the error slots, the footers' figures as numbers, the
# aggregate rows - and the run WITHOUT a failing security's rows (model) with
# the implementation's tables of the other securities in the run WITH them.
import collections
import copy
import re
from fractions import Fraction

import core
import rendermodel
from common import run_model, Reader

NUM = r"-?\d+(?:\.\d+)?"


def money(s):
    m = re.match(r"^\s*([+-]?)\$(" + NUM + r")", s)
    if not m:
        return None
    v = Fraction(m.group(2))
    return -v if m.group(1) == "-" else v


def footer_figures(table):
    """(total, {year: figure}) of a security table of the implementation (full precision)"""
    labels = table["footer"][8].split("\n")
    vals = table["footer"][9].split("\n")
    tot, years = None, {}
    for l, v in zip(labels, vals):
        if l == "Total":
            tot = money(v)
        else:
            years[int(l)] = money(v)
    return tot, years


def aggregate_figures(table):
    tot, years = None, {}
    for row in table["rows"]:
        if row[0] == "Since inception":
            tot = money(row[1])
        else:
            years[int(row[0])] = money(row[1])
    return tot, years


def rd_gains(rd):
    tot = rd.q()
    return tot, {rd.z(): rd.q() for _ in range(rd.z())}


def parse_components(ints):
    rd = Reader(ints)
    st = rd.z()
    if st != 1:
        return {"status": "model-error", "code": st}
    k = rd.z()
    if k == 1:
        return {"status": "err", "rej": rd.z()}
    if k == 2:
        return {"status": "panic", "panic": (rd.z(), rd.z())}
    full = rendermodel.rd_res(rd, rendermodel.rd_report)
    cents = rendermodel.rd_res(rd, rendermodel.rd_report)
    own = {}
    for _ in range(rd.z()):
        s = rd.z()
        own[s] = rendermodel.rd_res(rd, rd_gains)
    agg = rendermodel.rd_res(rd, rd_gains)
    assert rd.done()
    return {"status": "ok", "full": full, "cents": cents, "own": own, "agg": agg}


def run_components(cases, arith=1):
    enc = [rendermodel.pipeline_ints(c, arith) for c in cases]
    return [parse_components(o) for o in run_model([e[0] for e in enc], group="c08agg")]


def run_without(cases, tnums, arith=1):
    enc = [[1, t] + rendermodel.pipeline_ints(c, arith)[0][1:] for c, t in zip(cases, tnums)]
    return [parse_components(o) for o in run_model(enc, group="c08agg")]


def compare_numbers(r, m):
    """the footers' figures and the aggregate as numbers (rust_decimal rounding: equal, not close)"""
    out = []
    rf = r["raw"].get("render_full")
    if m["status"] != "ok" or not isinstance(rf, dict) or "secs" not in rf:
        return out
    names = {v: k for k, v in r["st"].items()}
    for snum, g in m["own"].items():
        t = rf["secs"].get(names.get(snum))
        if t is None or g["status"] != "ok":
            out.append("security %s: footer_gains of the model %s, implementation has %s table" % (names.get(snum), g["status"], "a" if t else "no"))
            continue
        if footer_figures(t) != g["value"]:
            out.append("security %s: the footer shows %s, footer_gains of the model is %s" % (names.get(snum), footer_figures(t), g["value"]))
    if m["agg"]["status"] == "ok" and aggregate_figures(rf["agg"]) != m["agg"]["value"]:
        out.append("the aggregate table shows %s, app_aggregate of the model is %s" % (aggregate_figures(rf["agg"]), m["agg"]["value"]))
    return out


def drop_security(r, sname):
    """the corecheck result r without security sname's table and outcome (for the comparison with the model's run
    on the input without that security's rows: the aggregate must not have changed)"""
    r2 = dict(r)
    r2["raw"] = copy.deepcopy(r["raw"])
    for key in ("render_full", "render_cents"):
        r2["raw"][key]["secs"].pop(sname, None)
    return r2


def _norm(part, v):
    """the affiliate column shows the FIRST spelling of the affiliate's name the process has seen (a process-wide
    table of affiliates, portfolio/model/affiliate.rs AffiliateDedupTable): its letter case is not a figure of the
    table and not a function of one run's input; it is compared up to case"""
    if part != "rows":
        return v
    return [[c.lower() if j == 14 else c for j, c in enumerate(row)] for row in v]


def same_tables(full_run, part_run, skip):
    """implementation against implementation: every table of the run on the reduced input is, string for string
    (rows, footer, notes, errors; both views), the table of that security in the run on the whole input; the
    aggregate tables are identical; `skip` (the failing security) has no table in the reduced run"""
    out = []
    for key in ("render_full", "render_cents"):
        a, b = full_run["raw"].get(key), part_run["raw"].get(key)
        if not (isinstance(a, dict) and isinstance(b, dict) and "secs" in a and "secs" in b):
            out.append("%s: no report (%s / %s)" % (key, str(a)[:80], str(b)[:80]))
            continue
        if set(a["secs"]) - {skip} != set(b["secs"]):
            out.append("%s: tables of %s with the failing security's rows, %s without" % (key, sorted(a["secs"]), sorted(b["secs"])))
            continue
        for s in b["secs"]:
            for part in ("header", "rows", "footer", "notes", "errors"):
                if _norm(part, a["secs"][s][part]) != _norm(part, b["secs"][s][part]):
                    out.append("%s: %s of the table of %s differ: %r with the failing security's rows, %r without" % (
                        key, part, s, a["secs"][s][part], b["secs"][s][part]))
                    break
        if a["agg"]["rows"] != b["agg"]["rows"]:
            out.append("%s: aggregate %r with the failing security's rows, %r without" % (key, a["agg"]["rows"], b["agg"]["rows"]))
    return out
