# Seeded generators of bookkeeping histories.  Every random choice comes from
# the one random.Random passed in.
import random
from fractions import Fraction

from core import BASE_DAY, D

AFS = ["", "(R)", "Spouse", "Spouse (R)", "Zed", "B", "Defaulty"]
GAPS = [0, 0, 0, 1, 1, 2, 5, 13, 27, 28, 29, 30, 31, 32, 33, 45, 90, 200]
WINDOW_GAPS = [0, 1, 2, 28, 29, 30, 31, 32]
RATIOS = [("2", "1"), ("3", "1"), ("3", "2"), ("1", "2"), ("1.0", "2.0"), ("10", "1"),
          ("5", "4"), ("1", "3"), ("1.0", "3.0"), ("2", "3"), ("1.5", "1"), ("1", "10"), ("7", "1"), ("1", "7"),
          ("2", "4"), ("4", "10"), ("3", "9"), ("2", "6"), ("6", "4"),     # ratios not in lowest terms
          ("1", "32"), ("1", "64"), ("1", "160"), ("64", "1"), ("25", "2"), ("12.5", "1"), ("20", "1")]  # long factors, two-digit sides
TERMINATING = [("2", "1"), ("3", "2"), ("1", "2"), ("1.0", "2.0"), ("10", "1"), ("5", "4"), ("1.5", "1"), ("1", "10"),
               ("1", "32"), ("1", "64"), ("1", "160"), ("64", "1"), ("25", "2"), ("12.5", "1"), ("20", "1")]
# security names: mostly the plain ones; sometimes names with lower-case letters, digits, a dot
SEC_NAMES = [["FOO", "BAR", "QUX"], ["FOO", "BAR", "QUX"], ["FOO", "BAR", "QUX"], ["Brk.b", "tdb900", "aXa"]]


def qty(rng):
    k = rng.random()
    if k < 0.5:
        return D(rng.choice([1, 2, 3, 5, 7, 10, 25, 100, 300]))
    if k < 0.8:
        return D(rng.randint(1, 5000), rng.choice([1, 2, 3, 4]))
    return D(rng.randint(1, 10 ** 7), rng.choice([4, 6, 8]))


def price(rng):
    k = rng.random()
    if k < 0.4:
        return D(rng.randint(1, 30000), 2)
    if k < 0.7:
        return D(rng.randint(1, 500))
    if k < 0.9:
        return D(rng.randint(1, 10 ** 8), rng.choice([3, 4, 5, 6]))
    return D(rng.randint(1, 10 ** 12), 10)


def commission(rng):
    k = rng.random()
    if k < 0.4:
        return None
    if k < 0.6:
        return D(0)
    return D(rng.choice([1, 499, 995, 1999, 1]), 2)


def currency(rng, p_foreign=0.35):
    """(cur, rate)"""
    k = rng.random()
    if k > p_foreign:
        return rng.choice([(None, None), ("CAD", None), ("CAD", D(1)), ("cad", D(10, 1))])
    if k < p_foreign / 2:
        return ("USD", D(rng.randint(9000, 15000), 4))
    return (rng.choice(["EUR", "gbp"]), D(rng.randint(100, 250), 2))


def gen_history(rng, sec="FOO", n_rows=None, afs=None, p_invalid=0.1, p_split=0.08,
                p_roc=0.08, p_sfl_spec=0.03, start=None, terminating_only=False,
                window_focus=False):
    """one security; tracks balances so that most histories are accepted"""
    n = n_rows if n_rows is not None else rng.randint(1, 14)
    afs = afs or rng.sample(AFS, rng.choice([1, 1, 2, 2, 3, 4]))
    day = BASE_DAY + (start if start is not None else rng.randint(0, 400))
    bal = {}
    rows = []
    gaps = WINDOW_GAPS if window_focus else GAPS
    for _ in range(n):
        day += rng.choice(gaps)
        af = rng.choice(afs)
        held = bal.get(af, Fraction(0))
        total = sum(bal.values(), Fraction(0))
        k = rng.random()
        td = day - rng.choice([0, 1, 2, 2, 2, 3])
        r = {"sec": sec, "td": td, "sd": day}
        afcell = af if af != "" else rng.choice([None, None, "Default", " default "])
        if k < p_split and total > 0:
            ratio = rng.choice(TERMINATING if terminating_only else RATIOS)
            r["act"] = "Split"
            r["split"] = ratio
            f = Fraction(ratio[0]) / Fraction(ratio[1])
            if rng.random() < 0.5:
                r["af"] = None  # global
                for a in list(bal):
                    bal[a] *= f
            else:
                r["af"] = af if af != "" else "Default"
                bal[af] = held * f
            rows.append(r)
            continue
        if k < p_split + p_roc and held > 0 and "(R)" not in af:
            r["act"] = "RoC"
            r["aps"] = D(rng.randint(1, 50), 2)
            c = currency(rng, 0.2)
            r["cur"], r["rate"] = c
            r["af"] = afcell
            rows.append(r)
            continue
        invalid = rng.random() < p_invalid
        if held > 0 and (rng.random() < 0.45 or invalid):
            # sell
            r["act"] = "Sell"
            if invalid:
                q = D(int(held) + rng.randint(1, 5))
            else:
                kk = rng.random()
                if kk < 0.3:
                    q = (None, held)
                elif kk < 0.6 and held >= 1:
                    q = D(rng.randint(1, max(1, int(held))))
                else:
                    q = qty(rng)
                    if q[1] > held:
                        q = (None, held)
                if q[0] is None:
                    from core import dtext
                    try:
                        q = (dtext(q[1]), q[1])
                    except ValueError:
                        q = D(max(1, int(held)))
                        if q[1] > held:
                            continue
            r["sh"] = q
            r["aps"] = price(rng)
            r["com"] = commission(rng)
            r["cur"], r["rate"] = currency(rng)
            if rng.random() < 0.1:
                r["ccur"], r["crate"] = currency(rng, 0.7)
            if rng.random() < p_sfl_spec:
                r["sfl"] = (D(-rng.randint(0, 5000), 2), rng.random() < 0.5)
                if rng.random() < 0.25:
                    # an explicit "no superficial loss", forced or not
                    r["sfl"] = (rng.choice([D(0), D(0, 2)]), rng.random() < 0.4)
            r["af"] = afcell
            bal[af] = held - q[1]
        else:
            r["act"] = "Buy"
            q = qty(rng)
            r["sh"] = q
            r["aps"] = price(rng)
            r["com"] = commission(rng)
            r["cur"], r["rate"] = currency(rng)
            if rng.random() < 0.1:
                r["ccur"], r["crate"] = currency(rng, 0.7)
            r["af"] = afcell
            bal[af] = held + q[1]
        rows.append(r)
    return rows


def gen_case(rng, **kw):
    nsec = rng.choice([1, 1, 1, 2, 3])
    rows = []
    inits = {}
    names = rng.choice(SEC_NAMES)
    for s in range(nsec):
        sec = names[s]
        rows += gen_history(rng, sec=sec, **kw)
        if rng.random() < 0.15:
            sc = rng.choice([2, 2, 2, 3, 6])
            inits[sec] = (D(rng.randint(0, 500), rng.choice([0, 1])), D(rng.randint(0, 10 ** (3 + sc)), sc))
    # interleave the securities' rows (keeping each one's order), as a user file would
    if nsec > 1 and rng.random() < 0.7:
        rows.sort(key=lambda r: (r["sd"], rng.random()))
    return {"rows": rows, "inits": inits}


def init_specs(case):
    return ["%s:%s:%s" % (s, v[0][0], v[1][0]) for s, v in sorted(case.get("inits", {}).items())]
