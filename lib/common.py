# Shared machinery of the checks: builds (Rocq tree, extracted model, Rust
# harness against the current working tree of the repository), process
# runners, proof-obligation accounting, evidence and verdict output.
import fcntl
import hashlib
import json
import os
import re
import subprocess
import sys
import time
from fractions import Fraction

VERIF = os.path.dirname(os.path.dirname(os.path.abspath(__file__)))
REPO = os.environ.get("ACB_REPO", "/repo")
BUILD = os.path.join(VERIF, "build")
COQ = os.path.join(VERIF, "coq")
NPROC = min(16, os.cpu_count() or 4)

FORBIDDEN = re.compile(
    r"\b(Admitted|admit|Axiom|Axioms|Parameter|Parameters|Conjecture|Hypothesis|Hypotheses|Variable|Variables)\b"
    r"|Unset\s+Guard|bypass_check|type-in-type|impredicative-set|Admit\s+Obligations|Unset\s+Positivity|Unset\s+Universe"
)
# axioms of the standard library that may appear in Print Assumptions
AXIOM_ALLOW = {
    "functional_extensionality_dep",
    "proof_irrelevance",
    "classic",
    "JMeq_eq",
    "Eqdep.Eq_rect_eq.eq_rect_eq",
    "eq_rect_eq",
}

TRUSTED_BASE = [
    "Rocq/Coq 8.16.1 kernel (coqc full .vo build; no -vos); vm_compute used for witnesses and examples; no native_compute",
    "Axioms: none declared by the development; Print Assumptions of every property theorem is scraped on every run and must be 'Closed under the global context' or within the allow-list of standard-library axioms",
    "Extraction: ExtrOcamlBasic only (Extract Inductive bool/option/unit/list/prod/sumbool/sumor from that file; no Extract Constant); OCaml 4.13 + zarith only for decimal text <-> extracted Z in ocaml/driver.ml",
    "Correspondence check (hand-written model, differential): Python generators/renderers/canonicalisation in /verif/lib, Rust harness /verif/harness driving the public API of the repository built from its current working tree",
    "Assumed oracle: rust_decimal arithmetic = Base/Fit.v `fit` (re-validated against the real crate on every run)",
    "Modelled, not verified (hand-written Gallina transliterations under coq/Model, tied to the code only by the differential checks): bookkeeping core (delta_list.rs, portfolio_status.rs, superficial_loss.rs, splits.rs expansion, approot.rs per-security pipeline), cumulative gains, report renderer (render.rs cells and cent text), transaction CSV reader/writer after tokenisation (tx_csv.rs, Tx::try_from) and its bridge to the ledger rows, summary generation, total-cost tables, exchange-rate look-up / cache state machine / cache file protocol, Questrade sheet conversion and statement table parser, E*TRADE matching core",
    "Not modelled (exercised through the real code only): csv crate tokenisation/quoting, regex engine, json crate, office/xlsx decoding, lopdf/pdf-extract, tabled table drawing, clap option parsing, time-crate date formats, async executor, HTTP, OS/filesystem (except the crash/persistence rule assumed in Model/CrashFs.v)",
]


def groups():
    return json.load(open(os.path.join(VERIF, "groups.json")))


def group_of(prop):
    g = groups()
    for name, v in g.items():
        if prop in v["props"]:
            return name, v
    raise KeyError("property %s is in no group of groups.json" % prop)


def log(*a):
    print(*a, file=sys.stderr, flush=True)


class Lock:
    def __init__(self, name):
        os.makedirs(BUILD, exist_ok=True)
        self.path = os.path.join(BUILD, name + ".lock")

    def __enter__(self):
        self.f = open(self.path, "w")
        fcntl.flock(self.f, fcntl.LOCK_EX)
        return self

    def __exit__(self, *a):
        fcntl.flock(self.f, fcntl.LOCK_UN)
        self.f.close()


def child_env(extra=None):
    env = dict(os.environ)
    for k in ("DISPLAY_OPT_NONE", "RUST_LOG", "TRACE", "VERBOSE"):
        env.pop(k, None)
    env["RUST_BACKTRACE"] = "0"
    env["CARGO_NET_OFFLINE"] = "true"
    if os.environ.get("VERIF_COV"):
        os.makedirs(os.path.join(BUILD, "cov"), exist_ok=True)
        env["LLVM_PROFILE_FILE"] = os.path.join(BUILD, "cov", "p-%p-%8m.profraw")
    if extra:
        env.update(extra)
    return env


# ---------------------------------------------------------------- Rocq build
def coq_sources():
    out = []
    for root, _, files in os.walk(COQ):
        if "/extracted" in root:
            continue
        for f in files:
            if f.endswith(".v"):
                out.append(os.path.join(root, f))
    return sorted(out)


def forbidden_scan():
    """grep the development for anything that declares an axiom or switches a
    kernel check off; comments are stripped first."""
    hits = []
    for p in coq_sources():
        src = open(p).read()
        src = strip_comments(src)
        for i, line in enumerate(src.split("\n"), 1):
            m = FORBIDDEN.search(line)
            if m:
                # Variables inside Sections are allowed (Section ... End)
                if m.group(0) in ("Variable", "Variables", "Hypothesis", "Hypotheses") and in_section(src, i):
                    continue
                hits.append("%s:%d: %s" % (os.path.relpath(p, COQ), i, line.strip()))
    return hits


def strip_comments(src):
    out = []
    depth = 0
    i = 0
    while i < len(src):
        if src.startswith("(*", i):
            depth += 1
            i += 2
        elif src.startswith("*)", i) and depth > 0:
            depth -= 1
            i += 2
        else:
            if depth == 0:
                out.append(src[i])
            elif src[i] == "\n":
                out.append("\n")
            i += 1
    return "".join(out)


def in_section(src, lineno):
    depth = 0
    for i, line in enumerate(src.split("\n"), 1):
        if i >= lineno:
            break
        if re.match(r"\s*Section\s+\w+", line):
            depth += 1
        elif re.match(r"\s*End\s+\w+", line) and depth > 0:
            depth -= 1
    return depth > 0


def build_coq(prop=None):
    """full .vo build (incremental) of what property `prop` depends on: its
    Properties file and the extraction of its model group; all of the tree
    when prop is None.  returns (ok, log)"""
    with Lock("coq"):
        # generate the Makefile from the _CoqProject lines whose file exists
        # (a listed but not yet written file must not stop other targets)
        proj = open(os.path.join(COQ, "_CoqProject")).read().split("\n")
        keep = [l for l in proj if not l.strip().endswith(".v") or os.path.exists(os.path.join(COQ, l.strip()))]
        gen = "\n".join(keep) + "\n"
        gp = os.path.join(COQ, "_CoqProject.gen")
        mk = os.path.join(COQ, "Makefile.gen")
        if not os.path.exists(gp) or open(gp).read() != gen or not os.path.exists(mk):
            open(gp, "w").write(gen)
            subprocess.run(["coq_makefile", "-f", "_CoqProject.gen", "-o", "Makefile.gen"],
                           cwd=COQ, check=True, stdout=subprocess.DEVNULL)
        os.makedirs(os.path.join(COQ, "extracted"), exist_ok=True)
        targets = []
        gname = None
        extra = []
        if prop is not None:
            gname, g = group_of(prop)
            targets = ["Properties/%s.vo" % prop, g["extract"]]
            # auxiliary extraction groups (no properties of their own) used by this property's check
            extra = [n for n, v in groups().items() if prop in v.get("for", [])]
            targets += [groups()[n]["extract"] for n in extra]
        p = subprocess.run(["timeout", "3000", "make", "-f", "Makefile.gen", "-k", "-j%d" % NPROC] + targets,
                           cwd=COQ, stdout=subprocess.PIPE, stderr=subprocess.STDOUT, text=True)
        ok = p.returncode == 0
        out = p.stdout
        for n in ([gname] + extra if gname else list(groups())):
            try:
                build_ocaml(n)
            except RuntimeError as e:
                if gname:
                    ok = False
                out += "\n" + str(e)
        return ok, out


def build_ocaml(gname):
    g = groups()[gname]
    d = os.path.join(BUILD, "ocaml-" + gname)
    os.makedirs(d, exist_ok=True)
    ml = os.path.join(COQ, "extracted", g["ml"] + ".ml")
    mli = os.path.join(COQ, "extracted", g["ml"] + ".mli")
    drv = os.path.join(VERIF, "ocaml", "driver.ml")
    if not os.path.exists(ml):
        return
    exe = os.path.join(d, "modelrun")
    srcs = [ml, mli, drv]
    if os.path.exists(exe) and all(os.path.getmtime(x) <= os.path.getmtime(exe) for x in srcs):
        return
    subprocess.run(["cp", ml, os.path.join(d, "model.ml")], check=True)
    subprocess.run(["cp", mli, os.path.join(d, "model.mli")], check=True)
    subprocess.run(["cp", drv, os.path.join(d, "driver.ml")], check=True)
    p = subprocess.run(["ocamlfind", "ocamlopt", "-O2", "-package", "zarith", "-linkpkg",
                        "model.mli", "model.ml", "driver.ml", "-o", "modelrun.tmp"],
                       cwd=d, stdout=subprocess.PIPE, stderr=subprocess.STDOUT, text=True)
    if p.returncode != 0:
        raise RuntimeError("ocaml build failed:\n" + p.stdout)
    os.replace(os.path.join(d, "modelrun.tmp"), exe)


def modelrun(gname="core"):
    return os.path.join(BUILD, "ocaml-" + gname, "modelrun")


MODELRUN = modelrun("core")


def print_assumptions(prop, names):
    """run Print Assumptions on the property theorems; returns {name: text}"""
    if not names:
        return {}
    d = os.path.join(BUILD, "pa")
    os.makedirs(d, exist_ok=True)
    f = os.path.join(d, "PA_%s.v" % prop)
    with open(f, "w") as fh:
        fh.write("From ACB Require Import Properties.%s.\n" % prop)
        for n in names:
            fh.write('Goal True. idtac "@@BEGIN %s". Abort.\nPrint Assumptions %s.\n' % (n, n))
        fh.write('Goal True. idtac "@@END". Abort.\n')
    p = subprocess.run(
        ["timeout", "600", "coqc", "-Q", COQ, "ACB", "-w", "-all", f],
        cwd=d, stdout=subprocess.PIPE, stderr=subprocess.STDOUT, text=True,
    )
    res = {}
    if p.returncode != 0:
        for n in names:
            res[n] = "ERROR: " + p.stdout[-2000:]
        return res
    cur = None
    buf = []
    for line in p.stdout.split("\n"):
        m = re.match(r"@@BEGIN (\S+)", line)
        if m or line.startswith("@@END"):
            if cur:
                res[cur] = "\n".join(buf).strip()
            cur = m.group(1) if m else None
            buf = []
        elif cur:
            buf.append(line)
    return res


def assumptions_ok(text):
    if text.startswith("ERROR"):
        return False, ["<coqc failed>"]
    if "Closed under the global context" in text:
        return True, []
    axioms = []
    for line in text.split("\n"):
        m = re.match(r"^([A-Za-z_][\w.']*)\s*:", line)
        if m:
            axioms.append(m.group(1))
    bad = [a for a in axioms if a not in AXIOM_ALLOW and a.split(".")[-1] not in AXIOM_ALLOW]
    return (len(bad) == 0 and len(axioms) > 0), axioms


def load_obligations(prop):
    p = os.path.join(VERIF, "obligations.d", prop + ".json")
    if not os.path.exists(p):
        return []
    return json.load(open(p))


def check_proofs(prop):
    """returns dict(obligations, discharged, details, failures)"""
    obs = load_obligations(prop)
    ok, out = build_coq(prop)
    hits = forbidden_scan()
    failures = []
    if not obs:
        failures.append("no proof obligations registered for %s (obligations.d/%s.json missing or empty): "
                        "nothing is shown to hold" % (prop, prop))
    if hits:
        failures.append("forbidden constructs: " + "; ".join(hits[:5]))
    vo = os.path.join(COQ, "Properties", prop + ".vo")
    vsrc = os.path.join(COQ, "Properties", prop + ".v")
    compiled = os.path.exists(vo) and os.path.getmtime(vo) >= os.path.getmtime(vsrc)
    if not ok:
        # identify failing files
        errs = re.findall(r'File "\./([^"]+)", line (\d+)[^\n]*\n(Error:[^\n]*(?:\n[^\n]+){0,3})', out)
        failures.append("coq build failed: " + "; ".join("%s:%s %s" % (f, l, e.replace("\n", " ")[:200]) for f, l, e in errs[:3]))
    details = {}
    discharged = 0
    if compiled and ok:
        src = strip_comments(open(vsrc).read())
        pa = print_assumptions(prop, [o["name"] for o in obs])
        for o in obs:
            n = o["name"]
            txt = pa.get(n, "ERROR: missing")
            good, axioms = assumptions_ok(txt)
            pinned = re.search(r"\bCheck\s+%s\s*:" % re.escape(n), src) is not None
            stated = re.search(r"\b(Theorem|Lemma|Example)\s+%s\b" % re.escape(n), src) is not None
            details[n] = {"assumptions": "closed" if good and not axioms else ", ".join(axioms), "kind": o.get("kind", "theorem")}
            if o.get("kind") == "example":
                pinned = True
            if good and stated and pinned:
                discharged += 1
            else:
                failures.append("obligation %s: %s" % (n, "not stated in Properties file" if not stated else "statement not pinned by Check" if not pinned else "assumptions: " + txt[:300]))
    elif obs:
        failures.append("Properties/%s.vo was not produced" % prop)
    return {
        "obligations": len(obs),
        "discharged": discharged,
        "details": details,
        "failures": failures,
        "build_ok": ok,
    }


# ---------------------------------------------------------------- Rust build
def harness_dir():
    tag = hashlib.sha1(REPO.encode()).hexdigest()[:8]
    return os.path.join(BUILD, "harness-" + tag)


def build_harness(gname="core"):
    """build the harness binary of a group against the current tree of REPO"""
    d = harness_dir()
    with Lock("cargo-" + os.path.basename(d)):
        os.makedirs(d, exist_ok=True)
        tmpl = open(os.path.join(VERIF, "harness", "Cargo.toml.in")).read()
        tmpl = tmpl.replace("@ACB_REPO@", REPO).replace("@SRC@", os.path.join(VERIF, "harness", "src"))
        cp = os.path.join(d, "Cargo.toml")
        if not os.path.exists(cp) or open(cp).read() != tmpl:
            open(cp, "w").write(tmpl)
        lock = os.path.join(d, "Cargo.lock")
        if not os.path.exists(lock):
            subprocess.run(["cp", os.path.join(REPO, "Cargo.lock"), lock], check=True)
        if os.environ.get("VERIF_COV"):
            # development aid (bin/coverage): the same harness built with source-based coverage
            # instrumentation (stable rustc -C instrument-coverage; the report tools come from the nightly llvm-tools), into its own target directory
            p = subprocess.run(["cargo", "build", "--release", "--offline", "--bin", "acbh_" + gname,
                                "--target-dir", os.path.join(d, "target-cov")],
                               cwd=d, env=child_env({"RUSTFLAGS": "-C instrument-coverage"}),
                               stdout=subprocess.PIPE, stderr=subprocess.STDOUT, text=True)
            if p.returncode != 0:
                return None, p.stdout
            return os.path.join(d, "target-cov", "release", "acbh_" + gname), p.stdout
        p = subprocess.run(["cargo", "build", "--release", "--offline", "--bin", "acbh_" + gname],
                           cwd=d, env=child_env(), stdout=subprocess.PIPE, stderr=subprocess.STDOUT, text=True)
        if p.returncode != 0:
            return None, p.stdout
        return os.path.join(d, "target", "release", "acbh_" + gname), p.stdout


def build_bins():
    """the front-end binaries of the repository, built from the current tree
    into /verif/build (never into the repository's own target dir)"""
    tag = hashlib.sha1(REPO.encode()).hexdigest()[:8]
    td = os.path.join(BUILD, "bin-target-" + tag)
    extra = {}
    if os.environ.get("VERIF_COV"):
        td += "-cov"            # development aid (bin/coverage): instrumented copies of the front ends
        extra = {"RUSTFLAGS": "-C instrument-coverage"}
    with Lock("cargo-bin-" + tag):
        p = subprocess.run(
            ["cargo", "build", "--release", "--offline", "--locked", "--manifest-path",
             os.path.join(REPO, "Cargo.toml"), "--target-dir", td, "--bins"],
            env=child_env(dict({"CARGO_PROFILE_RELEASE_OPT_LEVEL": "1", "CARGO_PROFILE_RELEASE_DEBUG_ASSERTIONS": "true",
                                "CARGO_PROFILE_RELEASE_OVERFLOW_CHECKS": "true"}, **extra)),
            stdout=subprocess.PIPE, stderr=subprocess.STDOUT, text=True,
        )
        if p.returncode != 0:
            return None, p.stdout
        return os.path.join(td, "release"), p.stdout


# ---------------------------------------------------------------- runners
def _shard(items, n):
    k = max(1, min(n, len(items)))
    return [items[i::k] for i in range(k)], k


def run_lines(cmd, lines, nproc=NPROC, env=None, timeout=3000):
    """feed lines to `nproc` copies of cmd, return outputs in order"""
    if not lines:
        return []
    shards, k = _shard(list(enumerate(lines)), nproc)
    procs = []
    for sh in shards:
        p = subprocess.Popen(cmd, stdin=subprocess.PIPE, stdout=subprocess.PIPE,
                             stderr=subprocess.PIPE, text=True, env=env or child_env())
        procs.append((p, sh))
    # write inputs with threads to avoid deadlock
    import threading

    outs = {}

    def feed(p, sh):
        data = "\n".join(l for _, l in sh) + "\n"
        o, e = p.communicate(data, timeout=timeout)
        res = o.split("\n")
        if res and res[-1] == "":
            res.pop()
        outs[id(p)] = (res, e, p.returncode)

    ths = [threading.Thread(target=feed, args=(p, sh)) for p, sh in procs]
    for t in ths:
        t.start()
    for t in ths:
        t.join()
    result = [None] * len(lines)
    for p, sh in procs:
        res, e, rc = outs[id(p)]
        if rc != 0 or len(res) != len(sh):
            raise RuntimeError("runner %s failed rc=%s got %d/%d lines\nstderr: %s" % (cmd, rc, len(res), len(sh), e[-2000:]))
        for (i, _), r in zip(sh, res):
            result[i] = r
    return result


def run_harness(exe, mode, cases, nproc=NPROC):
    outs = run_lines([exe, mode], [json.dumps(c) for c in cases], nproc)
    return [json.loads(o) for o in outs]


def run_model(int_lists, nproc=NPROC, group="core"):
    outs = run_lines([modelrun(group)], [" ".join(str(int(x)) for x in l) for l in int_lists], nproc)
    res = []
    for o in outs:
        res.append([int(x) for x in o.split()])
    return res


# ---------------------------------------------------------------- numbers
def frac(s):
    if s is None:
        return None
    return Fraction(s)


def qenc(f):
    f = Fraction(f)
    return [f.numerator, f.denominator]


class Reader:
    """cursor over the integer list returned by the model"""

    def __init__(self, l):
        self.l = l
        self.i = 0

    def z(self):
        v = self.l[self.i]
        self.i += 1
        return v

    def q(self):
        n = self.z()
        d = self.z()
        return Fraction(n, d)

    def opt(self):
        t = self.z()
        q = self.q()
        return q if t else None

    def done(self):
        return self.i == len(self.l)


# ---------------------------------------------------------------- verdicts
def write_replay(prop, obj):
    d = os.path.join(VERIF, "replays", prop)
    os.makedirs(d, exist_ok=True)
    blob = json.dumps(obj, indent=1, sort_keys=True, default=str)
    h = hashlib.sha1(blob.encode()).hexdigest()[:12]
    p = os.path.join(d, h + ".json")
    open(p, "w").write(blob)
    return p


def load_known(prop):
    p = os.path.join(VERIF, "known-findings.json")
    if not os.path.exists(p):
        return []
    return [k for k in json.load(open(p)).get("findings", []) if k["property"] == prop]


def write_evidence(prop, tier, seed, coverage, wall, violations, assumptions=None, level="proof"):
    os.makedirs(os.path.join(VERIF, "evidence"), exist_ok=True)
    ev = {
        "property_id": prop,
        "tier": tier,
        "seed": seed,
        "level": level,
        "coverage": coverage,
        "assumptions": assumptions or [],
        "wall_s": round(wall, 2),
        "violations": violations,
    }
    p = os.path.join(VERIF, "evidence", prop + ".json")
    tmp = p + ".tmp"
    open(tmp, "w").write(json.dumps(ev, indent=1, default=str))
    os.replace(tmp, p)


class Result:
    """accumulates what a check run found"""

    def __init__(self, prop, tier, seed):
        self.prop = prop
        self.tier = tier
        self.seed = seed
        self.t0 = time.time()
        self.violations = []   # (replay_obj, found_input: bool)
        self.known_hits = []
        self.coverage = {}
        self.assumptions = []

    def violation(self, kind, what, replay, found_input=True):
        replay = dict(replay)
        replay.update({"property": self.prop, "kind": kind, "what": what,
                       "repo": REPO, "seed": self.seed})
        self.violations.append((replay, found_input))

    def known(self, text):
        self.known_hits.append(text)

    def finish(self, proofs):
        cov = dict(self.coverage)
        cov["obligations"] = proofs["obligations"]
        cov["discharged"] = proofs["discharged"]
        cov["checker_cmd"] = "cd /verif/coq && coq_makefile -f _CoqProject -o Makefile && make -j16 (full .vo build); coqc Print Assumptions per obligation; grep for Admitted/Axiom/..."
        cov["trusted_base"] = TRUSTED_BASE + ["Print Assumptions: " + "; ".join("%s: %s" % (k, v["assumptions"]) for k, v in proofs["details"].items())]
        cov["obligation_details"] = proofs["details"]
        if proofs["failures"]:
            self.violation("broken-obligation", "; ".join(proofs["failures"]),
                           {"theorem_or_projection": proofs["failures"]}, found_input=False)
        rc = 0
        lines = []
        for k in self.known_hits:
            lines.append("KNOWN-FINDING: property=%s %s" % (self.prop, k))
        # report violations with a failing input first
        self.violations.sort(key=lambda v: not v[1])
        for rep, found in self.violations[:5]:
            path = write_replay(self.prop, rep)
            lines.append("VIOLATION property=%s replay=%s%s" % (self.prop, path, "" if found else " no-failing-input-found"))
            rc = 1
        write_evidence(self.prop, self.tier, self.seed, cov, time.time() - self.t0,
                       len(self.violations), self.assumptions)
        for l in lines:
            print(l, flush=True)
        if rc == 0:
            print("OK property=%s tier=%s obligations=%d/%d evaluations=%s wall=%.1fs" % (
                self.prop, self.tier, proofs["discharged"], proofs["obligations"],
                cov.get("evaluations"), time.time() - self.t0), flush=True)
        return rc
