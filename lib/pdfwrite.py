# A minimal PDF writer for the real-binary pass of C20: one page per list of
# text lines, Courier, one Tj per line.  The black square that starts a holding
# line of a Questrade statement is byte 0x80 of the font, mapped to U+25A0 by a
# ToUnicode CMap, so that a text extractor gives back the lines as written.
SQUARE = "■"

_CMAP = b"""/CIDInit /ProcSet findresource begin
12 dict begin
begincmap
/CIDSystemInfo << /Registry (Adobe) /Ordering (UCS) /Supplement 0 >> def
/CMapName /Adobe-Identity-UCS def
/CMapType 2 def
1 begincodespacerange
<00> <FF>
endcodespacerange
1 beginbfchar
<80> <25A0>
endbfchar
1 beginbfrange
<20> <7E> <0020>
endbfrange
endcmap
CMapName currentdict /CMap defineresource pop
end
end
"""


def _lit(s):
    out = []
    for ch in s:
        if ch == SQUARE:
            out.append("\\200")
        elif ch in "()\\":
            out.append("\\" + ch)
        elif 32 <= ord(ch) < 127:
            out.append(ch)
        else:
            raise ValueError("character %r is outside what this writer maps" % ch)
    return "".join(out)


def make_pdf(pages):
    """pages: list of lists of lines -> bytes"""
    objs = {}
    kids = []
    for i, lines in enumerate(pages):
        pobj, cobj = 5 + 2 * i, 6 + 2 * i
        kids.append("%d 0 R" % pobj)
        ops = ["BT", "/F1 9 Tf", "40 760 Td"]
        for ln in lines:
            ops += ["(%s) Tj" % _lit(ln), "0 -13 Td"]
        ops.append("ET")
        content = "\n".join(ops).encode("latin-1")
        objs[cobj] = b"<< /Length %d >>\nstream\n" % len(content) + content + b"\nendstream"
        objs[pobj] = ("<< /Type /Page /Parent 2 0 R /MediaBox [0 0 612 792] /Resources << /Font << /F1 3 0 R >> >> "
                      "/Contents %d 0 R >>" % cobj).encode()
    objs[1] = b"<< /Type /Catalog /Pages 2 0 R >>"
    objs[2] = ("<< /Type /Pages /Kids [%s] /Count %d >>" % (" ".join(kids), len(pages))).encode()
    widths = " ".join(["600"] * 97)
    objs[3] = ("<< /Type /Font /Subtype /Type1 /BaseFont /Courier /FirstChar 32 /LastChar 128 /Widths [%s] "
               "/Encoding << /Type /Encoding /BaseEncoding /WinAnsiEncoding /Differences [128 /filledbox] >> "
               "/ToUnicode 4 0 R >>" % widths).encode()
    objs[4] = b"<< /Length %d >>\nstream\n" % len(_CMAP) + _CMAP + b"endstream"
    out = bytearray(b"%PDF-1.4\n")
    offs = {}
    for num in sorted(objs):
        offs[num] = len(out)
        out += b"%d 0 obj\n" % num + objs[num] + b"\nendobj\n"
    xref = len(out)
    size = max(objs) + 1
    out += b"xref\n0 %d\n0000000000 65535 f \n" % size
    for num in range(1, size):
        out += b"%010d 00000 n \n" % offs[num]
    out += b"trailer\n<< /Size %d /Root 1 0 R >>\nstartxref\n%d\n%%%%EOF\n" % (size, xref)
    return bytes(out)
