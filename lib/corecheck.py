# Shared driver for checks on the bookkeeping core: run implementation,
# model under rust_decimal rounding (dec) and model under exact arithmetic on
# the same cases.
import hashlib
import os
import shutil
import subprocess
import tempfile

import core
import gen
from common import run_harness, run_model, child_env, BUILD


def split_files(rows):
    """the CSV text of a case, as one file or - for about half of the cases, decided by the
    rows themselves - cut into two or three files in the same order (what the tool reads is
    the concatenation; a third file is where a per-file bookkeeping slip first shows)"""
    if len(rows) < 3:
        return [core.to_csv(rows)]
    h = int(hashlib.sha1(repr([(r["sec"], r["sd"], r["act"]) for r in rows]).encode()).hexdigest()[:8], 16)
    k = h % 4
    if k < 2:
        return [core.to_csv(rows)]
    a = 1 + (h >> 4) % (len(rows) - 1)
    if k == 2:
        return [core.to_csv(rows[:a]), core.to_csv(rows[a:])]
    b = a + (h >> 12) % (len(rows) - a)
    return [core.to_csv(rows[:a]), core.to_csv(rows[a:b]), core.to_csv(rows[b:])]


def run_cases(ctx, cases, want_exact=False, render=False, costs=False):
    exe = ctx["exe"]
    hc = [{"files": c.get("files") or split_files(c["rows"]), "init": gen.init_specs(c),
           "render": render, "costs": costs} for c in cases]
    impl_raw = run_harness(exe, "core", hc)
    enc = [core.to_ints(c, 1) for c in cases]
    dec_raw = run_model([e[0] for e in enc])
    ex_raw = None
    if want_exact:
        ex_raw = run_model([core.to_ints(c, 0)[0] for c in cases])
    out = []
    for k, c in enumerate(cases):
        e = enc[k]
        r = {"case": c, "hc": hc[k], "st": e[1], "at": e[2], "raw": impl_raw[k],
             "impl": core.parse_impl(impl_raw[k], e[1], e[2]),
             "dec": core.parse_model(dec_raw[k])}
        if ex_raw is not None:
            r["exact"] = core.parse_model(ex_raw[k])
        r["hash"] = hashlib.sha1(("\n".join(hc[k]["files"]) + repr(hc[k]["init"])).encode()).hexdigest()
        out.append(r)
    return out


def sec_name(r, num):
    for n, v in r["st"].items():
        if v == num:
            return n
    return str(num)


def run_acb_cli(bindir, files, args, tag="x"):
    """run the real acb binary on CSV texts in a scratch HOME; returns
    (rc, stdout, stderr, {output file name: text})"""
    d = tempfile.mkdtemp(prefix="acbcli-", dir=os.path.join(BUILD, "run"))
    try:
        paths = []
        for i, f in enumerate(files):
            p = os.path.join(d, "in%d.csv" % i)
            open(p, "w").write(f)
            paths.append(p)
        outdir = os.path.join(d, "out")
        argv = [os.path.join(bindir, "acb")] + [a.replace("@OUT@", outdir) for a in args] + paths
        p = subprocess.run(argv, stdout=subprocess.PIPE, stderr=subprocess.PIPE, text=True,
                           env=child_env({"HOME": d}), cwd=d, timeout=120)
        outs = {}
        if os.path.isdir(outdir):
            for fn in sorted(os.listdir(outdir)):
                outs[fn] = open(os.path.join(outdir, fn)).read()
        return p.returncode, p.stdout, p.stderr, outs
    finally:
        shutil.rmtree(d, ignore_errors=True)
