# Shared driver for checks on the bookkeeping core: run implementation,
# model under rust_decimal rounding (dec) and model under exact arithmetic on
# the same cases.
import hashlib
import json
import os
import shutil
import subprocess
import tempfile

from fractions import Fraction

import core
import gen
from common import run_harness, run_model, child_env, BUILD


def split_files(rows):
    """the CSV text of a case, as one file or - for about half of the cases, decided by the
    rows themselves - cut into two or three files in the same order (what the tool reads is
    the concatenation; a third file is where a per-file bookkeeping slip first shows)"""
    if len(rows) < 3:
        return [core.to_csv(rows)]
    h = int(hashlib.sha1(repr([(r["sec"], r["sd"], r["act"]) for r in rows]).encode()).hexdigest()[:8], 16)
    k = h % 4
    if k < 2:
        return [core.to_csv(rows)]
    a = 1 + (h >> 4) % (len(rows) - 1)
    if k == 2:
        return [core.to_csv(rows[:a]), core.to_csv(rows[a:])]
    b = a + (h >> 12) % (len(rows) - a)
    return [core.to_csv(rows[:a]), core.to_csv(rows[a:b]), core.to_csv(rows[b:])]


def run_cases(ctx, cases, want_exact=False, render=False, costs=False):
    exe = ctx["exe"]
    hc = [{"files": c.get("files") or split_files(c["rows"]), "init": gen.init_specs(c),
           "render": render, "costs": costs} for c in cases]
    impl_raw = run_harness(exe, "core", hc)
    enc = [core.to_ints(c, 1) for c in cases]
    dec_raw = run_model([e[0] for e in enc])
    ex_raw = None
    if want_exact:
        ex_raw = run_model([core.to_ints(c, 0)[0] for c in cases])
    out = []
    for k, c in enumerate(cases):
        e = enc[k]
        r = {"case": c, "hc": hc[k], "st": e[1], "at": e[2], "raw": impl_raw[k],
             "impl": core.parse_impl(impl_raw[k], e[1], e[2]),
             "dec": core.parse_model(dec_raw[k])}
        if ex_raw is not None:
            r["exact"] = core.parse_model(ex_raw[k])
        r["hash"] = hashlib.sha1(("\n".join(hc[k]["files"]) + repr(hc[k]["init"])).encode()).hexdigest()
        out.append(r)
    return out


def sec_name(r, num):
    for n, v in r["st"].items():
        if v == num:
            return n
    return str(num)


def run_acb_cli(bindir, files, args, tag="x"):
    """run the real acb binary on CSV texts in a scratch HOME; returns
    (rc, stdout, stderr, {output file name: text})"""
    d = tempfile.mkdtemp(prefix="acbcli-", dir=os.path.join(BUILD, "run"))
    try:
        paths = []
        for i, f in enumerate(files):
            p = os.path.join(d, "in%d.csv" % i)
            open(p, "w").write(f)
            paths.append(p)
        outdir = os.path.join(d, "out")
        argv = [os.path.join(bindir, "acb")] + [a.replace("@OUT@", outdir) for a in args] + paths
        p = subprocess.run(argv, stdout=subprocess.PIPE, stderr=subprocess.PIPE, text=True,
                           env=child_env({"HOME": d}), cwd=d, timeout=120)
        outs = {}
        if os.path.isdir(outdir):
            for fn in sorted(os.listdir(outdir)):
                outs[fn] = open(os.path.join(outdir, fn)).read()
        return p.returncode, p.stdout, p.stderr, outs
    finally:
        shutil.rmtree(d, ignore_errors=True)



class _Collect:
    """stands in for the Result of a run: collects what the oracles report"""
    def __init__(self):
        self.msgs = []

    def violation(self, kind, what, replay=None, found_input=True):
        self.msgs.append(what)

# ---------------------------------------------------------------- replay of a recorded violation
def _case_of_hc(hc):
    """a generated case back from the harness input a replay file records (CSV texts + -b options)"""
    from props.c10 import rows_of_csv
    rows = []
    for f in hc["files"]:
        if f.strip():
            rows += rows_of_csv(f)
    inits = {}
    for s in hc.get("init") or []:
        sec, sh, acb = s.split(":")
        inits[sec] = ((sh, Fraction(sh)), (acb, Fraction(acb)))
    return {"rows": rows, "inits": inits, "files": hc["files"]}


def replay(res, ctx, path, judge=None, pair_judge=None):
    """bin/check Cxx --replay FILE for the ledger properties: every recorded input of the file is run
    again through the implementation (harness, current tree) and the extracted model; exit 1 when the
    implementation panics, differs from the model, or the property's own oracle (`judge` on one run,
    `pair_judge` on the recorded pair of inputs) fails again."""
    rep = json.load(open(path))
    named = [(k, v) for k, v in sorted(rep.items()) if isinstance(v, dict) and "files" in v]
    if not named:
        texts = [(k, v) for k, v in sorted(rep.items()) if isinstance(v, str) and v.lower().startswith("security,")]
        named = [(k, {"files": [v], "init": [], "render": False, "costs": False}) for k, v in texts]
    if not named:
        print("replay: %s records no input (kind %s: %s)" % (path, rep.get("kind"), (rep.get("what") or "")[:200]))
        print("replay: re-run `bin/check %s` to re-check the named theorem or projection" % res.prop)
        return 1
    bad = False
    runs = {}
    for name, hc in named:
        hc = dict(hc, render=bool(hc.get("render")), costs=bool(hc.get("costs")))
        try:
            case = _case_of_hc(hc)
        except Exception as e:       # not a file the generator's reader understands: implementation only
            case = None
            why = "%s: %s" % (type(e).__name__, e)
        if case is None:
            raw = run_harness(ctx["exe"], "core", [hc])[0]
            print("replay[%s]: implementation outcome %s %s (model not run: %s)" % (
                name, raw.get("status"), (raw.get("panic") or raw.get("err") or "")[:200], why))
            if raw.get("status") == "panic":
                bad = True
            continue
        r = run_cases(ctx, [case], render=hc["render"], costs=hc["costs"])[0]
        runs[name] = r
        i = r["impl"]
        print("replay[%s]: implementation outcome %s%s" % (name, i["status"], (": " + str(i.get("panic"))[:200]) if i["status"] == "panic" else ""))
        if i["status"] == "panic" and r["dec"]["status"] != "panic":
            bad = True
        d = core.diff_exact(r["dec"], i)
        if d is not None:
            print("replay[%s]: model (dec) and implementation differ: %s" % (name, d))
            bad = True
        if judge is not None:
            for msg in judge(r) or []:
                print("replay[%s]: FAILS: %s" % (name, msg))
                bad = True
    if pair_judge is not None and len(runs) >= 2:
        for msg in pair_judge(runs) or []:
            print("replay: FAILS: %s" % msg)
            bad = True
    if not bad:
        print("replay: property holds on this input (implementation = model%s)" % (", property oracle passes" if judge or pair_judge else ""))
    return 1 if bad else 0
