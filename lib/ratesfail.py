# Failure paths of the rate loader (C13 / C12 "otherwise an error"): histories
# in which every cache read, cache write and remote request of a run has a
# scripted outcome, and cache files lose rows between runs.  Shared by
# lib/props/c13.py (pass "failures") -- model side: coq/Model/RatesFail.v
# through entry 7 of coq/Exec/CodecRates.v; implementation side: harness mode
# `histf` (a RatesCache and an HttpRequester of our own that fail as scripted
# around the real InMemoryRatesCache / CsvRatesCache and the serving
# requester).
import collections
import hashlib
import json
from fractions import Fraction

import rates as R
from common import run_harness, run_model, qenc, Reader

ERR_NAMES = dict(R.ERR_NAMES)
ERR_NAMES.update({4: "remote-request-failed", 5: "remote-document-rejected", 6: "cache-read-failed",
                  14: "lookback(remote-request-failed)", 15: "lookback(remote-document-rejected)",
                  13: "lookback(none-within-7-days)", 16: "lookback(cache-read-failed)"})
REMOTE_CLASSES = (4, 5, 14, 15)

# lines the cache reader must reject (C13_corrupt_cache_rows: junk lines); `%s` = the date of the row
JUNK = ["", "%s", "%s,", "%s,abc", "%s,1.2x", "%s,abc,7", "2022-01-0", "2022-13-45,1.2", ",1.25", "#comment",
        "%s;1.25", "x%s,1.25", "%s,--1", "%s,1..2", "%s,."]


def classify(msg):
    k = "Cound not retrieve exchange rates within the 7 preceding days ("
    if k in msg:
        return 10 + classify(msg.split(k, 1)[1])
    if "Error getting CAD USD rates" in msg:
        return 4
    if "Error parsing CAD USD rates" in msg:
        return 5
    if "harness: scripted cache read failure" in msg:
        return 6
    return R.classify(msg)


def ans_str(a):
    if a[0] == "ok":
        return "rate %s of %s" % (a[2], R.iso(a[1]))
    return "error class %s" % ERR_NAMES.get(a[1], a[1])


# ------------------------------------------------------------------ cases
def rd_ints(ev):
    if isinstance(ev, list):
        return [3, len(ev)] + [int(b) for b in ev]
    return [int(ev)]


def case_ints(truth, runs, years, damage_masks):
    """damage_masks[k] = [(year, mask)] for run k (computed from what the real reader returned)"""
    out = [7] + R.truth_ints(truth) + [0, len(years)] + list(years) + [len(runs)]
    for k, r in enumerate(runs):
        out += [r["today"], r["avail"], int(r["force"]), len(r["lookups"])] + list(r["lookups"])
        dm = damage_masks[k]
        out.append(len(dm))
        for y, mask in dm:
            out += [y, len(mask)] + [int(b) for b in mask]
        out.append(len(r["rd"]))
        for ev in r["rd"]:
            out += rd_ints(ev)
        out += [len(r["wr"])] + [int(b) for b in r["wr"]]
        out += [len(r["rq"])] + [int(b) for b in r["rq"]]
    return out


def harness_case(truth, runs, cache):
    years = sorted({R.year_of(o["day"]) for o in truth} | {R.year_of(d - k) for r in runs for d in r["lookups"] for k in (0, 7)})
    return {"truth": [{"day": o["day"], "json": o["json"]} for o in truth], "cache": cache, "years": years,
            "runs": [{"today": r["today"], "avail": r["avail"], "force": r["force"], "lookups": r["lookups"],
                      "rd": r["rd"], "wr": r["wr"], "rq": r["rq"],
                      "damage": [{"year": y, "edits": [[i, t] for i, t in edits]} for y, edits in r.get("damage", [])]}
                     for r in runs]}


def read_log(rd):
    return [(rd.z(), R.DAILY if rd.z() else R.NOON, bool(rd.z())) for _ in range(rd.z())]


def parse_model(ints, nyears):
    rd = Reader(ints)
    if rd.z() != 1:
        return {"status": "bad-input"}
    st = rd.z()
    if st != 1:
        return {"status": "panic" if st == 2 else "rej"}
    runs = []
    for _ in range(rd.z()):
        answers, per = [], []
        for _ in range(rd.z()):
            t = rd.z()
            if t == 1:
                d = rd.z()
                answers.append(("ok", d, rd.q()))
            else:
                answers.append(("err", rd.z()))
            per.append(read_log(rd))
        log = read_log(rd)
        runs.append({"answers": answers, "per_lookup": per, "requests": log, "nrd": rd.z(), "nwr": rd.z()})
    cache = [R.read_drates(rd) if rd.z() else None for _ in range(nyears)]
    assert rd.done()
    return {"status": "ok", "runs": runs, "cache": cache}


def impl_request(y, s):
    if "!" in s:
        return (y, s.split("!")[0], False)
    return (y, s, True)


def parse_impl(o, years):
    if o.get("status") != "ok":
        return {"status": o.get("status"), "panic": o.get("panic")}
    runs = []
    for r in o["runs"]:
        reqs = [impl_request(y, s) for y, s in r["requests"]]
        per, prev = [], 0
        for m in r["req_marks"]:
            per.append(reqs[prev:m])
            prev = m
        answers = [("ok", a[1], Fraction(a[2])) if a[0] == "ok" else ("err", classify(a[1])) for a in r["answers"]]
        runs.append({"answers": answers, "per_lookup": per, "requests": reqs, "nrd": r["nrd"], "nwr": r["nwr"],
                     "cache_after": r["cache_after"], "damaged": r.get("damaged", [])})
    cache = []
    for y in years:
        c = o["cache"][str(y)]
        cache.append(None if not isinstance(c, list) else [(d, Fraction(s)) for d, s in c])
    return {"status": "ok", "runs": runs, "cache": cache}


def diff(m, i):
    if m["status"] != i["status"]:
        return "outcome: model %s, implementation %s %s" % (m["status"], i["status"], i.get("panic", ""))
    if m["status"] != "ok":
        return None
    for k, (mr, ir) in enumerate(zip(m["runs"], i["runs"])):
        for j, (ma, ia) in enumerate(zip(mr["answers"], ir["answers"])):
            if ma != ia:
                return "run %d look-up %d: model %s, implementation %s" % (k, j, ans_str(ma), ans_str(ia))
        if mr["per_lookup"] != ir["per_lookup"]:
            return "run %d requests per look-up: model %s, implementation %s" % (k, mr["per_lookup"], ir["per_lookup"])
        if (mr["nrd"], mr["nwr"]) != (ir["nrd"], ir["nwr"]):
            return "run %d cache reads/writes: model %s, implementation %s" % (k, (mr["nrd"], mr["nwr"]), (ir["nrd"], ir["nwr"]))
    if m["cache"] != i["cache"]:
        for y, (mc, ic) in enumerate(zip(m["cache"], i["cache"])):
            if mc != ic:
                return "final cache content differs for year #%d: model %s..., implementation %s..." % (
                    y, str(mc)[:200], str(ic)[:200])
    return None


def mask_of(written, read):
    """rows read back from a damaged file against the rows that were written:
    the mask of dropped rows, or None when a row was read that was not written"""
    mask, j = [], 0
    for row in written:
        if j < len(read) and read[j] == row:
            mask.append(0)
            j += 1
        else:
            mask.append(1)
    return mask if j == len(read) else None


# ------------------------------------------------------------------ generation
def gen_script(rng, n, p, choices):
    return [rng.choice(choices) if rng.random() < p else 0 for _ in range(n)]


def gen_rd_script(rng, n, p):
    out = []
    for _ in range(n):
        if rng.random() >= p:
            out.append(0)
            continue
        k = rng.random()
        if k < 0.45:
            out.append(1)
        elif k < 0.6:
            out.append(2)
        else:
            out.append([int(rng.random() < rng.choice([0.1, 0.5, 0.9])) for _ in range(rng.randint(1, 40))])
    return out


def gen_case(rng, gen_history, with_remote_failures):
    truth, runs = gen_history(rng)
    cache = rng.choice(["mem", "csv"])
    p_rd = rng.choice([0.0, 0.3, 0.7, 1.0])
    p_wr = rng.choice([0.0, 0.3, 0.7, 1.0])
    p_rq = rng.choice([0.2, 0.5, 0.8]) if with_remote_failures else 0.0
    damaged_years = set()     # a year's file is damaged at most once per history: the rows lost are then exactly
    # the rows of the last complete write that the reader no longer returns (damaging a damaged file again can
    # make rows hidden by a first line of another field count visible again)
    for k, r in enumerate(runs):
        r["rd"] = gen_rd_script(rng, 12, p_rd)
        r["wr"] = gen_script(rng, 6, p_wr, [1])
        r["rq"] = gen_script(rng, 12, p_rq, [1, 1, 2])
        r["damage"] = []
        if cache == "csv" and k > 0 and rng.random() < 0.5:
            for y in sorted({R.year_of(d) for d in r["lookups"]} - damaged_years):
                damaged_years.add(y)
                edits = []
                for _ in range(rng.randint(1, 6)):
                    i = 0 if rng.random() < 0.15 else rng.randint(0, 40)
                    j = rng.choice(JUNK)
                    edits.append((i, j % R.iso(R.day(y, 1, 1) + i) if "%s" in j else j))
                r["damage"].append((y, edits))
    return truth, runs, cache


def corpus():
    d = R.day
    days = [x for x in range(d(2022, 1, 3), d(2022, 1, 20)) if R.date_of(x).weekday() < 5]
    truth = [R.mk_obs(x, daily="0.7%03d" % (x % 1000)) for x in days]
    t2 = [R.mk_obs(x, noon="1.3%03d" % (x % 1000)) for x in range(d(2016, 12, 19), d(2016, 12, 31)) if R.date_of(x).weekday() < 5] + \
         [R.mk_obs(x, daily="0.7%03d" % (x % 1000)) for x in range(d(2017, 1, 3), d(2017, 1, 14)) if R.date_of(x).weekday() < 5]
    base = {"force": False, "damage": []}
    out = []
    # every cache access fails in two runs, then a run whose write works
    out.append(("all-cache-io-fails", truth, [
        dict(base, today=d(2022, 1, 11), avail=d(2022, 1, 11), lookups=[d(2022, 1, 5), d(2022, 1, 10), d(2022, 1, 5), d(2022, 1, 8)],
             rd=[1] * 8, wr=[1] * 4, rq=[]),
        dict(base, today=d(2022, 1, 11), avail=d(2022, 1, 11), lookups=[d(2022, 1, 5)], rd=[1] * 8, wr=[1] * 4, rq=[]),
        dict(base, today=d(2022, 1, 20), avail=d(2022, 1, 20), lookups=[d(2022, 1, 5), d(2022, 1, 14)], rd=[2, [0, 1, 1], 1], wr=[], rq=[])], "mem"))
    # the seeded defect "a year counts as downloaded only when the cache write succeeded"
    out.append(("write-fails-many-lookups", truth, [
        dict(base, today=d(2022, 1, 20), avail=d(2022, 1, 20),
             lookups=[d(2022, 1, 5), d(2022, 1, 6), d(2022, 1, 20), d(2022, 1, 16), d(2022, 1, 21), d(2022, 1, 5)],
             rd=[], wr=[1, 1, 1, 1], rq=[])], "csv"))
    # remote failures: request error, bad document, retried by the next look-up; across the year end
    out.append(("remote-fails-then-works", truth, [
        dict(base, today=d(2022, 1, 20), avail=d(2022, 1, 20),
             lookups=[d(2022, 1, 5), d(2022, 1, 5), d(2022, 1, 5), d(2022, 1, 1), d(2022, 1, 1), d(2022, 1, 8)],
             rd=[], wr=[], rq=[1, 2, 0, 1, 0])], "mem"))
    out.append(("remote-fails-in-lookback-2016-2017", t2, [
        dict(base, today=d(2017, 1, 20), avail=d(2017, 1, 20),
             lookups=[d(2017, 1, 2), d(2017, 1, 2), d(2017, 1, 1), d(2016, 12, 31)], rd=[1, 0, 2], wr=[0, 1], rq=[0, 2, 1, 0])], "csv"))
    # cached year, the remote is down: covered dates are served, others are errors; nothing is forgotten
    out.append(("remote-down-cache-serves", truth, [
        dict(base, today=d(2022, 1, 11), avail=d(2022, 1, 11), lookups=[d(2022, 1, 5)], rd=[], wr=[], rq=[]),
        dict(base, today=d(2022, 1, 20), avail=d(2022, 1, 20), lookups=[d(2022, 1, 6), d(2022, 1, 14), d(2022, 1, 8), d(2022, 1, 14)],
             rd=[], wr=[], rq=[1, 1, 1, 1, 1])], "csv"))
    # forced downloads with failing writes and requests
    out.append(("forced", truth, [
        dict(base, force=True, today=d(2022, 1, 11), avail=d(2022, 1, 11), lookups=[d(2022, 1, 5), d(2022, 1, 6), d(2022, 1, 5)],
             rd=[1, 1], wr=[1], rq=[1, 0]),
        dict(base, today=d(2022, 1, 12), avail=d(2022, 1, 13), lookups=[d(2022, 1, 12), d(2022, 1, 5)], rd=[[1, 1, 1, 1, 1, 1]], wr=[1], rq=[])], "mem"))
    # damaged cache files: first line replaced by a line of another field count (the year reads as empty),
    # rows cut short, blank lines, a comment
    for name, edits in (("damage-first-line", [(0, "2022-01-01")]), ("damage-first-line-3-fields", [(0, "2022-01-01,0,0")]),
                        ("damage-rows", [(4, "2022-01-05,"), (5, ""), (7, "#x"), (9, "2022-01-1")]),
                        ("damage-all", [(i, "junk") for i in range(0, 12)])):
        out.append((name, truth, [
            dict(base, today=d(2022, 1, 11), avail=d(2022, 1, 11), lookups=[d(2022, 1, 5)], rd=[], wr=[], rq=[]),
            dict(base, today=d(2022, 1, 11), avail=d(2022, 1, 11), lookups=[d(2022, 1, 5), d(2022, 1, 9), d(2022, 1, 6)], rd=[], wr=[], rq=[],
                 damage=[(2022, edits)]),
            dict(base, today=d(2022, 1, 11), avail=d(2022, 1, 11), lookups=[d(2022, 1, 6), d(2022, 1, 5)], rd=[], wr=[], rq=[])], "csv"))
    return out


# ------------------------------------------------------------------ the property on the implementation's output
def oracle(truth, runs, i):
    """C13 (answers = the no-cache reference whatever the cache does; no year downloaded twice in a run) and
    C12 "otherwise an error" (a look-up during which a request failed answers with that error, no other does)"""
    for k, (run, ir) in enumerate(zip(runs, i["runs"])):
        pub = R.pub_of(truth, run["avail"])
        for j, (dd, a, reqs) in enumerate(zip(run["lookups"], ir["answers"], ir["per_lookup"])):
            failed = [q for q in reqs if not q[2]]
            if not failed:
                exp = R.rule(pub, run["today"], dd)
                if a != exp:
                    return ("run %d look-up %d of %s (today %s): %s, without a cache %s" % (
                        k, j, R.iso(dd), R.iso(run["today"]), ans_str(a), ans_str(exp)),
                        {"run": k, "lookup_index": j, "lookup_date": R.iso(dd), "actual_impl": ans_str(a),
                         "expected_spec": ans_str(exp)})
            else:
                if a[0] != "err" or a[1] not in REMOTE_CLASSES:
                    return ("run %d look-up %d of %s: the request for %d failed but the look-up answered %s" % (
                        k, j, R.iso(dd), failed[0][0], ans_str(a)),
                        {"run": k, "lookup_index": j, "lookup_date": R.iso(dd), "actual_impl": ans_str(a),
                         "expected_spec": "an error naming the failed request"})
                if len(failed) > 1 or reqs[-1][2]:
                    return ("run %d look-up %d of %s: requests continued after a failed one: %s" % (k, j, R.iso(dd), reqs),
                            {"run": k, "lookup_index": j})
        cnt = collections.Counter(q[0] for q in ir["requests"] if q[2])
        for y, c in cnt.items():
            if c > 1:
                return ("run %d downloaded year %d %d times" % (k, y, c), {"run": k, "year": y, "downloads": c})
    return None


def check_batch(res, ctx, batch):
    """batch: [(name, truth, runs, cache)]"""
    st = ctx["stats"]
    hcases = [harness_case(truth, runs, cache) for name, truth, runs, cache in batch]
    impl = run_harness(ctx["exe"], "histf", hcases)
    parsed = [parse_impl(io, hc["years"]) for io, hc in zip(impl, hcases)]
    # damaged files: what the model's reader makes of the same bytes, and the rows lost
    dmg_jobs, masks_all, skip = [], [], set()
    for n, ((name, truth, runs, cache), hc, i) in enumerate(zip(batch, hcases, parsed)):
        masks = [[] for _ in runs]
        if i["status"] == "ok":
            before = {}
            for k, ir in enumerate(i["runs"]):
                for dmg in ir["damaged"]:
                    y = dmg["year"]
                    read = [(d, Fraction(s)) for d, s in dmg["rows"]] if isinstance(dmg["rows"], list) else []
                    dmg_jobs.append((n, k, y, dmg["bytes"], read))
                    m = mask_of(before.get(y) or [], read)
                    if m is None:
                        skip.add(n)
                        ctx["oracle_failures"].append((name, dict(hc, replay_kind="failures", replay_case=[name, truth, runs, cache]), (
                            "run %d: the damaged cache file of %d was read as rows that were never written" % (k, y),
                            {"run": k, "year": y, "rows_read": str(read)[:300]})))
                    else:
                        masks[k].append((y, m))
                        st["damaged-files"] += 1
                        st["damaged-rows-lost"] += sum(m)
                before = {int(y): ([(d, Fraction(s)) for d, s in rows] if isinstance(rows, list) else None)
                          for y, rows in ir["cache_after"].items()}
        masks_all.append(masks)
    if dmg_jobs:
        mo = run_model([[3, len(b)] + list(b) for _, _, _, b, _ in dmg_jobs], group="rates")
        for (n, k, y, b, read), out in zip(dmg_jobs, mo):
            rd = Reader(out)
            assert rd.z() == 1
            mrows = R.read_drates(rd)
            st["reader-on-damaged-file"] += 1
            if mrows != read:
                st["correspondence_diffs"] += 1
                name, truth, runs, cache = batch[n]
                ctx["corr_diffs"].append((dict(hcases[n], replay_kind="failures", replay_case=[name, truth, runs, cache]),
                                          "cache reader on the damaged file of %d: model %s..., implementation %s..." % (
                                              y, str(mrows)[:200], str(read)[:200])))
    mod = run_model([case_ints(truth, runs, hc["years"], masks)
                     for (name, truth, runs, cache), hc, masks in zip(batch, hcases, masks_all)], group="rates")
    for n, ((name, truth, runs, cache), hc, i, mo) in enumerate(zip(batch, hcases, parsed, mod)):
        st["evaluations"] += 1
        st["failures-evaluations"] += 1
        st["failures-cache-" + cache] += 1
        rep = dict(hc, replay_kind="failures", replay_case=[name, truth, runs, cache])
        if i["status"] != "ok":
            res.violation("failing-input", "history under a failure script panicked: %s" % i.get("panic"),
                          {"input": hc, "replay_kind": "failures", "replay_case": [name, truth, runs, cache]})
            continue
        if n not in skip:
            m = parse_model(mo, len(hc["years"]))
            d = diff(m, i)
            if d is not None:
                st["correspondence_diffs"] += 1
                ctx["corr_diffs"].append((rep, "failure script: " + d))
        bad = oracle(truth, runs, i)
        if bad:
            ctx["oracle_failures"].append((name, rep, bad))
        # what happened
        for run, ir in zip(runs, i["runs"]):
            st["failures-lookups"] += len(run["lookups"])
            st["failures-requests-failed"] += sum(1 for q in ir["requests"] if not q[2])
            st["failures-requests-ok"] += sum(1 for q in ir["requests"] if q[2])
            st["failures-cache-reads"] += ir["nrd"]
            st["failures-cache-writes"] += ir["nwr"]
            st["failures-answers-remote-error"] += sum(1 for a in ir["answers"] if a[0] == "err" and a[1] in REMOTE_CLASSES)
            st["failures-scripted-read-events-hit"] += sum(1 for ev in run["rd"][:ir["nrd"]] if ev != 0)
            st["failures-scripted-write-failures-hit"] += sum(1 for ev in run["wr"][:ir["nwr"]] if ev)
        hit = any(any(ev != 0 for ev in run["rd"][:ir["nrd"]]) or any(run["wr"][:ir["nwr"]]) or
                  any(not q[2] for q in ir["requests"]) or ir["damaged"] for run, ir in zip(runs, i["runs"]))
        h = hashlib.sha1(json.dumps(hc, sort_keys=True).encode()).hexdigest()
        if hit and h not in ctx["seen"]:
            ctx["seen"].add(h)
            st["distinct_nontrivial"] += 1
            st["failures-distinct-nontrivial"] += 1
