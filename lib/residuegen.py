# Histories around a split whose factor is not a finite decimal (4-for-3, 1-for-3, 2-for-7, ...):
# after it share balances carry 28 significant digits, and every later Buy / Sell / Split row
# exercises the all-affiliate balance expression ((all - old) + new, fix "compute the
# all-affiliate share balance with one expression everywhere") and the assertion of the status
# tracker under rust_decimal rounding.  Used by C05 (no panic) and C04 (accepted, rows as the model).
# Every random choice comes from the random.Random passed in.
from fractions import Fraction

import core
from core import D

# reverse splits are written with decimals (fractional results allowed); "1-for-3" in whole numbers is
# kept once: it rejects a fractional result (a listed rejection, not a defect)
NONTERMINATING = [("4", "3"), ("1.0", "3.0"), ("1.0", "3"), ("2.0", "3.0"), ("5", "3"), ("1.0", "7.0"), ("2.0", "7"),
                  ("10", "7"), ("1.0", "6.0"), ("7", "6"), ("1.0", "9.0"), ("11", "9"), ("3.0", "7.0"), ("1.0", "11.0"),
                  ("13", "12"), ("100", "3"), ("1", "3")]


def residue_history(rng, afs=None, sec="FOO", n_after=None):
    """purchases by one or several affiliates, a split with a non-terminating factor (for all
    affiliates or for one), then several Buy / Sell rows (and now and then another such split or
    a return of capital).  Sales never exceed the whole part of the holdings: valid histories."""
    afs = afs if afs is not None else rng.choice([[None], [None], ["B"], [None, "B"], [None, "B", "Zed"], ["B", "Spouse"]])
    day = core.BASE_DAY + rng.randint(0, 300)
    bal = {a: Fraction(0) for a in afs}
    rows = []

    def row(act, af, **kw):
        nonlocal day
        day += rng.choice([0, 1, 2, 5, 13, 40])
        r = {"sec": sec, "td": day, "sd": day, "act": act, "com": None, "cur": None, "rate": None, "af": af}
        r.update(kw)
        rows.append(r)

    def qty():
        k = rng.random()
        if k < 0.5:
            return D(rng.choice([1, 2, 3, 5, 7, 10, 25, 100, 853]))
        if k < 0.8:
            return D(rng.randint(1, 99999), rng.choice([1, 2, 4]))
        return D(rng.randint(1, 10 ** 9), rng.choice([4, 6, 10]))

    def price():
        return rng.choice([D(1), D(10), D(rng.randint(1, 300000), 2), D(rng.randint(1, 10 ** 6), 4)])

    for a in afs:
        q = qty()
        row("Buy", a, sh=q, aps=price())
        bal[a] += q[1]

    def split():
        ratio = rng.choice(NONTERMINATING)
        f = Fraction(ratio[0]) / Fraction(ratio[1])
        if rng.random() < 0.5:
            # blank affiliate column: the split is for all affiliates
            row("Split", None, split=ratio)
            for a in bal:
                bal[a] *= f
        else:
            a = rng.choice(afs)
            row("Split", a if a is not None else "Default", split=ratio)
            bal[a] *= f

    split()
    for _ in range(n_after if n_after is not None else rng.randint(2, 8)):
        a = rng.choice(afs)
        k = rng.random()
        held = bal[a]
        if k < 0.08:
            split()
        elif k < 0.16 and held > 0:
            row("RoC", a, aps=D(rng.randint(1, 50), 2))
        elif k < 0.58 and held >= 1:
            kk = rng.random()
            if kk < 0.5:
                q = D(rng.randint(1, max(1, int(held))))
            else:
                q = D(rng.randint(1, 10 ** 6), 6)
                if q[1] > held:
                    q = D(1)
            if q[1] > held:
                continue
            row("Sell", a, sh=q, aps=price())
            bal[a] -= q[1]
        else:
            q = qty()
            row("Buy", a, sh=q, aps=price())
            bal[a] += q[1]
    return rows


def n_affiliates(case, sec):
    """number of distinct affiliates among the rows of a security (a split with a blank affiliate
    column is for all affiliates and names none)"""
    s = set()
    for r in case["rows"]:
        if r["sec"] != sec:
            continue
        if r["act"] == "Split" and r.get("af") is None:
            continue
        af = (r.get("af") or "default").strip().lower()
        s.add(af)
    return len(s)
