# The report renderer inside the model: drive the extracted Gallina model of
# portfolio/render.rs (coq/Model/Render.v, group "render") and compare EVERY
# cell of the implementation's render tables with it.
#
# A model cell is a list of pieces: literal bytes (the format strings of
# render.rs and, in the default view, the cent texts of the figures) and
# numeric leaves (figures printed by Decimal::to_string, whose text depends on
# the display scale the value model does not carry).  A cell of the
# implementation matches when it is the concatenation of the literals, byte
# for byte, with a decimal numeral of exactly the model's value at every
# numeric leaf.  In the default view every dollar figure is a literal, so
# dollar cells are compared byte for byte; share counts, ratios and the
# full-precision view are compared by value.
import collections
import datetime
import re
from fractions import Fraction

import core
from common import run_model, run_harness, qenc, Reader, build_harness

COLS = ['Security', 'Trade Date', 'Settl. Date', 'TX', 'Amount', 'Shares', 'Amt/Share', 'ACB', 'Commission',
        'Cap. Gain', 'Share Balance', 'ACB +/-', 'New ACB', 'New ACB/Share', 'Affiliate', 'Memo']
NUMRE = r"(-?\d+(?:\.\d+)?)"


# ------------------------------------------------------------------ encoding
def cur_bytes(s):
    """Currency::new: upper-cased, '' -> CAD"""
    s = (s or "").upper()
    return list((s or "CAD").encode())


def row_currencies(r):
    """(transaction currency, commission currency as commission_currency_and_rate() returns it)"""
    a = r["act"]
    if a not in ("Buy", "Sell", "RoC"):
        return cur_bytes(None), cur_bytes(None)
    cur = cur_bytes(r.get("cur"))
    if a != "RoC" and (r.get("ccur") or r.get("crate") is not None):
        return cur, cur_bytes(r.get("ccur"))
    return cur, cur


def enc_bytes(b):
    return [len(b)] + list(b)


def enc_curs(rows):
    out = [len(rows)]
    for r in rows:
        c, cc = row_currencies(r)
        out += enc_bytes(c) + enc_bytes(cc)
    return out


def pipeline_ints(case, arith=1):
    """entry 0: the core case encoding followed by the rows' currencies"""
    ints, st, at = core.to_ints(case, arith)
    assert ints[0] == 0
    return ints + enc_curs(case["rows"]), st, at


# ------------------------------------------------------------------ decoding
def rd_bytes(rd):
    n = rd.z()
    return bytes(rd.z() for _ in range(n))


def rd_pieces(rd):
    n = rd.z()
    out = []
    for _ in range(n):
        t = rd.z()
        if t == 0:
            out.append(("lit", rd_bytes(rd)))
        elif t == 1:
            out.append(("num", rd.q()))
        elif t == 2:
            out.append(("sec", rd.z()))
        elif t == 3:
            out.append(("day", rd.z()))
        elif t == 4:
            out.append(("aff", rd.z()))
        elif t == 5:
            out.append(("memo", rd.z()))
        else:
            raise ValueError("piece tag %d" % t)
    return out


def rd_table(rd):
    rows = []
    for _ in range(rd.z()):
        rows.append([rd_pieces(rd) for _ in range(rd.z())])
    footer = [rd_pieces(rd) for _ in range(rd.z())]
    notes = [rd_bytes(rd).decode() for _ in range(rd.z())]
    return {"rows": rows, "footer": footer, "notes": notes}


def rd_aggregate(rd):
    return [[rd_pieces(rd), rd_pieces(rd)] for _ in range(rd.z())]


def rd_res(rd, f):
    k = rd.z()
    if k == 0:
        return {"status": "ok", "value": f(rd)}
    if k == 1:
        return {"status": "err", "rej": rd.z()}
    return {"status": "panic", "panic": (rd.z(), rd.z())}


def rd_report(rd):
    tabs = {}
    for _ in range(rd.z()):
        s = rd.z()
        stop = (rd.z(), rd.z(), rd.z())
        t = rd_table(rd)
        t["stop"] = stop
        tabs[s] = t
    return {"secs": tabs, "agg": rd_aggregate(rd)}


def parse_pipeline(ints):
    rd = Reader(ints)
    st = rd.z()
    if st != 1:
        return {"status": "model-error", "code": st}
    k = rd.z()
    if k == 1:
        return {"status": "err", "rej": rd.z()}
    if k == 2:
        return {"status": "panic", "panic": (rd.z(), rd.z())}
    full = rd_res(rd, rd_report)
    cents = rd_res(rd, rd_report)
    assert rd.done()
    return {"status": "ok", "full": full, "cents": cents}


def parse_direct(ints):
    rd = Reader(ints)
    st = rd.z()
    if st != 1:
        return {"status": "model-error", "code": st}
    out = {"status": "ok",
           "full": rd_res(rd, rd_table), "cents": rd_res(rd, rd_table),
           "agg_full": rd_res(rd, rd_aggregate), "agg_cents": rd_res(rd, rd_aggregate)}
    assert rd.done()
    return out


def run_pipeline(cases, arith=1):
    enc = [pipeline_ints(c, arith) for c in cases]
    outs = run_model([e[0] for e in enc], group="render")
    return [parse_pipeline(o) for o in outs]


# ------------------------------------------------------------------ matching
def merge(pieces):
    out = []
    for k, v in pieces:
        if k == "lit" and out and out[-1][0] == "lit":
            out[-1] = ("lit", out[-1][1] + v)
        else:
            out.append((k, v))
    return out


def match_cell(pieces, text, names):
    """None when the implementation's cell text is the model cell; otherwise a
    description of the first difference.  names: {'sec': {num: name},
    'aff': {num: id string}, 'memo': {ri: memo text}}"""
    pieces = merge(pieces)
    rx = []
    leaves = []
    for k, v in pieces:
        if k == "lit":
            rx.append(re.escape(v.decode()))
        elif k == "num":
            rx.append(NUMRE)
            leaves.append(("num", v))
        elif k == "sec":
            rx.append(re.escape(names["sec"].get(v, "?%d" % v)))
        elif k == "day":
            rx.append(re.escape(datetime.date.fromordinal(v).isoformat()))
        elif k == "aff":
            rx.append(r"([\s\S]*)")
            leaves.append(("aff", v))
        elif k == "memo":
            rx.append(r"([\s\S]*)")
            leaves.append(("memo", v))
    m = re.fullmatch("".join(rx), text)
    if m is None:
        return "layout: model %s" % show(pieces)
    for g, (k, v) in zip(m.groups(), leaves):
        if k == "num":
            if Fraction(g) != v:
                return "figure %s, model %s" % (g, fstr(v))
        elif k == "aff":
            want = names["aff"].get(v)
            if want is not None and g.strip().lower() != want.lower():
                return "affiliate %r, model %r" % (g, want)
        elif k == "memo":
            want = names.get("memo", {}).get(v)
            if want is not None and len(want) <= 32 and "\n" not in want and g != want:
                return "memo %r, row has %r" % (g, want)
    return None


def fstr(f):
    try:
        return core.dtext(f)
    except ValueError:
        return str(f)


def show(pieces):
    out = []
    for k, v in merge(pieces):
        if k == "lit":
            out.append(v.decode())
        elif k == "num":
            out.append("<%s>" % fstr(v))
        else:
            out.append("<%s %s>" % (k, v))
    return "".join(out)


def dollar_leaf_count(pieces):
    return sum(1 for k, _ in pieces if k == "num")


def compare_table(mt, it, names, view, tag, stats, out, limit=6):
    """mt: model table, it: implementation RenderTable (JSON)"""
    def bad(col, msg, row=None):
        if len(out) < limit:
            out.append({"view": view, "table": tag, "column": col, "row": row, "what": msg})

    if it["header"] != COLS:
        bad("header", "header %s" % it["header"])
        return
    if len(it["rows"]) != len(mt["rows"]):
        bad("rows", "%d rows shown, model %d" % (len(it["rows"]), len(mt["rows"])))
        return
    for j, (mrow, irow) in enumerate(zip(mt["rows"], it["rows"])):
        if len(irow) != len(mrow):
            bad("rows", "row %d has %d cells, model %d" % (j, len(irow), len(mrow)), j)
            continue
        for c, (mp, ic) in enumerate(zip(mrow, irow)):
            stats["cells:%s:%s" % (view, COLS[c])] += 1
            stats["leaves:%s" % view] += dollar_leaf_count(mp)
            nm = names
            if c == 15 and irow[3] == "SfLA":
                # rows generated by the ledger carry a generated memo (not modelled)
                nm = dict(names, memo={})
            d = match_cell(mp, ic, nm)
            if d is not None:
                bad(COLS[c], "row %d shows %r; %s" % (j, ic, d), j)
    if len(it["footer"]) != len(mt["footer"]):
        bad("footer", "footer has %d cells, model %d" % (len(it["footer"]), len(mt["footer"])))
    else:
        for c, (mp, ic) in enumerate(zip(mt["footer"], it["footer"])):
            stats["cells:%s:footer" % view] += 1
            d = match_cell(mp, ic, names)
            if d is not None:
                bad("footer[%d]" % c, "footer shows %r; %s" % (ic, d))
    stats["cells:%s:notes" % view] += 1
    if list(it["notes"]) != mt["notes"]:
        bad("notes", "notes %r, model %r" % (it["notes"], mt["notes"]))


def compare_aggregate(magg, it, view, stats, out, limit=6):
    def bad(msg):
        if len(out) < limit:
            out.append({"view": view, "table": "aggregate", "column": "Capital Gains", "row": None, "what": msg})

    if it["header"] != ["Year", "Capital Gains"]:
        bad("header %s" % it["header"])
        return
    if len(it["rows"]) != len(magg):
        bad("%d rows shown, model %d" % (len(it["rows"]), len(magg)))
        return
    for (ml, mv), irow in zip(magg, it["rows"]):
        for mp, ic in zip((ml, mv), irow):
            stats["cells:%s:aggregate" % view] += 1
            d = match_cell(mp, ic, {"sec": {}, "aff": {}})
            if d is not None:
                bad("aggregate shows %r; %s" % (ic, d))
    if it["footer"] or it["notes"]:
        bad("aggregate table has a footer / notes")


def names_of(r):
    """name tables of one corecheck result"""
    sec = {v: k for k, v in r["st"].items()}
    aff = {v: k for k, v in r["at"].items()}
    memo = {ri: row.get("memo", "") for ri, row in enumerate(r["case"]["rows"])}
    return {"sec": sec, "aff": aff, "memo": memo}


def compare_run(r, m, stats, agg_exact=True):
    """r: one result of corecheck.run_cases(..., render=True); m: parse_pipeline
    of the same case.  returns (status, mismatches); status 'compared' /
    'skipped' / 'both-panic'"""
    out = []
    i = r["impl"]
    rf, rc = r["raw"].get("render_full"), r["raw"].get("render_cents")
    if m["status"] == "model-error":
        return "compared", [{"view": "-", "table": "-", "column": "-", "row": None, "what": "model rejected its input (%s)" % m["code"]}]
    impl_panic = i["status"] == "panic" or (isinstance(rf, dict) and rf.get("status") == "panic")
    model_panic = m["status"] == "panic" or (m["status"] == "ok" and m["full"]["status"] == "panic")
    if impl_panic or model_panic:
        if impl_panic != model_panic:
            where = rf.get("panic") if isinstance(rf, dict) and rf.get("status") == "panic" else i.get("panic")
            return "compared", [{"view": "both", "table": "-", "column": "-", "row": None,
                                 "what": "implementation %s, model %s" % ("panicked (%s)" % str(where)[:160] if impl_panic else "rendered the report",
                                                                        "panics (%s)" % (m.get("panic") or m["full"].get("panic"),) if model_panic else "renders the report")}]
        return "both-panic", []
    if i["status"] != "ok" or not isinstance(rf, dict) or "secs" not in rf:
        if m["status"] == "ok":
            return "compared", [{"view": "both", "table": "-", "column": "-", "row": None,
                                 "what": "implementation stopped (%s), model renders a report" % (i.get("msg") or i["status"])}]
        return "skipped", []
    if m["status"] != "ok":
        return "compared", [{"view": "both", "table": "-", "column": "-", "row": None,
                             "what": "implementation rendered a report, model stopped (%s)" % (m,)}]
    names = names_of(r)
    for view, it_all, mres in (("full", rf, m["full"]), ("cents", rc, m["cents"])):
        if mres["status"] != "ok":
            out.append({"view": view, "table": "-", "column": "-", "row": None, "what": "model: %s" % (mres,)})
            continue
        mrep = mres["value"]
        inames = {names["sec"][s]: s for s in mrep["secs"]}
        if set(inames) != set(it_all["secs"]):
            out.append({"view": view, "table": "-", "column": "-", "row": None,
                        "what": "tables of %s, model %s" % (sorted(it_all["secs"]), sorted(inames))})
            continue
        for sname, snum in sorted(inames.items()):
            mt, it = mrep["secs"][snum], it_all["secs"][sname]
            compare_table(mt, it, names, view, sname, stats, out)
            stats["cells:%s:errors" % view] += 1
            if (mt["stop"][0] == 1) != (len(it["errors"]) > 0):
                out.append({"view": view, "table": sname, "column": "errors", "row": None,
                            "what": "errors %r, model outcome %s" % (it["errors"], mt["stop"])})
            elif mt["stop"][0] == 1 and core.rej_class(it["errors"][0]) != mt["stop"][1]:
                out.append({"view": view, "table": sname, "column": "errors", "row": None,
                            "what": "error %r, model class %s" % (it["errors"][0], mt["stop"][1])})
        compare_aggregate(mrep["agg"], it_all["agg"], view, stats, out)
    return "compared", out


# ------------------------------------------------------------------ direct mode
# render_tx_table_model / render_aggregate_capital_gains driven directly on
# given deltas and gains (harness binary acbh_render, model entry 1): states
# the ledger never produces (a sale from an empty position, a superficial-loss
# record on a row that is not a sale, arbitrary totals) are rendered too.
def _q(text):
    return qenc(Fraction(text))


def _opt(text):
    return [0, 0, 1] if text is None else [1] + _q(text)


def direct_ints(dc, arith=1):
    ds = dc["deltas"]
    at = core.af_table([d["af"] for d in ds if d.get("af") is not None])
    out = [1, arith, len(ds)]
    for ri, d in enumerate(ds):
        i, _, reg = core.af_id(d.get("af") or "")
        out += [0, d["td"], d["sd"], at[i], int(reg), int(i.startswith("default")), 0, ri]
        a = d["act"]
        if a in ("Buy", "Sell"):
            crate = d["crate"] if d.get("ccur") is not None else d["rate"]
            out += [0 if a == "Buy" else 1] + _q(d["sh"]) + _q(d["aps"]) + _q(d["com"]) + _q(d["rate"]) + _q(crate)
            if a == "Sell":
                if d.get("spec") is not None:
                    out += [1] + _q(d["spec"][0]) + [int(d["spec"][1])]
                else:
                    out += [0]
        elif a == "RoC":
            out += [2] + _q(d["aps"]) + _q(d["rate"])
        elif a == "SfLA":
            out += [3] + _q(d["sh"]) + _q(d["aps"])
        else:
            out += [4] + _q(d["post_split"]) + _q(d["pre_split"]) + [int(bool(d.get("int_only")))]
        for s in (d["pre"], d["post"]):
            out += _q(s[0]) + _q(s[1]) + _opt(s[2])
        out += _opt(d.get("gain"))
        if d.get("sfl") is not None:
            out += [1] + _q(d["sfl"][0]) + _q(d["sfl"][1]) + _q(d["sfl"][2]) + [int(d["sfl"][3])]
        else:
            out += [0, 0, 1, 0, 1, 0, 1, 0]
    g = dc["gains"]
    out += _q(g["total"]) + [len(g["years"])]
    for y, v in g["years"]:
        out += [y] + _q(v)
    out.append(len(ds))
    for d in ds:
        c = cur_bytes(d.get("cur"))
        cc = cur_bytes(d.get("ccur")) if d.get("ccur") is not None else c
        out += enc_bytes(c) + enc_bytes(cc)
    return out, at


def direct_json(dc):
    ds = []
    for ri, d in enumerate(dc["deltas"]):
        o = dict(d)
        o["td"] = core.date_str(d["td"])
        o["sd"] = core.date_str(d["sd"])
        o["ri"] = ri
        o["sec"] = "FOO"
        ds.append(o)
    return {"deltas": ds, "gains": {"total": dc["gains"]["total"], "years": [[y, v] for y, v in dc["gains"]["years"]]}}


def rdec(rng, kind="gez", big=False):
    """decimal text; kind: gez / pos / any / neg"""
    k = rng.random()
    if k < 0.25:
        t = core.D(rng.choice([0, 1, 2, 3, 5, 10, 100, 250]))[0]
    elif k < 0.45:
        t = core.D(rng.randint(0, 300000), 2)[0]
    elif k < 0.6:
        t = core.D(rng.randint(0, 10 ** 5) * 10 + 5, 3)[0]            # ties x.xx5
    elif k < 0.72:
        t = rng.choice(["0.001", "0.0049", "0.004999999999", "0.005", "0.0050000001", "0.0000000001", "0.00"])
    elif k < 0.9:
        t = core.D(rng.randint(0, 10 ** 12), rng.choice([4, 6, 9, 12]))[0]
    elif big and k < 0.93:
        t = core.D(rng.randint(10 ** 27, 7 * 10 ** 28))[0]
    else:
        t = core.D(rng.randint(0, 10 ** 15), rng.choice([0, 3, 20]))[0]
    f = Fraction(t)
    if kind in ("pos", "neg") and f == 0:
        t = rng.choice(["1", "0.001", "0.005", "2.50"])
    if kind == "neg" or (kind == "any" and rng.random() < 0.5 and Fraction(t) != 0):
        t = "-" + t
    return t


def gen_direct(rng):
    afs = rng.sample(["", "Spouse", "Spouse (R)", "(R)", "Zed"], rng.choice([1, 2, 3]))
    big = rng.random() < 0.08
    ds = []
    day = core.BASE_DAY + rng.randint(0, 900)
    for _ in range(rng.randint(0, 6)):
        day += rng.choice([0, 1, 30, 200])
        act = rng.choice(["Buy", "Sell", "Sell", "Sell", "RoC", "SfLA", "Split"])
        d = {"td": day - rng.choice([0, 2]), "sd": day, "af": rng.choice(afs), "act": act, "memo": ""}
        if act in ("Buy", "Sell"):
            d["sh"] = rdec(rng, "pos", big)
            d["aps"] = rdec(rng, "gez", big)
            d["com"] = rng.choice(["0", "0.00", "9.99", "0.005", "1"]) if rng.random() < 0.7 else rdec(rng, "gez")
            d["cur"], d["rate"] = rng.choice([("CAD", "1"), ("", "1"), ("cad", "1.0"), ("USD", rdec(rng, "pos", big)), ("eur", "1.4505"), ("USD", "1")])
            if rng.random() < 0.3:
                d["ccur"], d["crate"] = rng.choice([("CAD", "1"), ("USD", rdec(rng, "pos")), ("GBP", "1.75")])
            else:
                d["ccur"], d["crate"] = None, None
            if act == "Sell" and rng.random() < 0.4:
                d["spec"] = [rng.choice(["0", rdec(rng, "neg")]), rng.random() < 0.5]
        elif act == "RoC":
            d["aps"] = rdec(rng, "gez")
            d["cur"], d["rate"] = rng.choice([("CAD", "1"), ("USD", rdec(rng, "pos"))])
        elif act == "SfLA":
            d["sh"] = rdec(rng, "pos")
            d["aps"] = rdec(rng, "pos")
        else:
            d["post_split"], d["pre_split"] = rng.choice([("2", "1"), ("1", "3"), ("3", "2"), ("1.0", "2.0"), (rdec(rng, "pos"), rdec(rng, "pos"))])
            d["int_only"] = rng.random() < 0.3
        for key in ("pre", "post"):
            sh = rng.choice(["0", "0.0", rdec(rng, "gez", big), rdec(rng, "pos")])
            al = sh if rng.random() < 0.5 else rdec(rng, "gez")
            acb = None if rng.random() < 0.2 else rdec(rng, "gez", big)
            d[key] = [sh, al, acb]
        d["gain"] = None if rng.random() < 0.3 else rdec(rng, "any", big)
        d["sfl"] = None if rng.random() < 0.55 else [rdec(rng, "neg"), rdec(rng, "pos"), rdec(rng, "pos"), rng.random() < 0.4]
        ds.append(d)
    years = []
    for y in rng.sample(range(2015, 2026), rng.choice([0, 1, 2, 4])):
        years.append([y, rdec(rng, "any", big)])
    return {"deltas": ds, "gains": {"total": rdec(rng, "any", big), "years": years}}


def run_direct(exe, dcases, arith=1):
    impl = run_harness(exe, "table", [direct_json(dc) for dc in dcases])
    enc = [direct_ints(dc, arith) for dc in dcases]
    outs = run_model([e[0] for e in enc], group="render")
    return impl, [parse_direct(o) for o in outs], [e[1] for e in enc]


def compare_direct(dc, io, mo, at, stats):
    out = []
    if mo["status"] != "ok":
        return [{"view": "-", "table": "direct", "column": "-", "row": None, "what": "model rejected its input (%s)" % mo.get("code")}]
    names = {"sec": {0: "FOO"}, "aff": {v: k for k, v in at.items()}, "memo": {}}
    for view in ("full", "cents"):
        for key, akey in ((view, None), ("agg_" + view, "agg")):
            it, mt = io[key], mo[key]
            ipanic = it.get("status") == "panic"
            if ipanic or mt["status"] != "ok":
                stats["direct:panic-compared"] += 1
                if ipanic != (mt["status"] == "panic"):
                    out.append({"view": view, "table": "direct " + key, "column": "-", "row": None,
                                "what": "implementation %s, model %s" % ("panicked (%s)" % str(it.get("panic"))[:160] if ipanic else "rendered", mt["status"] + str(mt.get("panic", "")))})
                continue
            if akey is None:
                compare_table(mt["value"], it, names, view, "direct", stats, out)
            else:
                compare_aggregate(mt["value"], it, view, stats, out)
    return out


# ------------------------------------------------------------------ the implementation's own deltas
# second tie: the render model run on the deltas and totals the IMPLEMENTATION
# produced (model entry 1), so that the renderer is compared on its own even
# where the ledger model and the ledger differ.
MONEY = re.compile(r"^([+-]?)\$(\d+(?:\.\d+)?)$")


def _money(s):
    m = MONEY.match(s)
    if not m:
        raise ValueError(s)
    return ("-" if m.group(1) == "-" else "") + m.group(2)


def impl_direct_case(r, sname):
    """direct case from the implementation's deltas of one security and the
    totals of its full-precision footer; None when it cannot be built"""
    so = r["raw"]["secs"][sname]
    tf = r["raw"]["render_full"]["secs"][sname]
    rows = r["case"]["rows"]
    ds = []
    for d in so["deltas"]:
        a = d["act"]
        o = {"td": datetime.date.fromisoformat(d["td"]).toordinal(), "sd": datetime.date.fromisoformat(d["sd"]).toordinal(),
             "af": d["afname"], "act": a, "memo": "", "pre": list(d["pre"]), "post": list(d["post"]),
             "gain": d["gain"], "sfl": d["sfl"]}
        src = rows[d["ri"]] if d.get("ri") is not None and d["ri"] < len(rows) and rows[d["ri"]]["act"] == a and a != "SfLA" else None
        if a in ("Buy", "Sell", "RoC") and src is None:
            return None
        if a in ("Buy", "Sell"):
            q = d["q"]
            c, cc = row_currencies(src)
            o.update({"sh": q[0], "aps": q[1], "com": q[2], "rate": q[3], "crate": q[4],
                      "cur": bytes(c).decode(), "ccur": bytes(cc).decode()})
            if a == "Sell" and src.get("sfl") is not None:
                o["spec"] = [src["sfl"][0][0], bool(src["sfl"][1])]
        elif a == "RoC":
            o.update({"aps": d["q"][0], "rate": d["q"][1], "cur": bytes(row_currencies(src)[0]).decode()})
        elif a == "SfLA":
            o.update({"sh": d["sfla"][0], "aps": d["sfla"][1]})
        else:
            o.update({"post_split": d["q"][0], "pre_split": d["q"][1], "int_only": bool(d["q"][2])})
        ds.append(o)
    try:
        labels = tf["footer"][8].split("\n")
        vals = [_money(v) for v in tf["footer"][9].split("\n")]
        if labels[0] != "Total" or len(labels) != len(vals):
            return None
        years = [[int(l), v] for l, v in zip(labels[1:], vals[1:])]
    except (ValueError, IndexError):
        return None
    return {"deltas": ds, "gains": {"total": vals[0], "years": years}}


# ------------------------------------------------------------------ corpus
def _row(sec, day, act, af=None, **kw):
    r = {"sec": sec, "td": day - kw.pop("lag", 0), "sd": day, "act": act, "af": af,
         "com": None, "cur": None, "rate": None}
    r.update(kw)
    return r


def corpus():
    """hand-written histories for the render comparison (pipeline entry)"""
    D = core.D
    b = core.BASE_DAY
    cs = []
    # affiliates with different balances, a registered one, ties at x.xx5, a loss inside (-0.005, 0)
    cs.append({"inits": {}, "rows": [
        _row("FOO", b + 1, "Buy", None, sh=D(10), aps=D(10005, 3)),
        _row("FOO", b + 2, "Buy", "Spouse", sh=D(3), aps=D(7333, 3), com=D(5, 3)),
        _row("FOO", b + 3, "Buy", "(R)", sh=D(5), aps=D(20)),
        _row("FOO", b + 200, "Sell", None, sh=D(4), aps=D(12), com=D(995, 2)),
        _row("FOO", b + 400, "Sell", "Spouse", sh=D(1), aps=D(7334, 3)),
        _row("FOO", b + 401, "Sell", "(R)", sh=D(2), aps=D(1)),
        _row("FOO", b + 600, "Sell", None, sh=D(1), aps=D(10004, 3)),     # gain -0.001
        _row("FOO", b + 800, "Sell", None, sh=D(5), aps=D(100051, 4)),    # gain +0.0005
    ]})
    # superficial losses: partial, forced by the user, not forced, over-applied
    cs.append({"inits": {}, "rows": [
        _row("FOO", b + 1, "Buy", None, sh=D(10), aps=D(10)),
        _row("FOO", b + 100, "Sell", None, sh=D(5), aps=D(5)),
        _row("FOO", b + 105, "Buy", "Spouse", sh=D(5), aps=D(5)),
        _row("FOO", b + 110, "Sell", "Spouse", sh=D(4), aps=D(6)),
        _row("FOO", b + 400, "Sell", None, sh=D(2), aps=D(3), sfl=(D(-1234, 3), True)),
        _row("FOO", b + 600, "Buy", None, sh=D(1), aps=D(3)),
        _row("FOO", b + 605, "Sell", None, sh=D(2), aps=D(1)),
        _row("FOO", b + 606, "Buy", None, sh=D(7), aps=D(1)),
    ]})
    cs.append({"inits": {}, "rows": [
        _row("FOO", b + 1, "Buy", None, sh=D(10), aps=D(10)),
        _row("FOO", b + 100, "Sell", None, sh=D(10), aps=D(5), sfl=(D(-2000, 2), False)),
        _row("FOO", b + 102, "Buy", None, sh=D(4), aps=D(5)),
    ]})
    # foreign currency with explicit rates, separate commission currency, RoC, SfLA, splits
    cs.append({"inits": {"FOO": (D(7), D(70005, 3))}, "rows": [
        _row("FOO", b + 1, "Buy", None, sh=D(10), aps=D(12345, 3), com=D(999, 2), cur="USD", rate=D(13333, 4)),
        _row("FOO", b + 2, "Buy", None, sh=D(1), aps=D(1), com=D(1), cur="EUR", rate=D(15, 1), ccur="USD", crate=D(125, 2)),
        _row("FOO", b + 3, "Buy", None, sh=D(1), aps=D(1), com=D(2), cur="USD", rate=D(1), ccur="CAD"),
        _row("FOO", b + 50, "RoC", None, aps=D(5, 3), cur="usd", rate=D(12, 1)),
        _row("FOO", b + 60, "RoC", None, aps=D(0)),
        _row("FOO", b + 70, "SfLA", None, sh=D(3), aps=D(1005, 3)),
        _row("FOO", b + 80, "Split", None, split=("3", "2")),
        _row("FOO", b + 90, "Split", "Default", split=("1.0", "3.0")),
        _row("FOO", b + 300, "Sell", None, sh=D(25, 1), aps=D(99999, 4), com=D(1, 2), cur="USD", rate=D(130005, 5)),
        _row("FOO", b + 700, "Sell", None, sh=D(7), aps=D(0), cur="gbp", rate=D(17, 1)),
    ]})
    # a rejected security next to a good one, several years, totals that cancel
    cs.append({"inits": {}, "rows": [
        _row("BAR", b + 1, "Buy", None, sh=D(2), aps=D(3)),
        _row("BAR", b + 300, "Sell", None, sh=D(5), aps=D(3)),
        _row("FOO", b + 1, "Buy", None, sh=D(4), aps=D(10)),
        _row("FOO", b + 200, "Sell", None, sh=D(2), aps=D(11)),
        _row("FOO", b + 600, "Sell", None, sh=D(2), aps=D(9)),
        _row("QUX", b + 10, "Buy", "Zed", sh=D(1), aps=D(1, 3)),
        _row("QUX", b + 400, "Sell", "Zed", sh=D(1), aps=D(6, 3)),
        _row("QUX", b + 800, "Buy", "B", sh=D(100), aps=D(1)),
        _row("QUX", b + 900, "RoC", "B", aps=D(2)),
    ]})
    # global split over several holders, registered-only security (no gains at all)
    cs.append({"inits": {}, "rows": [
        _row("FOO", b + 1, "Buy", None, sh=D(3), aps=D(9)),
        _row("FOO", b + 2, "Buy", "Spouse (R)", sh=D(6), aps=D(9)),
        _row("FOO", b + 90, "Split", None, split=("2", "1")),
        _row("FOO", b + 200, "Sell", "Spouse (R)", sh=D(12), aps=D(1)),
        _row("BAR", b + 5, "Buy", "(R)", sh=D(1), aps=D(1)),
        _row("BAR", b + 500, "Sell", "(R)", sh=D(1), aps=D(2)),
    ]})
    return cs


def direct_corpus():
    """deltas the ledger never produces, rendered directly"""
    b = core.BASE_DAY
    st0 = ["0", "0", "0"]

    def sell(pre, post, gain, sfl=None, spec=None, **kw):
        d = {"td": b, "sd": b + 2, "af": kw.pop("af", ""), "act": "Sell", "memo": "", "sh": "3", "aps": "2.005",
             "com": "0", "cur": "CAD", "rate": "1", "ccur": None, "crate": None, "spec": spec,
             "pre": pre, "post": post, "gain": gain, "sfl": sfl}
        d.update(kw)
        return d
    cs = []
    # sales when the affiliate's own pre-balance is zero but other affiliates hold shares
    cs.append({"deltas": [sell(["0", "50", "0"], ["0", "47", "0"], "6.015"),
                          sell(["0", "50", "12"], ["0", "47", "12"], "-0.004"),
                          sell(["0.0", "0", None], st0, None, af="(R)")],
               "gains": {"total": "6.011", "years": [[2019, "6.011"]]}})
    # own balance differs from the all-affiliate balance: the per-share figures use the affiliate's
    cs.append({"deltas": [sell(["4", "100", "10"], ["1", "97", "2.5"], "-0.005", af="Spouse"),
                          sell(["4", "4", "10.01"], ["1", "97", "2.5025"], "0.005"),
                          sell(["3", "100", None], ["0", "97", None], None, af="Spouse (R)")],
               "gains": {"total": "0", "years": [[2020, "0.005"], [2019, "-0.005"]]}})
    # superficial loss records: forced / not, over-applied / not, on a later sale without one, on a row that is not a sale
    cs.append({"deltas": [sell(["10", "10", "100"], ["7", "7", "70"], "-1.5", sfl=["-3.004", "2", "3", True], spec=["-3.004", True]),
                          sell(["7", "7", "70"], ["4", "4", "40"], "-2"),
                          sell(["4", "4", "40"], ["1", "1", "10"], "0", sfl=["-0.001", "1.50", "3.0", False], spec=["-0.001", False]),
                          sell(["1", "1", "10"], ["1", "1", "10"], "-1", sfl=["-5", "1", "3", False]),
                          {"td": b, "sd": b + 3, "af": "", "act": "Buy", "memo": "", "sh": "1", "aps": "1", "com": "0.004", "cur": "USD",
                           "rate": "1.005", "ccur": None, "crate": None, "pre": st0, "post": ["1", "1", "1.009"], "gain": "-7",
                           "sfl": ["-5", "1", "3", True]}],
               "gains": {"total": "-4.5", "years": [[2021, "-0.0049"], [2019, "-4.4951"]]}})
    # a superficial-loss record on a sale without a capital gain (registered): legend without a suffix
    cs.append({"deltas": [sell(["5", "5", None], ["2", "2", None], None, sfl=["-1", "1", "3", True], af="(R)")],
               "gains": {"total": "0", "years": []}})
    # totals: ties, values inside (-0.005, 0.005), years in descending insertion order
    cs.append({"deltas": [], "gains": {"total": "-0.001", "years": [[2023, "0.005"], [2021, "-0.005"], [2022, "0.0049"], [2020, "-0.0049"], [2019, "1.995"], [2018, "-1.995"]]}})
    cs.append({"deltas": [], "gains": {"total": "0", "years": []}})
    # rows of every kind with a zero post balance (no per-share figure), split rendering
    cs.append({"deltas": [
        {"td": b, "sd": b, "af": "", "act": "Split", "memo": "", "post_split": "1", "pre_split": "3", "int_only": True,
         "pre": ["9", "12", "9.999"], "post": ["3", "6", "9.999"], "gain": None, "sfl": None},
        {"td": b, "sd": b, "af": "", "act": "Split", "memo": "", "post_split": "3", "pre_split": "7", "int_only": False,
         "pre": ["0", "0", "0"], "post": ["0", "0", "0"], "gain": None, "sfl": None},
        {"td": b, "sd": b, "af": "", "act": "RoC", "memo": "", "aps": "0.005", "cur": "USD", "rate": "1.5",
         "pre": ["3", "3", "9.999"], "post": ["3", "3", "9.9765"], "gain": None, "sfl": None},
        {"td": b, "sd": b, "af": "", "act": "SfLA", "memo": "", "sh": "3", "aps": "0.335",
         "pre": ["0", "3", "0"], "post": ["0", "3", "1.005"], "gain": None, "sfl": None}],
        "gains": {"total": "0", "years": []}})
    return cs


# ------------------------------------------------------------------ the pass of C06
def check_pass(res, ctx, rs, to_cents_view):
    """compare every cell of both views of the implementation's tables (rs:
    results of corecheck.run_cases(..., render=True)) with the render model;
    then the hand-written corpus, directly rendered deltas and cent texts."""
    import random
    import corecheck
    tier, seed = ctx["tier"], ctx["seed"]
    rng = random.Random(seed * 7368787 + 606)
    stats = collections.Counter()

    def classify(mm, full_cell, cents_cell, replay):
        what = "render model and implementation differ (%s view, table %s, column %s): %s" % (mm["view"], mm["table"], mm["column"], mm["what"])
        if full_cell is not None and cents_cell is not None and to_cents_view(full_cell) != cents_cell:
            res.violation("failing-input", "default view cell %r is not the cent-rounded full-precision cell %r; " % (cents_cell, full_cell) + what, replay)
        else:
            rp = dict(replay)
            rp["theorem_or_projection"] = "render cells (Model/Render.v render_table / render_aggregate against render.rs)"
            res.violation("broken-correspondence", what, rp, found_input=False)

    def impl_cells(tf, tc, mm):
        try:
            if mm["row"] is not None and mm["column"] in COLS:
                c = COLS.index(mm["column"])
                return tf["rows"][mm["row"]][c], tc["rows"][mm["row"]][c]
            m = re.match(r"footer\[(\d+)\]", mm["column"])
            if m:
                return tf["footer"][int(m.group(1))], tc["footer"][int(m.group(1))]
        except (IndexError, KeyError, TypeError):
            pass
        return None, None

    # 1. pipeline: ledger -> gains -> render, model against implementation
    extra = corecheck.run_cases(ctx, corpus(), render=True)
    allrs = list(rs) + extra
    ms = run_pipeline([r["case"] for r in allrs])
    for k, (r, m) in enumerate(zip(allrs, ms)):
        if core.diff_exact(r["dec"], r["impl"]) is not None:
            # the LEDGER model and the ledger differ on this case: that is the business of C01-C05; the
            # renderer is still compared below on the implementation's own deltas (1b)
            stats["pipeline:ledger-differs-left-to-C01-C05"] += 1
            continue
        status, out = compare_run(r, m, stats)
        stats["pipeline:" + status] += 1
        if k >= len(rs):
            stats["pipeline:corpus"] += 1
        rf = r["raw"].get("render_full")
        if status == "compared" and isinstance(rf, dict) and "secs" in rf:
            for t in rf["secs"].values():
                stats["pipeline:tables"] += 1
                stats["pipeline:tables-with-sfl-note"] += any("SfL =" in n for n in t["notes"])
                stats["pipeline:tables-with-over-note"] += any("[1]" in n for n in t["notes"])
                stats["pipeline:tables-with-error"] += bool(t["errors"])
                stats["pipeline:cells-negative-zero"] += sum(c.startswith("-$0.00") for row in r["raw"]["render_cents"]["secs"].get(t["rows"][0][0], {"rows": []})["rows"] for c in row) if t["rows"] else 0
        for mm in out[:2]:
            cf = cc = None
            if isinstance(rf, dict) and "secs" in rf and mm["table"] in rf["secs"]:
                cf, cc = impl_cells(rf["secs"][mm["table"]], r["raw"]["render_cents"]["secs"][mm["table"]], mm)
            classify(mm, cf, cc, {"input": r["hc"]})
    # 1b. the render model on the implementation's own deltas and totals (entry 1)
    jobs = []
    for r in allrs:
        rf = r["raw"].get("render_full")
        if r["impl"]["status"] != "ok" or not isinstance(rf, dict) or "secs" not in rf:
            continue
        for sname in sorted(rf["secs"]):
            dc = impl_direct_case(r, sname)
            if dc is None:
                stats["impl-deltas:skipped"] += 1
            else:
                jobs.append((r, sname, dc))
    encs = [direct_ints(dc) for _, _, dc in jobs]
    mouts = [parse_direct(o) for o in run_model([e[0] for e in encs], group="render")]
    for (r, sname, dc), (_, at), mo in zip(jobs, encs, mouts):
        stats["impl-deltas:tables"] += 1
        names = {"sec": {0: sname}, "aff": {v: k for k, v in at.items()}, "memo": {}}
        out = []
        for view, key in (("full", "render_full"), ("cents", "render_cents")):
            mt = mo.get(view, {"status": "model-error"})
            if mt["status"] != "ok":
                out.append({"view": view, "table": sname, "column": "-", "row": None, "what": "model on the implementation's deltas: %s" % (mt,)})
                continue
            sub = collections.Counter()
            compare_table(mt["value"], r["raw"][key]["secs"][sname], names, view, sname, sub, out)
            stats["impl-deltas:cells"] += sum(v for k, v in sub.items() if k.startswith("cells:"))
        for mm in out[:2]:
            mm = dict(mm, what="(model run on the implementation's own deltas) " + mm["what"])
            cf, cc = impl_cells(r["raw"]["render_full"]["secs"][sname], r["raw"]["render_cents"]["secs"][sname], mm)
            classify(mm, cf, cc, {"input": r["hc"]})
    # 2. deltas rendered directly
    exe, log = build_harness("render")
    if exe is None:
        res.violation("broken-correspondence", "the render harness does not build against the current tree",
                      {"theorem_or_projection": "harness build (acbh_render)", "log": log[-3000:]}, found_input=False)
    else:
        dcs = direct_corpus()
        ncorp = len(dcs)
        dcs += [gen_direct(rng) for _ in range(400 if tier == "quick" else 6000)]
        impl, mods, ats = run_direct(exe, dcs)
        for k, (dc, io, mo, at) in enumerate(zip(dcs, impl, mods, ats)):
            stats["direct:cases"] += 1
            if k < ncorp:
                stats["direct:corpus"] += 1
            if isinstance(io.get("cents"), dict) and "rows" in io["cents"]:
                stats["direct:cells-negative-zero"] += sum(c.startswith("-$0.00") for row in io["cents"]["rows"] for c in row)
            for mm in compare_direct(dc, io, mo, at, stats)[:2]:
                cf = cc = None
                if "rows" in io.get("full", {}) and "rows" in io.get("cents", {}):
                    cf, cc = impl_cells(io["full"], io["cents"], mm)
                classify(mm, cf, cc, {"direct_case": dc})
        # 3. the cent text of a figure
        vals = ["0", "0.005", "-0.005", "0.0049", "-0.0049", "-0.001", "1.005", "1.0049999", "2.675", "-2.675", "1.5", "2",
                "0.995", "-0.995", "79228162514264337593543950335", "-7922816251426433759354395.0335"]
        for _ in range(1500 if tier == "quick" else 20000):
            sc = rng.choice([0, 1, 2, 3, 3, 4, 6, 10, 20, 28])
            k = rng.random()
            if k < 0.3:
                mnt = rng.randint(-2000, 2000)
            elif k < 0.55:
                mnt = rng.randint(-10 ** 8, 10 ** 8)
            elif k < 0.8 and sc >= 3:
                mnt = rng.choice([-1, 1]) * (rng.randint(0, 10 ** 6) * 10 + 5) * 10 ** (sc - 3)
            else:
                mnt = rng.randint(-2 ** 96 + 1, 2 ** 96 - 1)
            if abs(mnt) < 2 ** 96:
                vals.append(core.D(mnt, sc)[0])
        outs = run_harness(exe, "dollar", [{"v": v} for v in vals])
        mouts = run_model([[2] + qenc(Fraction(v)) for v in vals], group="render")
        for v, o, m in zip(vals, outs, mouts):
            stats["text:figures"] += 1
            mt = bytes(m[3:]).decode() if m and m[0] == 1 else "<model error>"
            want = Fraction(v) * 100
            n = m[1] if len(m) > 1 else None
            if mt != o.get("text"):
                res.violation("broken-correspondence", "dollar_precision_str(%s) = %r, model dollar2_text %r" % (v, o.get("text"), mt),
                              {"theorem_or_projection": "render cells (dollar2_text against dollar_precision_str)", "value": v}, found_input=False)
            elif n is None or abs(want - n) > Fraction(1, 2) or Fraction(mt) != Fraction(n, 100):
                res.violation("failing-input", "the cent text %r of %s is not the figure rounded to cents" % (mt, v), {"value": v})
    cols = {}
    for k, v in stats.items():
        if k.startswith("cells:"):
            _, view, col = k.split(":", 2)
            cols.setdefault(col, {})[view] = v
    res.coverage["render_model"] = {
        "cells_compared_per_column": {c: cols[c] for c in sorted(cols)},
        "cells_compared": sum(v for k, v in stats.items() if k.startswith("cells:")),
        "numeric_leaves_compared": {"full": stats["leaves:full"], "cents": stats["leaves:cents"]},
        "runs": {k: v for k, v in sorted(stats.items()) if not k.startswith("cells:") and not k.startswith("leaves:")},
        "rule": "every cell of both views of every security table (16 columns, footer, notes, errors) and of the aggregate table is matched against the "
                "extracted render model: literals (format strings, cent texts of the default view) byte for byte, numeric leaves (full-precision figures, "
                "share counts, ratios, years) by exact value; pipeline = model ledger -> gains -> render on the same case under rust_decimal rounding; "
                "direct = render_tx_table_model / render_aggregate_capital_gains called on hand-made and random deltas; text = dollar_precision_str on random decimals",
    }
