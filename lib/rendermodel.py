# The report renderer inside the model: drive the extracted Gallina model of
# portfolio/render.rs (coq/Model/Render.v, group "render") and compare EVERY
# cell of the implementation's render tables with it.
#
# A model cell is a list of pieces: literal bytes (the format strings of
# render.rs and, in the default view, the cent texts of the figures) and
# numeric leaves (figures printed by Decimal::to_string, whose text depends on
# the display scale the value model does not carry).  A cell of the
# implementation matches when it is the concatenation of the literals, byte
# for byte, with a decimal numeral of exactly the model's value at every
# numeric leaf.  In the default view every dollar figure is a literal, so
# dollar cells are compared byte for byte; share counts, ratios and the
# full-precision view are compared by value.
import collections
import datetime
import re
from fractions import Fraction

import core
from common import run_model, run_harness, qenc, Reader, build_harness

COLS = ['Security', 'Trade Date', 'Settl. Date', 'TX', 'Amount', 'Shares', 'Amt/Share', 'ACB', 'Commission',
        'Cap. Gain', 'Share Balance', 'ACB +/-', 'New ACB', 'New ACB/Share', 'Affiliate', 'Memo']
NUMRE = r"(-?\d+(?:\.\d+)?)"


# ------------------------------------------------------------------ encoding
def cur_bytes(s):
    """Currency::new: upper-cased, '' -> CAD"""
    s = (s or "").upper()
    return list((s or "CAD").encode())


def row_currencies(r):
    """(transaction currency, commission currency as commission_currency_and_rate() returns it)"""
    a = r["act"]
    if a not in ("Buy", "Sell", "RoC"):
        return cur_bytes(None), cur_bytes(None)
    cur = cur_bytes(r.get("cur"))
    if a != "RoC" and (r.get("ccur") or r.get("crate") is not None):
        return cur, cur_bytes(r.get("ccur"))
    return cur, cur


def enc_bytes(b):
    return [len(b)] + list(b)


def enc_curs(rows):
    out = [len(rows)]
    for r in rows:
        c, cc = row_currencies(r)
        out += enc_bytes(c) + enc_bytes(cc)
    return out


def pipeline_ints(case, arith=1):
    """entry 0: the core case encoding followed by the rows' currencies"""
    ints, st, at = core.to_ints(case, arith)
    assert ints[0] == 0
    return ints + enc_curs(case["rows"]), st, at


# ------------------------------------------------------------------ decoding
def rd_bytes(rd):
    n = rd.z()
    return bytes(rd.z() for _ in range(n))


def rd_pieces(rd):
    n = rd.z()
    out = []
    for _ in range(n):
        t = rd.z()
        if t == 0:
            out.append(("lit", rd_bytes(rd)))
        elif t == 1:
            out.append(("num", rd.q()))
        elif t == 2:
            out.append(("sec", rd.z()))
        elif t == 3:
            out.append(("day", rd.z()))
        elif t == 4:
            out.append(("aff", rd.z()))
        elif t == 5:
            out.append(("memo", rd.z()))
        else:
            raise ValueError("piece tag %d" % t)
    return out


def rd_table(rd):
    rows = []
    for _ in range(rd.z()):
        rows.append([rd_pieces(rd) for _ in range(rd.z())])
    footer = [rd_pieces(rd) for _ in range(rd.z())]
    notes = [rd_bytes(rd).decode() for _ in range(rd.z())]
    return {"rows": rows, "footer": footer, "notes": notes}


def rd_aggregate(rd):
    return [[rd_pieces(rd), rd_pieces(rd)] for _ in range(rd.z())]


def rd_res(rd, f):
    k = rd.z()
    if k == 0:
        return {"status": "ok", "value": f(rd)}
    if k == 1:
        return {"status": "err", "rej": rd.z()}
    return {"status": "panic", "panic": (rd.z(), rd.z())}


def rd_report(rd):
    tabs = {}
    for _ in range(rd.z()):
        s = rd.z()
        stop = (rd.z(), rd.z(), rd.z())
        t = rd_table(rd)
        t["stop"] = stop
        tabs[s] = t
    return {"secs": tabs, "agg": rd_aggregate(rd)}


def parse_pipeline(ints):
    rd = Reader(ints)
    st = rd.z()
    if st != 1:
        return {"status": "model-error", "code": st}
    k = rd.z()
    if k == 1:
        return {"status": "err", "rej": rd.z()}
    if k == 2:
        return {"status": "panic", "panic": (rd.z(), rd.z())}
    full = rd_res(rd, rd_report)
    cents = rd_res(rd, rd_report)
    assert rd.done()
    return {"status": "ok", "full": full, "cents": cents}


def parse_direct(ints):
    rd = Reader(ints)
    st = rd.z()
    if st != 1:
        return {"status": "model-error", "code": st}
    out = {"status": "ok",
           "full": rd_res(rd, rd_table), "cents": rd_res(rd, rd_table),
           "agg_full": rd_res(rd, rd_aggregate), "agg_cents": rd_res(rd, rd_aggregate)}
    assert rd.done()
    return out


def run_pipeline(cases, arith=1):
    enc = [pipeline_ints(c, arith) for c in cases]
    outs = run_model([e[0] for e in enc], group="render")
    return [parse_pipeline(o) for o in outs]


# ------------------------------------------------------------------ matching
def merge(pieces):
    out = []
    for k, v in pieces:
        if k == "lit" and out and out[-1][0] == "lit":
            out[-1] = ("lit", out[-1][1] + v)
        else:
            out.append((k, v))
    return out


def match_cell(pieces, text, names):
    """None when the implementation's cell text is the model cell; otherwise a
    description of the first difference.  names: {'sec': {num: name},
    'aff': {num: id string}, 'memo': {ri: memo text}}"""
    pieces = merge(pieces)
    rx = []
    leaves = []
    for k, v in pieces:
        if k == "lit":
            rx.append(re.escape(v.decode()))
        elif k == "num":
            rx.append(NUMRE)
            leaves.append(("num", v))
        elif k == "sec":
            rx.append(re.escape(names["sec"].get(v, "?%d" % v)))
        elif k == "day":
            rx.append(re.escape(datetime.date.fromordinal(v).isoformat()))
        elif k == "aff":
            rx.append(r"([\s\S]*)")
            leaves.append(("aff", v))
        elif k == "memo":
            rx.append(r"([\s\S]*)")
            leaves.append(("memo", v))
    m = re.fullmatch("".join(rx), text)
    if m is None:
        return "layout: model %s" % show(pieces)
    for g, (k, v) in zip(m.groups(), leaves):
        if k == "num":
            if Fraction(g) != v:
                return "figure %s, model %s" % (g, fstr(v))
        elif k == "aff":
            want = names["aff"].get(v)
            if want is not None and g.strip().lower() != want.lower():
                return "affiliate %r, model %r" % (g, want)
        elif k == "memo":
            want = names.get("memo", {}).get(v)
            if want is not None and len(want) <= 32 and "\n" not in want and g != want:
                return "memo %r, row has %r" % (g, want)
    return None


def fstr(f):
    try:
        return core.dtext(f)
    except ValueError:
        return str(f)


def show(pieces):
    out = []
    for k, v in merge(pieces):
        if k == "lit":
            out.append(v.decode())
        elif k == "num":
            out.append("<%s>" % fstr(v))
        else:
            out.append("<%s %s>" % (k, v))
    return "".join(out)


def dollar_leaf_count(pieces):
    return sum(1 for k, _ in pieces if k == "num")


def compare_table(mt, it, names, view, tag, stats, out, limit=6):
    """mt: model table, it: implementation RenderTable (JSON)"""
    def bad(col, msg, row=None):
        if len(out) < limit:
            out.append({"view": view, "table": tag, "column": col, "row": row, "what": msg})

    if it["header"] != COLS:
        bad("header", "header %s" % it["header"])
        return
    if len(it["rows"]) != len(mt["rows"]):
        bad("rows", "%d rows shown, model %d" % (len(it["rows"]), len(mt["rows"])))
        return
    for j, (mrow, irow) in enumerate(zip(mt["rows"], it["rows"])):
        if len(irow) != len(mrow):
            bad("rows", "row %d has %d cells, model %d" % (j, len(irow), len(mrow)), j)
            continue
        for c, (mp, ic) in enumerate(zip(mrow, irow)):
            stats["cells:%s:%s" % (view, COLS[c])] += 1
            stats["leaves:%s" % view] += dollar_leaf_count(mp)
            nm = names
            if c == 15 and irow[3] == "SfLA":
                # rows generated by the ledger carry a generated memo (not modelled)
                nm = dict(names, memo={})
            d = match_cell(mp, ic, nm)
            if d is not None:
                bad(COLS[c], "row %d shows %r; %s" % (j, ic, d), j)
    if len(it["footer"]) != len(mt["footer"]):
        bad("footer", "footer has %d cells, model %d" % (len(it["footer"]), len(mt["footer"])))
    else:
        for c, (mp, ic) in enumerate(zip(mt["footer"], it["footer"])):
            stats["cells:%s:footer" % view] += 1
            d = match_cell(mp, ic, names)
            if d is not None:
                bad("footer[%d]" % c, "footer shows %r; %s" % (ic, d))
    stats["cells:%s:notes" % view] += 1
    if list(it["notes"]) != mt["notes"]:
        bad("notes", "notes %r, model %r" % (it["notes"], mt["notes"]))


def compare_aggregate(magg, it, view, stats, out, limit=6):
    def bad(msg):
        if len(out) < limit:
            out.append({"view": view, "table": "aggregate", "column": "Capital Gains", "row": None, "what": msg})

    if it["header"] != ["Year", "Capital Gains"]:
        bad("header %s" % it["header"])
        return
    if len(it["rows"]) != len(magg):
        bad("%d rows shown, model %d" % (len(it["rows"]), len(magg)))
        return
    for (ml, mv), irow in zip(magg, it["rows"]):
        for mp, ic in zip((ml, mv), irow):
            stats["cells:%s:aggregate" % view] += 1
            d = match_cell(mp, ic, {"sec": {}, "aff": {}})
            if d is not None:
                bad("aggregate shows %r; %s" % (ic, d))
    if it["footer"] or it["notes"]:
        bad("aggregate table has a footer / notes")


def names_of(r):
    """name tables of one corecheck result"""
    sec = {v: k for k, v in r["st"].items()}
    aff = {v: k for k, v in r["at"].items()}
    memo = {ri: row.get("memo", "") for ri, row in enumerate(r["case"]["rows"])}
    return {"sec": sec, "aff": aff, "memo": memo}


def compare_run(r, m, stats, agg_exact=True):
    """r: one result of corecheck.run_cases(..., render=True); m: parse_pipeline
    of the same case.  returns (status, mismatches); status 'compared' /
    'skipped' / 'both-panic'"""
    out = []
    i = r["impl"]
    rf, rc = r["raw"].get("render_full"), r["raw"].get("render_cents")
    if m["status"] == "model-error":
        return "compared", [{"view": "-", "table": "-", "column": "-", "row": None, "what": "model rejected its input (%s)" % m["code"]}]
    impl_panic = i["status"] == "panic" or (isinstance(rf, dict) and rf.get("status") == "panic")
    model_panic = m["status"] == "panic" or (m["status"] == "ok" and m["full"]["status"] == "panic")
    if impl_panic or model_panic:
        if impl_panic != model_panic:
            where = rf.get("panic") if isinstance(rf, dict) and rf.get("status") == "panic" else i.get("panic")
            return "compared", [{"view": "both", "table": "-", "column": "-", "row": None,
                                 "what": "implementation %s, model %s" % ("panicked (%s)" % str(where)[:160] if impl_panic else "rendered the report",
                                                                        "panics (%s)" % (m.get("panic") or m["full"].get("panic"),) if model_panic else "renders the report")}]
        return "both-panic", []
    if i["status"] != "ok" or not isinstance(rf, dict) or "secs" not in rf:
        if m["status"] == "ok":
            return "compared", [{"view": "both", "table": "-", "column": "-", "row": None,
                                 "what": "implementation stopped (%s), model renders a report" % (i.get("msg") or i["status"])}]
        return "skipped", []
    if m["status"] != "ok":
        return "compared", [{"view": "both", "table": "-", "column": "-", "row": None,
                             "what": "implementation rendered a report, model stopped (%s)" % (m,)}]
    names = names_of(r)
    for view, it_all, mres in (("full", rf, m["full"]), ("cents", rc, m["cents"])):
        if mres["status"] != "ok":
            out.append({"view": view, "table": "-", "column": "-", "row": None, "what": "model: %s" % (mres,)})
            continue
        mrep = mres["value"]
        inames = {names["sec"][s]: s for s in mrep["secs"]}
        if set(inames) != set(it_all["secs"]):
            out.append({"view": view, "table": "-", "column": "-", "row": None,
                        "what": "tables of %s, model %s" % (sorted(it_all["secs"]), sorted(inames))})
            continue
        for sname, snum in sorted(inames.items()):
            mt, it = mrep["secs"][snum], it_all["secs"][sname]
            compare_table(mt, it, names, view, sname, stats, out)
            stats["cells:%s:errors" % view] += 1
            if (mt["stop"][0] == 1) != (len(it["errors"]) > 0):
                out.append({"view": view, "table": sname, "column": "errors", "row": None,
                            "what": "errors %r, model outcome %s" % (it["errors"], mt["stop"])})
            elif mt["stop"][0] == 1 and core.rej_class(it["errors"][0]) != mt["stop"][1]:
                out.append({"view": view, "table": sname, "column": "errors", "row": None,
                            "what": "error %r, model class %s" % (it["errors"][0], mt["stop"][1])})
        compare_aggregate(mrep["agg"], it_all["agg"], view, stats, out)
    return "compared", out


# ------------------------------------------------------------------ direct mode
# render_tx_table_model / render_aggregate_capital_gains driven directly on
# given deltas and gains (harness binary acbh_render, model entry 1): states
# the ledger never produces (a sale from an empty position, a superficial-loss
# record on a row that is not a sale, arbitrary totals) are rendered too.
def _q(text):
    return qenc(Fraction(text))


def _opt(text):
    return [0, 0, 1] if text is None else [1] + _q(text)


def direct_ints(dc, arith=1):
    ds = dc["deltas"]
    at = core.af_table([d["af"] for d in ds if d.get("af") is not None])
    out = [1, arith, len(ds)]
    for ri, d in enumerate(ds):
        i, _, reg = core.af_id(d.get("af") or "")
        out += [0, d["td"], d["sd"], at[i], int(reg), int(i.startswith("default")), 0, ri]
        a = d["act"]
        if a in ("Buy", "Sell"):
            crate = d["crate"] if d.get("ccur") is not None else d["rate"]
            out += [0 if a == "Buy" else 1] + _q(d["sh"]) + _q(d["aps"]) + _q(d["com"]) + _q(d["rate"]) + _q(crate)
            if a == "Sell":
                if d.get("spec") is not None:
                    out += [1] + _q(d["spec"][0]) + [int(d["spec"][1])]
                else:
                    out += [0]
        elif a == "RoC":
            out += [2] + _q(d["aps"]) + _q(d["rate"])
        elif a == "SfLA":
            out += [3] + _q(d["sh"]) + _q(d["aps"])
        else:
            out += [4] + _q(d["post_split"]) + _q(d["pre_split"]) + [int(bool(d.get("int_only")))]
        for s in (d["pre"], d["post"]):
            out += _q(s[0]) + _q(s[1]) + _opt(s[2])
        out += _opt(d.get("gain"))
        if d.get("sfl") is not None:
            out += [1] + _q(d["sfl"][0]) + _q(d["sfl"][1]) + _q(d["sfl"][2]) + [int(d["sfl"][3])]
        else:
            out += [0, 0, 1, 0, 1, 0, 1, 0]
    g = dc["gains"]
    out += _q(g["total"]) + [len(g["years"])]
    for y, v in g["years"]:
        out += [y] + _q(v)
    out.append(len(ds))
    for d in ds:
        c = cur_bytes(d.get("cur"))
        cc = cur_bytes(d.get("ccur")) if d.get("ccur") is not None else c
        out += enc_bytes(c) + enc_bytes(cc)
    return out, at


def direct_json(dc):
    ds = []
    for ri, d in enumerate(dc["deltas"]):
        o = dict(d)
        o["td"] = core.date_str(d["td"])
        o["sd"] = core.date_str(d["sd"])
        o["ri"] = ri
        o["sec"] = "FOO"
        ds.append(o)
    return {"deltas": ds, "gains": {"total": dc["gains"]["total"], "years": [[y, v] for y, v in dc["gains"]["years"]]}}


def rdec(rng, kind="gez", big=False):
    """decimal text; kind: gez / pos / any / neg"""
    k = rng.random()
    if k < 0.25:
        t = core.D(rng.choice([0, 1, 2, 3, 5, 10, 100, 250]))[0]
    elif k < 0.45:
        t = core.D(rng.randint(0, 300000), 2)[0]
    elif k < 0.6:
        t = core.D(rng.randint(0, 10 ** 5) * 10 + 5, 3)[0]            # ties x.xx5
    elif k < 0.72:
        t = rng.choice(["0.001", "0.0049", "0.004999999999", "0.005", "0.0050000001", "0.0000000001", "0.00"])
    elif k < 0.9:
        t = core.D(rng.randint(0, 10 ** 12), rng.choice([4, 6, 9, 12]))[0]
    elif big and k < 0.93:
        t = core.D(rng.randint(10 ** 27, 7 * 10 ** 28))[0]
    else:
        t = core.D(rng.randint(0, 10 ** 15), rng.choice([0, 3, 20]))[0]
    f = Fraction(t)
    if kind in ("pos", "neg") and f == 0:
        t = rng.choice(["1", "0.001", "0.005", "2.50"])
    if kind == "neg" or (kind == "any" and rng.random() < 0.5 and Fraction(t) != 0):
        t = "-" + t
    return t


def gen_direct(rng):
    afs = rng.sample(["", "Spouse", "Spouse (R)", "(R)", "Zed"], rng.choice([1, 2, 3]))
    big = rng.random() < 0.08
    ds = []
    day = core.BASE_DAY + rng.randint(0, 900)
    for _ in range(rng.randint(0, 6)):
        day += rng.choice([0, 1, 30, 200])
        act = rng.choice(["Buy", "Sell", "Sell", "Sell", "RoC", "SfLA", "Split"])
        d = {"td": day - rng.choice([0, 2]), "sd": day, "af": rng.choice(afs), "act": act, "memo": ""}
        if act in ("Buy", "Sell"):
            d["sh"] = rdec(rng, "pos", big)
            d["aps"] = rdec(rng, "gez", big)
            d["com"] = rng.choice(["0", "0.00", "9.99", "0.005", "1"]) if rng.random() < 0.7 else rdec(rng, "gez")
            d["cur"], d["rate"] = rng.choice([("CAD", "1"), ("", "1"), ("cad", "1.0"), ("USD", rdec(rng, "pos", big)), ("eur", "1.4505"), ("USD", "1")])
            if rng.random() < 0.3:
                d["ccur"], d["crate"] = rng.choice([("CAD", "1"), ("USD", rdec(rng, "pos")), ("GBP", "1.75")])
            else:
                d["ccur"], d["crate"] = None, None
            if act == "Sell" and rng.random() < 0.4:
                d["spec"] = [rng.choice(["0", rdec(rng, "neg")]), rng.random() < 0.5]
        elif act == "RoC":
            d["aps"] = rdec(rng, "gez")
            d["cur"], d["rate"] = rng.choice([("CAD", "1"), ("USD", rdec(rng, "pos"))])
        elif act == "SfLA":
            d["sh"] = rdec(rng, "pos")
            d["aps"] = rdec(rng, "pos")
        else:
            d["post_split"], d["pre_split"] = rng.choice([("2", "1"), ("1", "3"), ("3", "2"), ("1.0", "2.0"), (rdec(rng, "pos"), rdec(rng, "pos"))])
            d["int_only"] = rng.random() < 0.3
        for key in ("pre", "post"):
            sh = rng.choice(["0", "0.0", rdec(rng, "gez", big), rdec(rng, "pos")])
            al = sh if rng.random() < 0.5 else rdec(rng, "gez")
            acb = None if rng.random() < 0.2 else rdec(rng, "gez", big)
            d[key] = [sh, al, acb]
        d["gain"] = None if rng.random() < 0.3 else rdec(rng, "any", big)
        d["sfl"] = None if rng.random() < 0.55 else [rdec(rng, "neg"), rdec(rng, "pos"), rdec(rng, "pos"), rng.random() < 0.4]
        ds.append(d)
    years = []
    for y in rng.sample(range(2015, 2026), rng.choice([0, 1, 2, 4])):
        years.append([y, rdec(rng, "any", big)])
    return {"deltas": ds, "gains": {"total": rdec(rng, "any", big), "years": years}}


def run_direct(exe, dcases, arith=1):
    impl = run_harness(exe, "table", [direct_json(dc) for dc in dcases])
    enc = [direct_ints(dc, arith) for dc in dcases]
    outs = run_model([e[0] for e in enc], group="render")
    return impl, [parse_direct(o) for o in outs], [e[1] for e in enc]


def compare_direct(dc, io, mo, at, stats):
    out = []
    if mo["status"] != "ok":
        return [{"view": "-", "table": "direct", "column": "-", "row": None, "what": "model rejected its input (%s)" % mo.get("code")}]
    names = {"sec": {0: "FOO"}, "aff": {v: k for k, v in at.items()}, "memo": {}}
    for view in ("full", "cents"):
        for key, akey in ((view, None), ("agg_" + view, "agg")):
            it, mt = io[key], mo[key]
            ipanic = it.get("status") == "panic"
            if ipanic or mt["status"] != "ok":
                stats["direct:panic-compared"] += 1
                if ipanic != (mt["status"] == "panic"):
                    out.append({"view": view, "table": "direct " + key, "column": "-", "row": None,
                                "what": "implementation %s, model %s" % ("panicked (%s)" % str(it.get("panic"))[:160] if ipanic else "rendered", mt["status"] + str(mt.get("panic", "")))})
                continue
            if akey is None:
                compare_table(mt["value"], it, names, view, "direct", stats, out)
            else:
                compare_aggregate(mt["value"], it, view, stats, out)
    return out
