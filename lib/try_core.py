import sys, random, json, collections
sys.path.insert(0, '/verif/lib')
import common, core, gen
ok, out = common.build_coq()
print('coq', ok, out[-500:] if not ok else '')
exe, o = common.build_harness("core")
print('harness', exe)
seed = int(sys.argv[1]); n = int(sys.argv[2])
rng = random.Random(seed)
cases = [gen.gen_case(rng) for _ in range(n)]
hc = [{"files": [core.to_csv(c["rows"])], "init": gen.init_specs(c)} for c in cases]
impl = common.run_harness(exe, "core", hc)
enc = [core.to_ints(c, 1) for c in cases]
mod = common.run_model([e[0] for e in enc])
stats = collections.Counter()
shown = 0
for c, e, io, mo in zip(cases, enc, impl, mod):
    m = core.parse_model(mo)
    i = core.parse_impl(io, e[1], e[2])
    d = core.diff_exact(m, i)
    key = 'agree' if d is None else 'DIFF'
    stats[key] += 1
    stats['impl-' + i['status']] += 1
    if i['status'] == 'ok':
        for s in i['secs'].values():
            stats['stop-%s' % (s['stop'][1])] += 1
    if d is not None and shown < 3:
        shown += 1
        print('----', d)
        print(core.to_csv(c['rows']), gen.init_specs(c))
print(stats)
