# What the REPORT shows must be what the ledger computed: an oracle for the
# rendered security tables (render.rs: render_tx_table_model).  The ledger
# properties (C01 figures, C02 superficial-loss annotation, C03 over-applied
# flag) speak about the figures the tool *reports*; the rows of the render
# model are compared, cell by cell, with the deltas the library returned for
# the same run.  Stored figures are printed by Decimal::to_string and must be
# equal; derived ones (cost per share, cost of the sale, amounts in CAD) are
# computed by the renderer with rust_decimal and must agree within 1e-9
# (relative for large values).
import datetime
import re
from fractions import Fraction

NUM = r"[+-]?\d+(?:\.\d+)?"
TOL = Fraction(1, 10 ** 9)
COLS = ['Security', 'Trade Date', 'Settl. Date', 'TX', 'Amount', 'Shares', 'Amt/Share', 'ACB', 'Commission',
        'Cap. Gain', 'Share Balance', 'ACB +/-', 'New ACB', 'New ACB/Share', 'Affiliate', 'Memo']
GROUPS = {
    "figures": {'Security', 'Settl. Date', 'TX', 'Amount', 'Shares', 'Amt/Share', 'ACB', 'Commission', 'Share Balance',
                'ACB +/-', 'New ACB', 'New ACB/Share', 'Affiliate', 'rows', 'gain'},
    "sfl": {'sfl', 'notes', 'rows', 'gain'},
    "over": {'over', 'notes', 'rows'},
    # the cost base and gain columns the conservation identity (C03) is read off
    "acb": {'New ACB', 'ACB +/-', 'gain', 'rows'},
}


def near(a, b):
    return abs(a - b) <= TOL * max(1, abs(b))


def money(cell):
    """'$1.5' / '-$2' / '+$0.00' at the start of a cell -> Fraction (or None)"""
    m = re.match(r"^\s*([+-]?)\$(" + NUM.replace("[+-]?", "") + r")", cell)
    if not m:
        return None
    v = Fraction(m.group(2))
    return -v if m.group(1) == "-" else v


def foreign(cell):
    """'$x\n(y CUR)' -> (y, CUR) or None"""
    m = re.search(r"\((" + NUM + r") ([A-Za-z]+)\)\s*$", cell)
    return (Fraction(m.group(1)), m.group(2)) if m else None


def check_table(sname, deltas, table, case_rows=None):
    """list of (group tag, message) for one security table of the full-precision render model"""
    out = []

    def bad(tag, msg):
        out.append((tag, "%s: %s" % (sname, msg)))

    hdr = table["header"]
    if hdr != COLS:
        bad("rows", "unexpected columns %s" % hdr)
        return out
    rows = table["rows"]
    if len(rows) != len(deltas):
        bad("rows", "%d rows shown for %d ledger rows" % (len(rows), len(deltas)))
        return out
    any_sfl = any_over = False
    for j, (d, row) in enumerate(zip(deltas, rows)):
        a = d["act"]
        pre, post = d["pre"], d["post"]
        q = [Fraction(x) if isinstance(x, str) and x not in ("True", "False") else x for x in (d.get("q") or [])]
        src = None
        if case_rows is not None and d.get("ri") is not None and d["ri"] < len(case_rows) and a != "SfLA":
            if case_rows[d["ri"]]["act"] == a:
                src = case_rows[d["ri"]]

        def cellbad(col, exp):
            bad(col if col in ("gain", "sfl", "over") else col, "row %d (%s) column %r shows %r, the ledger has %s" % (j, a, col if col not in ("gain", "sfl", "over") else "Cap. Gain", row[COLS.index(col if col not in ("gain", "sfl", "over") else "Cap. Gain")], exp))

        if row[0] != sname:
            cellbad('Security', sname)
        if row[2] != datetime.date.fromordinal(d["sd"]).isoformat():
            cellbad('Settl. Date', datetime.date.fromordinal(d["sd"]).isoformat())
        if row[3] != a:
            cellbad('TX', a)
        # shares column
        if a in ("Buy", "Sell"):
            exp_sh = q[0]
        elif a == "RoC":
            exp_sh = pre[0]
        elif a == "SfLA":
            exp_sh = d["sfla"][0]
        else:
            exp_sh = post[0] - pre[0]
        try:
            if (not near(Fraction(row[5]), exp_sh)) if a == "Split" else (Fraction(row[5]) != exp_sh):
                cellbad('Shares', exp_sh)
        except ValueError:
            cellbad('Shares', exp_sh)
        # amounts
        if a in ("Buy", "Sell", "RoC", "SfLA"):
            if a in ("Buy", "Sell"):
                n, aps, rate = q[0], q[1], q[3]
            elif a == "RoC":
                n, aps, rate = pre[0], q[0], q[1]
            else:
                n, aps, rate = d["sfla"][0], d["sfla"][1], Fraction(1)
            cur = (src.get("cur") or "CAD").upper() if src is not None else None
            is_foreign = (cur not in (None, "CAD")) if cur is not None else (foreign(row[6]) is not None)
            for col, val in (('Amount', n * aps), ('Amt/Share', aps)):
                c = row[COLS.index(col)]
                m = money(c)
                if m is None or not near(m, val * (rate if is_foreign else 1)):
                    cellbad(col, val * (rate if is_foreign else 1))
                fx = foreign(c)
                if is_foreign and (fx is None or not near(fx[0], val) or (cur is not None and fx[1].upper() != cur)):
                    cellbad(col, "(%s %s)" % (val, cur))
                if not is_foreign and fx is not None:
                    cellbad(col, "no foreign amount")
        else:
            if row[4] != "" or row[6] != "":
                cellbad('Amount', "empty")
        # commission
        if a in ("Buy", "Sell"):
            com, crate = q[2], q[4]
            if com == 0:
                if row[8] != "-":
                    cellbad('Commission', "-")
            else:
                m = money(row[8])
                fx = foreign(row[8])
                if m is None or not (near(m, com * crate) if fx is not None else near(m, com)):
                    cellbad('Commission', com * crate)
                if fx is not None and not near(fx[0], com):
                    cellbad('Commission', "(%s)" % com)
        elif row[8] != "-":
            cellbad('Commission', "-")
        # ACB of the sale
        if a == "Sell" and pre[0] > 0 and pre[2] is not None:
            m = money(row[7])
            if m is None or not near(m, pre[2] / pre[0] * q[0]):
                cellbad('ACB', pre[2] / pre[0] * q[0])
        elif row[7] != "-":
            cellbad('ACB', "-")
        # capital gain and its superficial-loss annotation
        cg = row[9]
        if d["gain"] is None:
            if cg != "-":
                cellbad('gain', "-")
        else:
            m = money(cg)
            if m is None or m != d["gain"]:
                cellbad('gain', d["gain"])
            ann = re.search(r" \*\n\(SfL (-?\$" + NUM.replace("[+-]?", "") + r")(!?); (" + NUM + r")/(" + NUM + r")(\[1\])?\)$", cg)
            if d["sfl"] is None:
                if "SfL" in cg or "*" in cg:
                    cellbad('sfl', "no superficial-loss annotation")
                if "[1]" in cg:
                    cellbad('over', "no over-applied marker")
            else:
                any_sfl = True
                amount, num, den, over = d["sfl"][0], d["sfl"][1], d["sfl"][2], bool(d["sfl"][3])
                any_over |= over
                if ann is None:
                    cellbad('sfl', "(SfL %s; %s/%s%s)" % (amount, num, den, "[1]" if over else ""))
                    if over:
                        cellbad('over', "[1]")
                else:
                    if money(ann.group(1)) != amount:
                        cellbad('sfl', "SfL %s" % amount)
                    if Fraction(ann.group(3)) != num or Fraction(ann.group(4)) != den:
                        cellbad('sfl', "ratio %s/%s" % (num, den))
                    forced = bool(src and src.get("sfl") and src["sfl"][1])
                    if src is not None and (ann.group(2) == "!") != forced:
                        cellbad('sfl', "forced marker %s" % ("!" if forced else "absent"))
                    if (ann.group(5) is not None) != over:
                        cellbad('over', "[1]" if over else "no over-applied marker")
        # share balance
        sb = row[10]
        if a in ("Buy", "Sell", "Split"):
            m = re.match(r"^(" + NUM + r")(?: / (" + NUM + r"))?(?: \(x(" + NUM + r")\))?$", sb)
            if not m:
                cellbad('Share Balance', post[0])
            else:
                if Fraction(m.group(1)) != post[0]:
                    cellbad('Share Balance', post[0])
                if (m.group(2) is None) != (post[0] == post[1]) or (m.group(2) is not None and Fraction(m.group(2)) != post[1]):
                    cellbad('Share Balance', "%s / %s" % (post[0], post[1]))
                if a == "Split":
                    if m.group(3) is None or not near(Fraction(m.group(3)), q[0] / q[1]):
                        cellbad('Share Balance', "(x%s)" % (q[0] / q[1]))
                elif m.group(3) is not None:
                    cellbad('Share Balance', "no split factor")
        elif sb != "":
            cellbad('Share Balance', "empty")
        # ACB +/-, New ACB, New ACB/Share
        if pre[2] is not None and post[2] is not None:
            m = money(row[11])
            if m is None or not near(m, post[2] - pre[2]):
                cellbad('ACB +/-', post[2] - pre[2])
        elif row[11] != "-":
            cellbad('ACB +/-', "-")
        if post[2] is not None:
            if money(row[12]) != post[2]:
                cellbad('New ACB', post[2])
        elif row[12] != "-":
            cellbad('New ACB', "-")
        if post[0] > 0 and post[2] is not None:
            m = money(row[13])
            if m is None or not near(m, post[2] / post[0]):
                cellbad('New ACB/Share', post[2] / post[0])
        elif row[13] != "-":
            cellbad('New ACB/Share', "-")
        if d.get("afid") is not None and row[14].strip().lower() != str(d["afid"]).lower():
            cellbad('Affiliate', d["afid"])
    notes = " ".join(table.get("notes") or [])
    if ("SfL = Superficial loss" in notes) != any_sfl:
        bad("notes", "the SfL legend is %s although %s row is superficial" % ("shown" if not any_sfl else "missing", "no" if not any_sfl else "a"))
    if ("[1] Superficial loss was potentially over-applied" in notes) != any_over:
        bad("notes", "the over-applied legend is %s although %s sale is flagged" % ("shown" if not any_over else "missing", "no" if not any_over else "a"))
    return out


def check_run(r, groups=("figures", "sfl", "over")):
    """r: one result of corecheck.run_cases(..., render=True); returns (status, problems):
    status 'ok' | 'skipped' | 'render-panic'"""
    i = r["impl"]
    raw = r["raw"].get("render_full")
    if i["status"] != "ok":
        return "skipped", []
    if not isinstance(raw, dict) or "secs" not in raw:
        if isinstance(raw, dict) and raw.get("status") == "panic":
            return "render-panic", [("rows", "rendering the report panicked: %s" % str(raw.get("panic"))[:200])]
        return "skipped", []
    want = set()
    for g in groups:
        want |= GROUPS[g]
    names = {v: k for k, v in r["st"].items()}
    probs = []
    for snum, so in sorted(i["secs"].items()):
        sname = names[snum]
        t = raw["secs"].get(sname)
        if t is None:
            if so["deltas"]:
                probs.append(("rows", "%s: no table rendered" % sname))
            continue
        for tag, msg in check_table(sname, so["deltas"], t, r["case"].get("rows")):
            if tag in want:
                probs.append((tag, msg))
    return "ok", probs
