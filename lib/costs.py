# Group "costs" (C17, C09): generators of multi-security histories, the
# rendering of the implementation's delta lists as model input, parsers for
# the model's and the implementation's total-cost tables and the L0 oracle
# in Python (exact fractions).
import datetime
import json
import os
import re
from fractions import Fraction

import core
from core import BASE_DAY, D
from common import Reader, qenc, VERIF

SEC_POOL = ["AAA", "BBB", "CCC", "FOO", "BAR", "ZED", "aaa", "Q.TO", "X1"]
AF_POOL = ["", "", "", "", "(R)", "Spouse", "Spouse (R)", "Defaulty", "Default", " default ", "B"]
GAPS = [0, 0, 0, 0, 1, 1, 2, 3, 7, 30, 31, 90, 200, 365, 400, 800]


def ordinal(iso):
    return datetime.date.fromisoformat(iso).toordinal()


def price(rng):
    k = rng.random()
    if k < 0.45:
        return D(rng.randint(1, 30000), 2)
    if k < 0.75:
        return D(rng.randint(1, 500))
    if k < 0.92:
        return D(rng.randint(1, 10 ** 8), rng.choice([3, 4, 5, 6]))
    return D(rng.randint(10 ** 20, 10 ** 27), rng.choice([18, 20, 22, 24]))


def qty(rng):
    k = rng.random()
    if k < 0.6:
        return D(rng.choice([1, 2, 3, 5, 7, 10, 25, 100, 300]))
    if k < 0.9:
        return D(rng.randint(1, 5000), rng.choice([1, 2, 3]))
    return D(rng.randint(1, 10 ** 7), rng.choice([4, 6]))


def gen_case(rng, nsec=None, n_events=None, afs=None, gaps=None, p_invalid=0.02):
    """several securities on one time line: several settlements per day,
    same-day round trips, long gaps, years without rows, other affiliates"""
    nsec = nsec or rng.choice([1, 2, 2, 3, 3, 4, 5])
    secs = rng.sample(SEC_POOL, nsec)
    afs = afs or list(set([""] + rng.sample(AF_POOL, rng.choice([1, 1, 2, 3]))))
    gaps = gaps or GAPS
    n = n_events or rng.randint(2, 24)
    day = BASE_DAY + rng.randint(0, 700)
    bal = {}
    rows = []
    inits = {}
    for s in secs:
        if rng.random() < 0.12:
            sh = D(rng.randint(1, 500))
            inits[s] = (sh, D(rng.randint(0, 100000), 2))
            bal[(s, "")] = sh[1]

    def afcell(af):
        return af if af != "" else rng.choice([None, None, "Default"])

    for _ in range(n):
        day += rng.choice(gaps)
        sec = rng.choice(secs)
        af = rng.choice(afs) if rng.random() < 0.35 else ""
        key = (sec, core.af_id(af)[0])
        held = bal.get(key, Fraction(0))
        td = day - rng.choice([0, 1, 2, 2])
        base = {"sec": sec, "td": td, "sd": day}
        k = rng.random()
        if k < 0.12:
            # same-day round trip: buy and sell everything bought, same settlement day
            q = qty(rng)
            rows.append(dict(base, act="Buy", sh=q, aps=price(rng), com=None, cur=None, rate=None, af=afcell(af)))
            if held == 0 or rng.random() < 0.5:
                tot = held + q[1]
                try:
                    qs = (core.dtext(tot), tot) if rng.random() < 0.6 else q
                except ValueError:
                    qs = q
                rows.append(dict(base, act="Sell", sh=qs, aps=price(rng), com=None, cur=None, rate=None, af=afcell(af)))
                bal[key] = held + q[1] - qs[1]
            else:
                bal[key] = held + q[1]
            continue
        if k < 0.16 and held > 0 and "(R)" not in af and "(r)" not in af:
            rows.append(dict(base, act="RoC", aps=D(rng.randint(1, 50), 2), cur=None, rate=None, af=afcell(af)))
            continue
        if k < 0.19 and held > 0:
            ratio = rng.choice([("2", "1"), ("3", "2"), ("1", "2"), ("10", "1")])
            r = dict(base, act="Split", split=ratio)
            f = Fraction(ratio[0]) / Fraction(ratio[1])
            if rng.random() < 0.5:
                r["af"] = None
                for kk in list(bal):
                    if kk[0] == sec:
                        bal[kk] *= f
            else:
                r["af"] = af if af != "" else "Default"
                bal[key] = held * f
            rows.append(r)
            continue
        invalid = rng.random() < p_invalid
        if held > 0 and (rng.random() < 0.45 or invalid):
            if invalid:
                q = D(int(held) + rng.randint(1, 5))
            elif rng.random() < 0.4:
                try:
                    q = (core.dtext(held), held)
                except ValueError:
                    q = D(1)
                    if q[1] > held:
                        continue
            else:
                q = qty(rng)
                if q[1] > held:
                    try:
                        q = (core.dtext(held), held)
                    except ValueError:
                        continue
            r = dict(base, act="Sell", sh=q, aps=price(rng), com=None, af=afcell(af))
            bal[key] = held - q[1]
        else:
            q = qty(rng)
            r = dict(base, act="Buy", sh=q, aps=price(rng), com=None, af=afcell(af))
            bal[key] = held + q[1]
        if rng.random() < 0.3:
            r["com"] = D(rng.choice([499, 995, 1]), 2)
        if rng.random() < 0.15:
            r["cur"], r["rate"] = "USD", D(rng.randint(9000, 15000), 4)
        else:
            r["cur"], r["rate"] = None, None
        rows.append(r)
    return {"rows": rows, "inits": inits}


def harness_case(case):
    return {"files": [core.to_csv(case["rows"])],
            "init": ["%s:%s:%s" % (s, v[0][0], v[1][0]) for s, v in sorted(case.get("inits", {}).items())]}


# ---------------------------------------------------------------- encoding
def af_numbers(ids):
    """order-preserving numbering of affiliate id strings, "default" -> 1000"""
    ids = sorted(set(list(ids) + ["default"]), key=lambda s: s.encode())
    base = ids.index("default")
    return {i: 1000 + k - base for k, i in enumerate(ids)}


def all_deltas(impl):
    """the implementation's deltas in the order the code concatenates them:
    securities in sorted name order, each security's rows in list order;
    -> (deltas, security numbering, affiliate numbering)"""
    names = sorted(impl["secs"].keys(), key=lambda s: s.encode())
    st = {s: i for i, s in enumerate(names)}
    ds = []
    for s in names:
        ds += impl["secs"][s]["deltas"]
    at = af_numbers(d["af"] for d in ds)
    return ds, st, at


def optq(x):
    return [0, 0, 1] if x is None else [1] + qenc(Fraction(x))


def enc_deltas(ds, st, at):
    out = [len(ds)]
    for d in ds:
        out += [st[d["sec"]], ordinal(d["sd"]), at[d["af"]], int(bool(d["isdef"]))]
        out += optq(d["pre"]) + optq(d["post"])
    return out


def model_input(ds, st, at, arith=1, cm=0, sec_order=0, day_order=0):
    return [0, arith, cm, sec_order, day_order] + enc_deltas(ds, st, at)


def spec_input(ds, st, at):
    return [1] + enc_deltas(ds, st, at)


# ---------------------------------------------------------------- parsing
def parse_tables(ints, has_status=True):
    """model / spec output -> canonical tables"""
    rd = Reader(ints)
    if rd.z() != 1:
        return {"status": "model-error", "raw": ints[:4]}
    if has_status:
        st = rd.z()
        if st == 2:
            return {"status": "panic", "panic": (rd.z(), rd.z())}
        if st != 0:
            return {"status": "rej"}
    nsec = rd.z()
    secs = [rd.z() for _ in range(nsec)]
    total = []
    for _ in range(rd.z()):
        day = rd.z()
        tot = rd.q()
        total.append((day, tot, tuple(rd.q() for _ in range(nsec))))
    yearly = []
    for _ in range(rd.z()):
        y = rd.z()
        day = rd.z()
        tot = rd.q()
        yearly.append((y, day, tot, tuple(rd.q() for _ in range(nsec))))
    notes = []
    for _ in range(rd.z()):
        notes.append((rd.z(), rd.z(), rd.z(), rd.z()))
    assert rd.done()
    return {"status": "ok", "secs": secs, "total": total, "yearly": yearly, "notes": notes}


def money(s):
    assert s.startswith("$"), s
    return Fraction(s[1:])


NOTE_REG = re.compile(r"^(\d{4}-\d\d-\d\d) \((.*)\) ignored transaction from registered affiliate$")
NOTE_AF = re.compile(r"^(\d{4}-\d\d-\d\d) \((.*)\) ignored transaction from non-default affiliate (.*)$")


def parse_impl_tables(t, st, names_to_num):
    """harness 'full' object -> canonical tables (securities / affiliates as
    numbers); names_to_num maps affiliate *names* to numbers"""
    if t.get("status") == "panic":
        return {"status": "panic", "panic": t["panic"]}
    if "err" in t:
        return {"status": "err", "msg": t["err"]}
    tot, yr = t["total"], t["yearly"]
    assert tot["header"][:2] == ["Date", "Total"] and yr["header"][:3] == ["Year", "Date", "Total"]
    secs = [st[s] for s in tot["header"][2:]]
    out = {"status": "ok", "secs": secs, "ysecs": [st[s] for s in yr["header"][3:]]}
    out["total"] = [(ordinal(r[0]), money(r[1]), tuple(money(x) for x in r[2:])) for r in tot["rows"]]
    out["yearly"] = [(int(r[0]), ordinal(r[1]), money(r[2]), tuple(money(x) for x in r[3:])) for r in yr["rows"]]

    def notes(ns):
        res = []
        for n in ns:
            m = NOTE_REG.match(n)
            if m:
                res.append((0, ordinal(m.group(1)), st[m.group(2)], 0))
                continue
            m = NOTE_AF.match(n)
            if m:
                res.append((1, ordinal(m.group(1)), st[m.group(2)], names_to_num.get(m.group(3), -1)))
                continue
            res.append((9, 0, 0, 0))
        return res

    out["notes"] = notes(tot["notes"])
    out["ynotes"] = notes(yr["notes"])
    return out


# ---------------------------------------------------------------- L0 oracle
def counted(d):
    return d["af"] == "default" and d["post"] is not None


def oracle(ds, st, at):
    """the L0 tables (Spec/MaxCost.v) from the implementation's own deltas, in
    exact fractions; independent of the L1 model"""
    rows = [d for d in ds if counted(d)]
    secs = sorted(set(st[d["sec"]] for d in rows))
    days = sorted(set(ordinal(d["sd"]) for d in rows))
    by_sec = {s: [d for d in rows if st[d["sec"]] == s] for s in secs}

    def cost(day, s):
        r = by_sec[s]
        on = [Fraction(d["post"]) for d in r if ordinal(d["sd"]) == day]
        if on:
            return max(on)
        before = [d for d in r if ordinal(d["sd"]) < day]
        if before:
            return Fraction(before[-1]["post"])
        return Fraction(r[0]["pre"]) if r[0]["pre"] is not None else Fraction(0)

    table = []
    for day in days:
        cs = tuple(cost(day, s) for s in secs)
        table.append((day, sum(cs, Fraction(0)), cs))
    notes = []
    for d in ds:
        if not counted(d):
            if d["post"] is None:
                notes.append((0, ordinal(d["sd"]), st[d["sec"]], 0))
            else:
                notes.append((1, ordinal(d["sd"]), st[d["sec"]], at[d["af"]]))
    return {"secs": secs, "total": table, "notes": notes}


def chronological(ds, st):
    """precondition of the refinement theorem: counted rows of one security
    are in non-decreasing settlement-day order"""
    last = {}
    for d in ds:
        if counted(d):
            o = ordinal(d["sd"])
            if last.get(d["sec"], o) > o:
                return False
            last[d["sec"]] = o
    return True


def load_findings(prop):
    """known findings of a property: the per-property fragment if present,
    else the assembled file"""
    p = os.path.join(VERIF, "known-findings.d", prop + ".json")
    if os.path.exists(p):
        return json.load(open(p)).get("findings", [])
    p = os.path.join(VERIF, "known-findings.json")
    if os.path.exists(p):
        return [k for k in json.load(open(p)).get("findings", []) if k["property"] == prop]
    return []
